(* Mem.v — C19 (partial): the liveness discipline of the per-stream object table.
   State::store_ref(&impl Any) keeps the address as *const dyn Any, erasing the borrow;
   get_ref_by_id turns it back into &dyn Any with `unsafe { ptr.as_ref() }` (state.rs:35-59);
   try_read_ref hands that reference to client code (deserializer/mod.rs:58-69).
   A client program is a sequence of operations a SAFE Rust program can perform; the library is
   unsound iff a lookup hands out an object whose lifetime has ended. *)
From Coq Require Import NArith List Bool Lia.
Import ListNotations.
Open Scope N_scope.

Inductive cop :=
| Alloc                  (* a new object comes to life; its address is the next index *)
| Drop (a : N)           (* the object's lifetime ends (scope exit, drop, move-out) *)
| StoreRef (a : N)       (* state_mut().store_ref(&obj) *)
| GetRef (id : N).       (* try_read_ref() returning Some(r), then using r *)

Record mstate := mkM { m_live : list bool; m_table : list N }.
Definition m_init : mstate := mkM [] [].

Definition is_live (s : mstate) (a : N) : bool := nth (N.to_nat a) (m_live s) false.

Fixpoint set_dead (l : list bool) (i : nat) : list bool :=
  match l, i with
  | [], _ => []
  | _ :: r, O => false :: r
  | x :: r, S i' => x :: set_dead r i'
  end.

(* what the safe-Rust type system enforces on the client's OWN operations: it can only take a
   reference to, or drop, an object that is alive *)
Definition client_step_ok (s : mstate) (o : cop) : bool :=
  match o with
  | Alloc => true
  | Drop a | StoreRef a => is_live s a
  | GetRef _ => true
  end.

(* one step; the flag says whether the library handed out a dead object *)
Definition mstep (s : mstate) (o : cop) : mstate * bool :=
  match o with
  | Alloc => (mkM (m_live s ++ [true]) (m_table s), false)
  | Drop a => (mkM (set_dead (m_live s) (N.to_nat a)) (m_table s), false)
  | StoreRef a =>
      (if existsb (N.eqb a) (m_table s) then s else mkM (m_live s) (m_table s ++ [a]), false)
  | GetRef id =>
      match nth_error (m_table s) (N.to_nat (id - 1)) with
      | Some a => (s, if id =? 0 then false else negb (is_live s a))     (* id 0 is "no reference" *)
      | None => (s, false)                                               (* InvalidRefId *)
      end
  end.

Fixpoint mrun (s : mstate) (p : list cop) : bool * bool :=      (* (client_ok, dead object handed out) *)
  match p with
  | [] => (true, false)
  | o :: r =>
      let ok := client_step_ok s o in
      let '(s', bad) := mstep s o in
      let '(ok', bad') := mrun s' r in
      (ok && ok', bad || bad')
  end.

Definition client_ok (p : list cop) : bool := fst (mrun m_init p).
Definition hands_out_dead (p : list cop) : bool := snd (mrun m_init p).

(* the known class: an object is dropped while its address sits in the table *)
Fixpoint drops_registered (s : mstate) (p : list cop) : bool :=
  match p with
  | [] => false
  | o :: r =>
      (match o with Drop a => existsb (N.eqb a) (m_table s) | _ => false end) ||
      drops_registered (fst (mstep s o)) r
  end.
Definition known_class_dangling (p : list cop) : bool := drops_registered m_init p.
