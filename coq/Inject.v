(* Inject.v — the encoder is injective up to transient fields: two well-formed values of a type
   have the same encoding (from the same string table) exactly when they have the same normal form,
   i.e. differ at most in transient fields.  Corollaries of the round trip. *)
From Coq Require Import NArith ZArith List.
From Desert Require Import Outcome IO Types Codec CodecWf CodecRt2 PropLemmas.
Import ListNotations.
Open Scope N_scope.

(* same bytes => same normal form (and the writers end with the same string table) *)
Theorem enc_injective : forall f E t v v' st b st1 st2,
  wf_env E = true -> wf_env_rt E = true -> wf_ty E t = true ->
  wf_val f E t v = true -> wf_val f E t v' = true ->
  enc f E t v st = Ok (b, st1) -> enc f E t v' st = Ok (b, st2) ->
  normv f E t v = normv f E t v' /\ st1 = st2.
Proof.
  intros f E t v v' st b st1 st2 HE HR Ht Hv Hv' He He'.
  pose proof (roundtrip f E t v st b st1 [] [] HE HR Ht Hv He) as H1.
  pose proof (roundtrip f E t v' st b st2 [] [] HE HR Ht Hv' He') as H2.
  rewrite H1 in H2. injection H2 as Hn Hs. split; assumption.
Qed.

(* for declaration-free types nothing is transient: the encoder is injective outright *)
Theorem enc_injective_builtin : forall f t v v' st b st1 st2,
  wf_ty [] t = true -> wf_val f [] t v = true -> wf_val f [] t v' = true ->
  enc f [] t v st = Ok (b, st1) -> enc f [] t v' st = Ok (b, st2) -> v = v'.
Proof.
  intros f t v v' st b st1 st2 Ht Hv Hv' He He'.
  pose proof (roundtrip_builtin f t v st b st1 [] [] Ht Hv He) as H1.
  pose proof (roundtrip_builtin f t v' st b st2 [] [] Ht Hv' He') as H2.
  rewrite H1 in H2. injection H2 as Hn _. exact Hn.
Qed.

(* no encoding is a strict prefix of another encoding of the same type (prefix-freedom): if
   enc v' = enc v ++ r then r = [] *)
Theorem enc_prefix_free : forall f E t v v' st b r st1 st2,
  wf_env E = true -> wf_env_rt E = true -> wf_ty E t = true ->
  wf_val f E t v = true -> wf_val f E t v' = true ->
  enc f E t v st = Ok (b, st1) -> enc f E t v' st = Ok (b ++ r, st2) -> r = [].
Proof.
  intros f E t v v' st b r st1 st2 HE HR Ht Hv Hv' He He'.
  pose proof (roundtrip f E t v st b st1 r [] HE HR Ht Hv He) as H1.
  pose proof (roundtrip f E t v' st (b ++ r) st2 [] [] HE HR Ht Hv' He') as H2.
  rewrite app_nil_r in H2. rewrite H1 in H2. injection H2 as _ Hr _. exact Hr.
Qed.
