(* MemProofs.v — C19: if no object is dropped while registered the table only yields live objects;
   and the witness that the safe API allows exactly that drop. *)
From Coq Require Import NArith List Bool Lia.
From Desert Require Import Mem.
Import ListNotations.
Open Scope N_scope.

(* every registered address is live *)
Definition table_live (s : mstate) : Prop := forall a, In a (m_table s) -> is_live s a = true.

Lemma is_live_app s x a : is_live s a = true -> nth (N.to_nat a) (m_live s ++ [x]) false = true.
Proof.
  unfold is_live. intros H.
  destruct (Compare_dec.le_lt_dec (length (m_live s)) (N.to_nat a)) as [L|L].
  - rewrite nth_overflow in H by exact L. discriminate.
  - rewrite app_nth1 by exact L. exact H.
Qed.

Lemma set_dead_other l i j : i <> j -> nth j (set_dead l i) false = nth j l false.
Proof.
  revert i j. induction l as [|x l IH]; intros [|i] [|j] H; cbn; try reflexivity; try congruence.
  apply IH. congruence.
Qed.

Lemma mstep_keeps s o :
  table_live s -> client_step_ok s o = true ->
  (match o with Drop a => existsb (N.eqb a) (m_table s) | _ => false end) = false ->
  table_live (fst (mstep s o)) /\ snd (mstep s o) = false.
Proof.
  intros TL Hok Hk. destruct o as [|a|a|id]; cbn [mstep fst snd].
  - split; [|reflexivity]. intros a Ha. unfold is_live. cbn. apply is_live_app. apply TL. exact Ha.
  - split; [|reflexivity]. intros b Hb. unfold is_live. cbn [m_live m_table] in *.
    assert (a <> b).
    { intros ->. assert (existsb (N.eqb b) (m_table s) = true).
      { apply existsb_exists. exists b. split; [exact Hb | apply N.eqb_refl]. }
      congruence. }
    rewrite set_dead_other by lia. apply TL. exact Hb.
  - split; [|reflexivity]. destruct (existsb (N.eqb a) (m_table s)); [exact TL|].
    intros b Hb. cbn [m_table] in Hb. apply in_app_or in Hb as [Hb|[<-|[]]].
    + apply TL. exact Hb.
    + exact Hok.
  - destruct (nth_error (m_table s) (N.to_nat (id - 1))) as [a|] eqn:E; cbn [fst snd]; split; try exact TL; try reflexivity.
    destruct (id =? 0); [reflexivity|]. rewrite (TL a (nth_error_In _ _ E)). reflexivity.
Qed.

Lemma mrun_safe : forall p s,
  table_live s -> fst (mrun s p) = true -> drops_registered s p = false -> snd (mrun s p) = false.
Proof.
  induction p as [|o p IH]; intros s TL Hok Hk; [reflexivity|].
  cbn [mrun drops_registered] in *.
  apply orb_false_iff in Hk as [Hk1 Hk2].
  destruct (mstep s o) as [s' bad] eqn:Es. destruct (mrun s' p) as [ok' bad'] eqn:Er.
  cbn [fst snd] in *. apply andb_true_iff in Hok as [Ho Ho'].
  pose proof (mstep_keeps s o TL Ho Hk1) as [TL' Hb]. rewrite Es in TL', Hb. cbn [fst snd] in *.
  subst bad. cbn [orb].
  specialize (IH s' TL'). rewrite Er in IH. cbn [fst snd] in IH. apply IH; assumption.
Qed.

Theorem refs_sound_unless_dropped_while_registered : forall p,
  client_ok p = true -> known_class_dangling p = false -> hands_out_dead p = false.
Proof.
  intros p H1 H2. apply mrun_safe; try assumption. intros a [].
Qed.

(* the witness: alloc, register, drop, look up - every step is legal for a safe client *)
Theorem refs_refuted :
  exists p, client_ok p = true /\ known_class_dangling p = true /\ hands_out_dead p = true.
Proof. exists [Alloc; StoreRef 0; Drop 0; GetRef 1]. vm_compute. repeat split. Qed.
