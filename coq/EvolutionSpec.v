(* EvolutionSpec.v — statement of C03 (definitions only; proved in Evolution.v). *)
From Coq Require Import NArith ZArith List Bool.
From Desert Require Import Outcome IO Types Codec CodecWf History RecordRt RecordChunkedSpec.
Import ListNotations.
Open Scope N_scope.

(* field codecs that leave the string table alone (DESIGN 9.4: string ids are positional in the
   stream, so de-duplicated strings and differing writer/reader definitions do not mix) *)
Record fields_neutral (E : env) (encf : ty -> encoder) (decf : ty -> adecoder)
    (w : ty -> val -> bool) (nv : ty -> val -> val) : Prop := {
  fn_ok : fields_ok E encf decf w nv;
  fn_enc : forall t v st b st', encf t v st = Ok (b, st') -> st' = st;
  (* the bytes do not depend on the table either *)
  fn_bytes : forall t v st1 st2, omap fst (encf t v st1) = omap fst (encf t v st2);
  (* Option<T> is encoded as a tag and then T *)
  fn_opt_some : forall t x st, encf (TOption t) (VSome x) st = ('(b, st) <- encf t x st ;; Ok (1 :: b, st)) }.

(* the written values as the reader will see them: each normalised at its own (writer's) type *)
Fixpoint norm_written (nv : ty -> val -> val) (fs : list field) (vs : list val) : list val :=
  match fs, vs with
  | f :: fs', v :: vs' => nv (f_ty f) v :: norm_written nv fs' vs'
  | _, _ => vs
  end.

Definition all_field_types_wf (E : env) (H : history) : bool :=
  forallb (fun f => wf_ty E (f_ty f)) (h_init H) &&
  forallb (fun h => match h with HAdd f _ => wf_ty E (f_ty f) | _ => true end) (h_steps H).

Definition c03_stmt : Prop :=
  forall (E : env) (encf : ty -> encoder) (decf : ty -> adecoder)
         (w : ty -> val -> bool) (nv : ty -> val -> val),
    fields_neutral E encf decf w nv ->
    forall (H : history) (kw kr : nat) vw st b st' s k,
      legal H = true -> all_field_types_wf E H = true ->
      (kw <= length (h_steps H))%nat -> (kr <= length (h_steps H))%nat ->
      wf_fields w (r_fields (decl_at H kw)) vw = true ->
      enc_record encf (decl_at H kw) vw st = Ok (b, st') ->
      match expected H kw kr (norm_written nv (r_fields (decl_at H kw)) vw) with
      | Ok vs =>
          exists rest st'',
            dec_record a_ops decf (decl_at H kr) (mkA (b ++ s) k st) = Ok (VNode 0 vs, mkA rest k st'') /\
            (framed H kw kr = true -> rest = s)
      | Err e => dec_record a_ops decf (decl_at H kr) (mkA (b ++ s) k st) = Err e
      | _ => False
      end.
