(* IsolationProofs.v — C18: calls are isolated and deterministic, also across threads.
   Proofs about the model in Isolation.v. *)
From Coq Require Import NArith ZArith List Bool Arith Lia.
From Desert Require Import Outcome IO Types Codec CodecB Isolation.
Import ListNotations.
Local Open Scope nat_scope.

(* ------------------------------------------------------------------ *)
(* reading a declaration back through its own cell value               *)
(* ------------------------------------------------------------------ *)

Lemma variants_rebuild : forall vs : list variant,
  map (fun vs0 : variant * list Types.step =>
         mkV (v_name (fst vs0)) (v_transient (fst vs0))
             (mkR (r_fields (v_rec (fst vs0))) (snd vs0)))
      (combine vs (map (fun v => r_steps (v_rec v)) vs)) = vs.
Proof.
  induction vs as [|[n t [f s]] vs IH]; simpl; [reflexivity|].
  now rewrite IH.
Qed.

Lemma with_steps_decl : forall d, with_steps d (decl_steps d) = d.
Proof.
  intros [n [[f s]|[so vs]]]; unfold with_steps, decl_steps; simpl.
  - reflexivity.
  - now rewrite variants_rebuild.
Qed.

(* ------------------------------------------------------------------ *)
(* touch                                                               *)
(* ------------------------------------------------------------------ *)

Lemma proc_init_inv : forall E, proc_inv E (proc_init E).
Proof.
  unfold proc_inv, proc_init. induction E as [|d E IH]; simpl; constructor; auto.
Qed.

Lemma proc_inv_length : forall E p, proc_inv E p -> length p = length E.
Proof.
  unfold proc_inv. induction 1; simpl; [reflexivity|]. now f_equal.
Qed.

Lemma proc_inv_ready : forall E p n d m,
  proc_inv E p -> nth_error E n = Some d -> nth_error p n = Some (Ready m) ->
  nth_error p n = Some (Ready (decl_steps d)).
Proof.
  unfold proc_inv. intros E p n d m Hp; revert n.
  induction Hp as [|d' c' E' p' Hc' Hp IH]; intros n Hd Hm.
  - destruct n; discriminate.
  - destruct n; simpl in *.
    + inversion Hd; inversion Hm; subst. destruct Hc' as [Hc'|Hc']; [discriminate|].
      now rewrite Hc'.
    + apply IH; assumption.
Qed.

Lemma touch_inv : forall E p n, proc_inv E p -> proc_inv E (touch E p n).
Proof.
  unfold proc_inv. intros E p n H; revert n.
  induction H as [|d c E p Hc H IH]; intros n.
  - destruct n; simpl; constructor.
  - destruct n; simpl.
    + constructor; [|assumption]. destruct Hc as [->| ->]; right; reflexivity.
    + constructor; [assumption|apply IH].
Qed.

Definition is_ready (p : proc) (n : nat) : Prop := exists m, nth_error p n = Some (Ready m).
Definition ready_below (p : proc) (j : nat) : Prop := forall n, n < j -> is_ready p n.

(* Once: a cell that is Ready stays Ready *)
Lemma touch_keeps_ready : forall E p k n, is_ready p n -> is_ready (touch E p k) n.
Proof.
  unfold is_ready. induction E as [|d E IH]; intros p k n H.
  - destruct p, k; simpl; exact H.
  - destruct p as [|c r]; [destruct k; simpl; exact H|].
    destruct k; simpl.
    + destruct n; simpl in *; [|exact H].
      destruct H as [m H]. inversion H; subst. eexists; reflexivity.
    + destruct n; simpl in *; [exact H|apply IH, H].
Qed.

Lemma touch_makes_ready : forall E p n,
  length p = length E -> n < length E -> is_ready (touch E p n) n.
Proof.
  unfold is_ready. induction E as [|d E IH]; intros p n Hl Hn; simpl in Hn; [lia|].
  destruct p as [|c r]; simpl in Hl; [discriminate|].
  destruct n; simpl.
  - destruct c; eexists; reflexivity.
  - apply IH; lia.
Qed.

(* reading the declarations through fully initialised cells gives back the declarations *)
Lemma env_seen_inv : forall E p,
  proc_inv E p -> ready_below p (length E) -> env_seen E p = E.
Proof.
  unfold proc_inv. induction 1 as [|d c E p Hc _ IH]; intros Hr; simpl; [reflexivity|].
  assert (Hr' : ready_below p (length E)).
  { intros n Hn. apply (Hr (S n)). simpl. lia. }
  destruct (Hr 0) as [m Hm]; [simpl; lia|]. simpl in Hm. inversion Hm; subst c.
  destruct Hc as [Hc|Hc]; [discriminate|]. inversion Hc; subst m.
  rewrite with_steps_decl, (IH Hr'). reflexivity.
Qed.

(* ------------------------------------------------------------------ *)
(* the per-thread invariant                                            *)
(* ------------------------------------------------------------------ *)

(* thread with remaining micro-steps t still has to return from the calls `rest`; in its current
   call it has already performed the touches of cells 0..j-1, and these cells are Ready *)
Definition tstate (E : env) (p : proc) (t : list mop) (rest : list call) : Prop :=
  match rest with
  | [] => t = []
  | c :: rest' =>
      exists j, j <= length E /\ ready_below p j /\
        t = map MTouch (seq j (length E - j)) ++ MRun c :: flat_map (call_ops E) rest'
  end.

Lemma tstate_fresh : forall E p rest, tstate E p (flat_map (call_ops E) rest) rest.
Proof.
  intros E p [|c rest]; simpl; [reflexivity|].
  exists 0. split; [lia|]. split; [intros n Hn; lia|].
  unfold call_ops. rewrite Nat.sub_0_r, <- app_assoc. reflexivity.
Qed.

Lemma tstate_touch_other : forall E p t rest n,
  tstate E p t rest -> tstate E (touch E p n) t rest.
Proof.
  intros E p t [|c rest] n; simpl; auto.
  intros [j (Hj & Hr & Ht)]. exists j. repeat split; auto.
  intros m Hm. apply touch_keeps_ready; auto.
Qed.

Lemma tstate_touch_own : forall E p t rest n,
  length p = length E ->
  tstate E p (MTouch n :: t) rest -> tstate E (touch E p n) t rest.
Proof.
  intros E p t [|c rest] n Hl; simpl; [discriminate|].
  intros [j (Hj & Hr & Ht)].
  destruct (length E - j) as [|d] eqn:Hd; simpl in Ht; [discriminate|].
  inversion Ht; subst n t. exists (S j). split; [lia|]. split.
  - intros m Hm. destruct (Nat.eq_dec m j) as [->|Hne].
    + apply touch_makes_ready; [assumption|lia].
    + apply touch_keeps_ready, Hr; lia.
  - replace (length E - S j) with d by lia. reflexivity.
Qed.

Lemma tstate_run_own : forall E p t rest c,
  tstate E p (MRun c :: t) rest ->
  exists rest', rest = c :: rest' /\ ready_below p (length E) /\
                t = flat_map (call_ops E) rest'.
Proof.
  intros E p t [|c' rest] c; simpl; [discriminate|].
  intros [j (Hj & Hr & Ht)].
  destruct (length E - j) as [|d] eqn:Hd; simpl in Ht; [|discriminate].
  inversion Ht; subst. exists rest. repeat split.
  replace (length E) with j by lia. exact Hr.
Qed.

(* ------------------------------------------------------------------ *)
(* lists                                                               *)
(* ------------------------------------------------------------------ *)

Lemma skipn_cons_firstn : forall (A : Type) k (l : list A) c r,
  skipn k l = c :: r -> firstn (S k) l = firstn k l ++ [c] /\ skipn (S k) l = r.
Proof.
  induction k as [|k IH]; intros l c r H; destruct l as [|a l]; simpl in H; try discriminate.
  - inversion H; subst. split; reflexivity.
  - destruct (IH l c r H) as [H1 H2]. split.
    + change (firstn (S (S k)) (a :: l)) with (a :: firstn (S k) l).
      rewrite H1. reflexivity.
    + exact H2.
Qed.

Lemma set_thread_length : forall ts i t, length (set_thread ts i t) = length ts.
Proof.
  induction ts as [|x ts IH]; intros i t; simpl; [reflexivity|].
  destruct i; simpl; [reflexivity|]. now rewrite IH.
Qed.

Lemma set_thread_same : forall ts i t,
  i < length ts -> nth_error (set_thread ts i t) i = Some t.
Proof.
  induction ts as [|x ts IH]; intros i t H; simpl in H; [lia|].
  destruct i; simpl; [reflexivity|]. apply IH; lia.
Qed.

Lemma set_thread_other : forall ts i j t,
  i <> j -> nth_error (set_thread ts i t) j = nth_error ts j.
Proof.
  induction ts as [|x ts IH]; intros i j t H; simpl; [reflexivity|].
  destruct i, j; simpl; try reflexivity; [lia|]. apply IH; lia.
Qed.

Definition outs_of (i : nat) (out : list (nat * result)) : list result :=
  map snd (filter (fun x => Nat.eqb (fst x) i) out).

Lemma outs_of_snoc_same : forall i out r, outs_of i (out ++ [(i, r)]) = outs_of i out ++ [r].
Proof.
  intros. unfold outs_of. rewrite filter_app, map_app. simpl.
  rewrite Nat.eqb_refl. reflexivity.
Qed.

Lemma outs_of_snoc_other : forall i j out r, j <> i -> outs_of i (out ++ [(j, r)]) = outs_of i out.
Proof.
  intros i j out r H. unfold outs_of. rewrite filter_app, map_app. simpl.
  destruct (Nat.eqb_spec j i); [contradiction|]. simpl. apply app_nil_r.
Qed.

Lemma outs_of_in : forall i r out, In (i, r) out -> In r (outs_of i out).
Proof.
  intros i r out H. unfold outs_of.
  apply (in_map snd _ (i, r)). apply filter_In. split; [assumption|].
  simpl. apply Nat.eqb_refl.
Qed.

Lemma outs_of_none : forall i out,
  (forall j r, In (j, r) out -> j <> i) -> outs_of i out = [].
Proof.
  intros i out. unfold outs_of. induction out as [|[j r] out IH]; intros H; simpl; [reflexivity|].
  destruct (Nat.eqb_spec j i) as [->|Hne].
  - exfalso. apply (H i r); [left; reflexivity|reflexivity].
  - apply IH. intros j' r' Hin. apply (H j' r'). right; assumption.
Qed.

(* ------------------------------------------------------------------ *)
(* the global invariant                                                *)
(* ------------------------------------------------------------------ *)

Record ginv (E : env) (progs : list (list call)) (cfg : config) : Prop := mkGinv {
  g_proc : proc_inv E (cf_proc cfg);
  g_len : length (cf_threads cfg) = length progs;
  g_bound : forall i r, In (i, r) (cf_out cfg) -> i < length progs;
  g_thr : forall i calls, nth_error progs i = Some calls ->
    exists k t, nth_error (cf_threads cfg) i = Some t /\
      outs_of i (cf_out cfg) = map (pure_result E) (firstn k calls) /\
      tstate E (cf_proc cfg) t (skipn k calls) }.

Lemma ginv_start : forall E progs, ginv E progs (start E progs).
Proof.
  intros E progs. constructor; simpl.
  - apply proc_init_inv.
  - unfold threads_of. apply map_length.
  - intros i r [].
  - intros i calls Hc. exists 0, (flat_map (call_ops E) calls). split; [|split].
    + unfold threads_of. apply (map_nth_error (fun calls => flat_map (call_ops E) calls)), Hc.
    + reflexivity.
    + simpl. apply tstate_fresh.
Qed.

Lemma ginv_step : forall E progs cfg i, ginv E progs cfg -> ginv E progs (step E cfg i).
Proof.
  intros E progs cfg i G. unfold step.
  destruct (nth_error (cf_threads cfg) i) as [[|[n|c] rest]|] eqn:Hi; try assumption.
  - (* MTouch *)
    assert (Hlt : i < length (cf_threads cfg)) by (apply nth_error_Some; congruence).
    assert (Hpl : length (cf_proc cfg) = length E)
      by (apply proc_inv_length, (g_proc _ _ _ G)).
    constructor; simpl.
    + apply touch_inv, (g_proc _ _ _ G).
    + rewrite set_thread_length. apply (g_len _ _ _ G).
    + apply (g_bound _ _ _ G).
    + intros i' calls Hc.
      destruct (g_thr _ _ _ G _ _ Hc) as (k & t & Ht & Ho & Hs).
      destruct (Nat.eq_dec i' i) as [->|Hne].
      * rewrite Hi in Ht. inversion Ht; subst t.
        exists k, rest. split; [apply set_thread_same, Hlt|]. split; [exact Ho|].
        apply tstate_touch_own; assumption.
      * exists k, t. rewrite set_thread_other by congruence.
        split; [exact Ht|]. split; [exact Ho|].
        apply tstate_touch_other; assumption.
  - (* MRun *)
    assert (Hlt : i < length (cf_threads cfg)) by (apply nth_error_Some; congruence).
    constructor; simpl.
    + apply (g_proc _ _ _ G).
    + rewrite set_thread_length. apply (g_len _ _ _ G).
    + intros i' r Hin. apply in_app_or in Hin. destruct Hin as [Hin|[Heq|[]]].
      * apply (g_bound _ _ _ G _ _ Hin).
      * inversion Heq; subst. rewrite <- (g_len _ _ _ G). exact Hlt.
    + intros i' calls Hc.
      destruct (g_thr _ _ _ G _ _ Hc) as (k & t & Ht & Ho & Hs).
      destruct (Nat.eq_dec i' i) as [->|Hne].
      * rewrite Hi in Ht. inversion Ht; subst t.
        destruct (tstate_run_own _ _ _ _ _ Hs) as (rest' & Hsk & Hrdy & Hrest).
        destruct (skipn_cons_firstn _ _ _ _ _ Hsk) as [Hf Hs'].
        exists (S k), rest. split; [apply set_thread_same, Hlt|]. split.
        -- rewrite outs_of_snoc_same, Ho, Hf, map_app. simpl.
           rewrite (env_seen_inv _ _ (g_proc _ _ _ G) Hrdy). reflexivity.
        -- rewrite Hs', Hrest. apply tstate_fresh.
      * exists k, t. rewrite set_thread_other by congruence.
        split; [exact Ht|]. split; [|exact Hs].
        rewrite outs_of_snoc_other by congruence. exact Ho.
Qed.

Lemma ginv_exec : forall E progs sched cfg,
  ginv E progs cfg -> ginv E progs (exec E sched cfg).
Proof.
  intros E progs sched. unfold exec.
  induction sched as [|i sched IH]; intros cfg G; simpl; [assumption|].
  apply IH, ginv_step, G.
Qed.

Lemma ginv_reach : forall E progs sched, ginv E progs (exec E sched (start E progs)).
Proof. intros. apply ginv_exec, ginv_start. Qed.

(* ------------------------------------------------------------------ *)
(* C18                                                                 *)
(* ------------------------------------------------------------------ *)

(* the metadata cells only ever hold what their declaration says *)
Theorem C18_inv : forall E progs sched,
  proc_inv E (cf_proc (exec E sched (start E progs))).
Proof. intros. apply (g_proc _ _ _ (ginv_reach E progs sched)). Qed.

(* when a thread is about to run the body of a call, every cell has been initialised (by Once)
   and holds the declared value: the `Uninit` branch of env_seen is never read *)
Theorem C18_ready_at_run : forall E progs sched i c rest n d,
  nth_error (cf_threads (exec E sched (start E progs))) i = Some (MRun c :: rest) ->
  nth_error E n = Some d ->
  nth_error (cf_proc (exec E sched (start E progs))) n = Some (Ready (decl_steps d)).
Proof.
  intros E progs sched i c rest n d Hi Hd.
  pose proof (ginv_reach E progs sched) as G.
  set (cfg := exec E sched (start E progs)) in *.
  assert (Hlt : i < length progs).
  { rewrite <- (g_len _ _ _ G). apply nth_error_Some. congruence. }
  destruct (nth_error progs i) as [calls|] eqn:Hc; [|apply nth_error_None in Hc; lia].
  destruct (g_thr _ _ _ G _ _ Hc) as (k & t & Ht & _ & Hs).
  rewrite Hi in Ht. inversion Ht; subst t.
  destruct (tstate_run_own _ _ _ _ _ Hs) as (rest' & _ & Hr & _).
  assert (Hn : n < length E) by (apply nth_error_Some; congruence).
  destruct (Hr n Hn) as [m Hm].
  apply (proc_inv_ready _ _ _ _ _ (g_proc _ _ _ G) Hd Hm).
Qed.

(* hence, at that moment, reading the declarations through the cells gives back the declarations
   (this is NOT true of every reachable process state: an untouched cell yields junk) *)
Theorem C18_env_seen_at_run : forall E progs sched i c rest,
  nth_error (cf_threads (exec E sched (start E progs))) i = Some (MRun c :: rest) ->
  env_seen E (cf_proc (exec E sched (start E progs))) = E.
Proof.
  intros E progs sched i c rest Hi.
  apply env_seen_inv; [apply C18_inv|].
  intros n Hn.
  destruct (nth_error E n) as [d|] eqn:Hd; [|apply nth_error_None in Hd; lia].
  exists (decl_steps d). apply (C18_ready_at_run _ _ _ _ _ _ _ _ Hi Hd).
Qed.

(* for EVERY interleaving of EVERY finite set of threads, each result that is produced is the
   result of the same call alone in a fresh process *)
Theorem C18_isolated : forall E progs sched i r,
  In (i, r) (cf_out (exec E sched (start E progs))) ->
  exists c, In c (nth i progs []) /\ r = pure_result E c.
Proof.
  intros E progs sched i r Hin.
  pose proof (ginv_reach E progs sched) as G.
  pose proof (g_bound _ _ _ G _ _ Hin) as Hlt.
  destruct (nth_error progs i) as [calls|] eqn:Hc; [|apply nth_error_None in Hc; lia].
  rewrite (nth_error_nth _ _ _ Hc).
  destruct (g_thr _ _ _ G _ _ Hc) as (k & t & _ & Ho & _).
  apply outs_of_in in Hin. rewrite Ho in Hin.
  apply in_map_iff in Hin. destruct Hin as (c & Hr & Hin).
  exists c. split; [|symmetry; exact Hr].
  rewrite <- (firstn_skipn k calls). apply in_or_app. left; assumption.
Qed.

(* results come out per thread in program order (completeness of a fair schedule is not claimed) *)
Theorem C18_order : forall E progs sched i,
  exists k, map snd (filter (fun x => Nat.eqb (fst x) i) (cf_out (exec E sched (start E progs))))
            = map (pure_result E) (firstn k (nth i progs [])).
Proof.
  intros E progs sched i.
  pose proof (ginv_reach E progs sched) as G.
  destruct (nth_error progs i) as [calls|] eqn:Hc.
  - rewrite (nth_error_nth _ _ _ Hc).
    destruct (g_thr _ _ _ G _ _ Hc) as (k & t & _ & Ho & _).
    exists k. exact Ho.
  - exists 0. simpl. apply nth_error_None in Hc.
    apply outs_of_none. intros j r Hin.
    pose proof (g_bound _ _ _ G _ _ Hin). lia.
Qed.

(* determinism / repeatability: two results produced for the same call — by any threads, at any
   time, whatever ran in between — are equal.  As each output only records the thread and the result,
   "produced for the call c" is expressed through C18_isolated: every output is pure_result of one of
   its thread's calls, and pure_result is a function of the declarations and the call only. *)
Corollary C18_repeat : forall E progs1 sched1 progs2 sched2 i1 i2 r1 r2,
  In (i1, r1) (cf_out (exec E sched1 (start E progs1))) ->
  In (i2, r2) (cf_out (exec E sched2 (start E progs2))) ->
  exists c1 c2, In c1 (nth i1 progs1 []) /\ In c2 (nth i2 progs2 []) /\
                r1 = pure_result E c1 /\ r2 = pure_result E c2 /\ (c1 = c2 -> r1 = r2).
Proof.
  intros E progs1 sched1 progs2 sched2 i1 i2 r1 r2 H1 H2.
  destruct (C18_isolated _ _ _ _ _ H1) as (c1 & Hc1 & ->).
  destruct (C18_isolated _ _ _ _ _ H2) as (c2 & Hc2 & ->).
  exists c1, c2. repeat split; auto. intros ->. reflexivity.
Qed.

(* a thread whose program is the single call c, run to any point under any schedule among any other
   threads, produces nothing or exactly pure_result E c *)
Corollary C18_single : forall E progs sched i c r,
  nth_error progs i = Some [c] ->
  In (i, r) (cf_out (exec E sched (start E progs))) ->
  r = pure_result E c.
Proof.
  intros E progs sched i c r Hc Hin.
  destruct (C18_isolated _ _ _ _ _ Hin) as (c' & Hc' & ->).
  rewrite (nth_error_nth _ _ _ Hc) in Hc'. destruct Hc' as [->|[]]. reflexivity.
Qed.

Print Assumptions C18_inv.
Print Assumptions C18_env_seen_at_run.
Print Assumptions C18_ready_at_run.
Print Assumptions C18_isolated.
Print Assumptions C18_order.
Print Assumptions C18_repeat.
Print Assumptions C18_single.
