(* Bits.v — shifts, masks and ors on N/Z as arithmetic.  Proved once, used by every
   codec proof (var-ints, big-endian, zig-zag). *)
From Coq Require Import NArith ZArith List Lia Bool.
Import ListNotations.
Open Scope N_scope.

Lemma N_shiftr_div (v k : N) : N.shiftr v k = v / 2 ^ k.
Proof. apply N.shiftr_div_pow2. Qed.

Lemma N_shiftl_mul (v k : N) : N.shiftl v k = v * 2 ^ k.
Proof. apply N.shiftl_mul_pow2. Qed.

Lemma N_land_ones_mod (v k : N) : N.land v (N.ones k) = v mod 2 ^ k.
Proof. apply N.land_ones. Qed.

Lemma N_land_127 v : N.land v 127 = v mod 128.
Proof. change 127 with (N.ones 7). rewrite N.land_ones. reflexivity. Qed.

Lemma N_land_255 v : N.land v 255 = v mod 256.
Proof. change 255 with (N.ones 8). rewrite N.land_ones. reflexivity. Qed.

Lemma N_land_1 v : N.land v 1 = v mod 2.
Proof. change 1 with (N.ones 1). rewrite N.land_ones. reflexivity. Qed.

Lemma N_lt_pow2_testbit_high a k n : a < 2 ^ k -> k <= n -> N.testbit a n = false.
Proof.
  intros Ha Hn. destruct (N.eq_dec a 0) as [->|Hz]; [apply N.bits_0|].
  apply N.bits_above_log2.
  apply N.log2_lt_pow2 in Ha; lia.
Qed.

Lemma N_land_low_shiftl a b k : a < 2 ^ k -> N.land a (N.shiftl b k) = 0.
Proof.
  intros Ha. apply N.bits_inj. intro n. rewrite N.land_spec, N.bits_0.
  destruct (N.lt_ge_cases n k) as [Hn|Hn].
  - rewrite N.shiftl_spec_low by assumption. apply andb_false_r.
  - rewrite (N_lt_pow2_testbit_high a k n) by assumption. reflexivity.
Qed.

Lemma N_lor_disjoint a b : N.land a b = 0 -> N.lor a b = a + b.
Proof.
  intros H. rewrite <- N.lxor_lor by assumption.
  symmetry. apply N.add_nocarry_lxor. assumption.
Qed.

Lemma N_lor_low_shiftl a b k : a < 2 ^ k -> N.lor a (N.shiftl b k) = a + b * 2 ^ k.
Proof.
  intros Ha. rewrite N_lor_disjoint by (apply N_land_low_shiftl; assumption).
  rewrite N.shiftl_mul_pow2. reflexivity.
Qed.

(* (x | 0x80) for x < 128 *)
Lemma N_lor_128_low x : x < 128 -> N.lor x 128 = x + 128.
Proof.
  intros H. change 128 with (N.shiftl 1 7) at 1.
  rewrite N_lor_low_shiftl by (simpl; exact H). reflexivity.
Qed.

(* ((x | 0x80) as u8): only the low 7 bits of x survive, plus the continuation bit *)
Lemma N_lor_128_mod256 x : (N.lor x 128) mod 256 = x mod 128 + 128.
Proof.
  rewrite <- N_land_255. rewrite N.land_lor_distr_l.
  change (N.land 128 255) with 128.
  rewrite N_land_255.
  (* x mod 256 = (x mod 128) + 128 * bit7 *)
  assert (H: x mod 256 = x mod 128 + 128 * ((x / 128) mod 2)).
  { change 256 with (128 * 2). rewrite N.mod_mul_r by lia. reflexivity. }
  rewrite H. clear H.
  assert (Hb: (x / 128) mod 2 < 2) by (apply N.mod_lt; discriminate).
  assert (Hm: x mod 128 < 128) by (apply N.mod_lt; discriminate).
  revert Hb Hm. generalize ((x / 128) mod 2). generalize (x mod 128). intros m b Hb Hm.
  destruct (N.eq_dec b 0) as [E|E].
  - rewrite E, N.mul_0_r, N.add_0_r. apply N_lor_128_low. exact Hm.
  - assert (E1: b = 1) by lia. rewrite E1, N.mul_1_r.
    (* (m + 128) | 128 = m + 128 *)
    rewrite <- (N_lor_128_low m) by exact Hm.
    rewrite <- N.lor_assoc. rewrite N.lor_diag. reflexivity.
Qed.

Lemma N_land_low_128 a : a < 128 -> N.land a 128 = 0.
Proof. intros H. change 128 with (N.shiftl 1 7). apply N_land_low_shiftl. exact H. Qed.

Lemma N_land_high_128 a : a < 128 -> N.land (a + 128) 128 = 128.
Proof.
  intros H. rewrite <- N_lor_128_low by exact H.
  rewrite N.land_lor_distr_l, N_land_low_128 by exact H. reflexivity.
Qed.

(* finite sweep over one byte, lifted to a universally quantified statement *)
Definition all_bytes : list N := map N.of_nat (seq 0 256).

Lemma all_bytes_complete b : b < 256 -> In b all_bytes.
Proof.
  intros H. unfold all_bytes. apply in_map_iff. exists (N.to_nat b). split.
  - apply N2Nat.id.
  - apply in_seq. lia.
Qed.

Lemma byte_sweep (P : N -> bool) :
  forallb P all_bytes = true -> forall b, b < 256 -> P b = true.
Proof.
  intros H b Hb. rewrite forallb_forall in H. apply H. apply all_bytes_complete. exact Hb.
Qed.

Lemma N_land_128_lt b : b < 256 -> (N.land b 128 =? 0) = (b <? 128).
Proof.
  intros Hb.
  apply (byte_sweep (fun b => Bool.eqb (N.land b 128 =? 0) (b <? 128))) in Hb.
  - apply Bool.eqb_prop. exact Hb.
  - vm_compute. reflexivity.
Qed.

(* x ^ 0xFFFFFFFF on a 32-bit pattern *)
Lemma N_lxor_ones_low x n : 0 < n -> x < 2 ^ n -> N.lxor x (N.ones n) = N.ones n - x.
Proof.
  intros Hn Hx. change (N.lxor x (N.ones n)) with (N.lnot x n).
  apply N.lnot_sub_low.
  destruct (N.eq_dec x 0) as [->|Hz]; [simpl; exact Hn|].
  apply N.log2_lt_pow2; lia.
Qed.

Lemma N_ones_32 : N.ones 32 = 4294967295.
Proof. reflexivity. Qed.
