(* SimProofs.v — layer B (cursor arithmetic + region stack) simulates layer A (pure lists)
   for the whole generic decoder `dec`.  Logical-relations argument:
   (1) every primitive of b_ops simulates the one of a_ops under `srel`;
   (2) a bind lemma for the 5-way outcome match;
   (3) one lemma per helper of the decoder, parametric in related element decoders;
   (4) induction on the fuel.
   Everything is proved; nothing is left out (no unfinished statements).
   Strengthenings w.r.t. the sketch: `srel` additionally carries `chain` (every region's delta
   is <= its start and equals the start of the region beneath it on the stack; needed because
   pop_region's `unresolve` subtracts the delta with an overflow check), and `same_frame` also
   fixes the delta of the current region.  Main results: dec_sim, dec_B_panic_only_if_A,
   decodeB_decodeA. *)
From Coq Require Import NArith ZArith List Lia Bool.
From Coq Require Import ZifyBool ZifyN ZifyNat.
From Desert Require Import Bits Outcome IO IOProofs Types Calendar Codec CodecB.
Import ListNotations.
Open Scope N_scope.

Ltac Zify.zify_post_hook ::= Z.div_mod_to_equations.

(* ------------------------------------------------------------------ *)
(* relations                                                            *)

(* an InputRegion `r`, relative to absolute offset `base`, denotes the byte list `l` of `input` *)
Definition rg_rel (input : bytes) (base : N) (r : iregion) (l : bytes) : Prop :=
  ir_start r + ir_pos r <= ir_end r /\ base + ir_end r <= nlen input /\
  l = ntake (ir_end r - (ir_start r + ir_pos r)) (ndrop (base + ir_start r + ir_pos r) input).

(* strengthening needed for pop_region (`unresolve` subtracts the delta): the delta of every
   region is below its start, and it is the start of the region underneath on the stack *)
Fixpoint chain (cur : region) (stk : list region) : Prop :=
  rg_delta cur <= rg_start cur /\
  match stk with
  | [] => True
  | top :: rest => rg_delta cur = rg_start top /\ chain top rest
  end.

Lemma chain_ext c c' stk :
  rg_start c' = rg_start c -> rg_delta c' = rg_delta c -> chain c stk -> chain c' stk.
Proof. intros E1 E2. destruct stk; cbn [chain]; rewrite E1, E2; auto. Qed.

(* state relation: same string table; the current region's unread bytes are a_cur; each stacked
   region denotes the corresponding stacked list; input shorter than 2^64 (in rc_inv) *)
Definition srel (sb : bstate) (sa : astate) : Prop :=
  rc_inv (b_ctx sb) /\ rc_view (b_ctx sb) = a_cur sa /\ b_strs sb = a_strs sa /\
  Forall2 (fun rg l => rg_inv (rc_input (b_ctx sb)) rg /\ rg_view (rc_input (b_ctx sb)) rg = l)
          (rc_stack (b_ctx sb)) (a_stack sa) /\
  chain (rc_cur (b_ctx sb)) (rc_stack (b_ctx sb)).

(* the frame a decoder must leave unchanged: input, stack, start, end (and delta) of the
   current region *)
Definition same_frame (sb sb' : bstate) : Prop :=
  rc_input (b_ctx sb') = rc_input (b_ctx sb) /\
  rc_stack (b_ctx sb') = rc_stack (b_ctx sb) /\
  rg_start (rc_cur (b_ctx sb')) = rg_start (rc_cur (b_ctx sb)) /\
  rg_end (rc_cur (b_ctx sb')) = rg_end (rc_cur (b_ctx sb)) /\
  rg_delta (rc_cur (b_ctx sb')) = rg_delta (rc_cur (b_ctx sb)).

Lemma same_frame_refl sb : same_frame sb sb.
Proof. unfold same_frame. auto. Qed.

Lemma same_frame_trans s1 s2 s3 : same_frame s1 s2 -> same_frame s2 s3 -> same_frame s1 s3.
Proof.
  unfold same_frame. intros (A1 & A2 & A3 & A4 & A5) (B1 & B2 & B3 & B4 & B5).
  repeat split; congruence.
Qed.

(* the input and the base offset that regions held by a decoder are relative to *)
Definition fr (sb : bstate) (inp : bytes) (base : N) : Prop :=
  rc_input (b_ctx sb) = inp /\ rg_start (rc_cur (b_ctx sb)) = base.

Lemma fr_frame sb sb' inp base : same_frame sb sb' -> fr sb inp base -> fr sb' inp base.
Proof. unfold same_frame, fr. intros (A1 & A2 & A3 & A4 & A5) (B1 & B2). split; congruence. Qed.

Lemma fr_self sb : fr sb (rc_input (b_ctx sb)) (rg_start (rc_cur (b_ctx sb))).
Proof. split; reflexivity. Qed.

(* ------------------------------------------------------------------ *)
(* the 5-way outcome simulation and its bind lemma                      *)

Definition sim5 {A B} (R : A -> B -> Prop) (mb : outcome A) (ma : outcome B) : Prop :=
  match mb, ma with
  | Ok b, Ok a => R b a
  | Err e, Err e' => e = e'
  | Panic p, Panic p' => p = p'
  | Fuel, Fuel => True
  | _, _ => False
  end.

Lemma sim5_mono {A B} (R R' : A -> B -> Prop) mb ma :
  (forall b a, R b a -> R' b a) -> sim5 R mb ma -> sim5 R' mb ma.
Proof. intros H. destruct mb, ma; cbn; auto. Qed.

Lemma sim5_bind {A B A' B'} (R : A -> B -> Prop) (R' : A' -> B' -> Prop) mb ma kb ka :
  sim5 R mb ma -> (forall b a, R b a -> sim5 R' (kb b) (ka a)) ->
  sim5 R' (bind mb kb) (bind ma ka).
Proof. intros Hm Hk. destruct mb, ma; cbn in *; try contradiction; auto. Qed.

(* result relation of a state-passing computation started in (sb, sa) *)
Definition vrel {X Y} (RV : X -> Y -> Prop) (sb : bstate) (sa : astate)
    (p : X * bstate) (q : Y * astate) : Prop :=
  RV (fst p) (fst q) /\ srel (snd p) (snd q) /\ same_frame sb (snd p) /\
  a_stack (snd q) = a_stack sa.

Lemma vrel_trans {X Y} (RV : X -> Y -> Prop) sb sa sb1 sa1 p q :
  same_frame sb sb1 -> a_stack sa1 = a_stack sa -> vrel RV sb1 sa1 p q -> vrel RV sb sa p q.
Proof.
  intros Hf Hk (H1 & H2 & H3 & H4). split; [|split; [|split]]; auto.
  - eapply same_frame_trans; eauto.
  - congruence.
Qed.

Lemma sim_bind {X Y X' Y'} (RV : X -> Y -> Prop) (RV' : X' -> Y' -> Prop) sb sa mb ma kb ka :
  sim5 (vrel RV sb sa) mb ma ->
  (forall x sb1 y sa1, RV x y -> srel sb1 sa1 -> same_frame sb sb1 -> a_stack sa1 = a_stack sa ->
     sim5 (vrel RV' sb1 sa1) (kb (x, sb1)) (ka (y, sa1))) ->
  sim5 (vrel RV' sb sa) (bind mb kb) (bind ma ka).
Proof.
  intros Hm Hk. eapply sim5_bind; [exact Hm|].
  intros [x sb1] [y sa1] (H1 & H2 & H3 & H4). cbn [fst snd] in *.
  eapply sim5_mono; [|apply Hk; eauto].
  intros p q. apply vrel_trans; assumption.
Qed.

Lemma sim_ok {X Y} (RV : X -> Y -> Prop) sb sa x y :
  RV x y -> srel sb sa -> sim5 (vrel RV sb sa) (Ok (x, sb)) (Ok (y, sa)).
Proof. intros. cbn. split; [|split; [|split]]; auto. apply same_frame_refl. Qed.

Lemma sim_mono {X Y} (RV RV' : X -> Y -> Prop) sb sa mb ma :
  (forall x y, RV x y -> RV' x y) -> sim5 (vrel RV sb sa) mb ma -> sim5 (vrel RV' sb sa) mb ma.
Proof.
  intros H. apply sim5_mono. intros p q (H1 & H2). split; auto.
Qed.

(* decoders related by the simulation statement *)
Definition dsim (db : bstate -> outcome (val * bstate)) (da : astate -> outcome (val * astate))
  : Prop :=
  forall sb sa, srel sb sa -> sim5 (vrel eq sb sa) (db sb) (da sa).

(* one step: bind on both sides; the first computation is closed by `tac` *)
Ltac sbind RVx tac x sb1 y sa1 HR Hs Hf Hk :=
  eapply (sim_bind RVx); [tac | intros x sb1 y sa1 HR Hs Hf Hk; cbv beta iota].

(* ------------------------------------------------------------------ *)
(* (1) primitives                                                       *)

(* the reader only ever moves the cursor of the current region *)
Lemma ctx_u8_frame c b c' : r_u8 ctx_reader c = Ok (b, c') -> exists p, c' = set_pos c p.
Proof.
  cbn [ctx_reader r_u8]. intros H.
  destruct (uadd (rg_start (rc_cur c)) (rg_pos (rc_cur c))) as [a| | |]; cbn [bind] in H; try discriminate.
  destruct (rg_end (rc_cur c) <=? a); try discriminate.
  destruct (uadd (rg_pos (rc_cur c)) 1) as [p| | |]; cbn [bind] in H; try discriminate.
  destruct (index (rc_input c) a); cbn [bind] in H; try discriminate.
  injection H as _ <-. eauto.
Qed.

Lemma ctx_bytes_frame n c b c' : r_bytes ctx_reader n c = Ok (b, c') -> exists p, c' = set_pos c p.
Proof.
  cbn [ctx_reader r_bytes]. intros H.
  destruct (uadd (rg_start (rc_cur c)) (rg_pos (rc_cur c))) as [a| | |]; cbn [bind] in H; try discriminate.
  destruct (checked_add a n) as [e|]; try discriminate.
  destruct (e <=? rg_end (rc_cur c)); try discriminate.
  destruct (uadd (rg_pos (rc_cur c)) n) as [p| | |]; cbn [bind] in H; try discriminate.
  destruct (slice (rc_input c) a e); cbn [bind] in H; try discriminate.
  injection H as _ <-. eauto.
Qed.

Lemma ctx_skip_frame n c b c' : r_skip ctx_reader n c = Ok (b, c') -> exists p, c' = set_pos c p.
Proof.
  cbn [ctx_reader r_skip]. intros H.
  destruct (uadd (rg_start (rc_cur c)) (rg_pos (rc_cur c))) as [a| | |]; cbn [bind] in H; try discriminate.
  destruct (checked_add a n) as [e|]; try discriminate.
  destruct (e <=? rg_end (rc_cur c)); try discriminate.
  destruct (uadd (rg_pos (rc_cur c)) n) as [p| | |]; cbn [bind] in H; try discriminate.
  injection H as _ <-. eauto.
Qed.

(* moving the cursor keeps the relation, given the new view *)
Lemma srel_set_pos sb sa p l :
  srel sb sa -> rc_inv (set_pos (b_ctx sb) p) -> rc_view (set_pos (b_ctx sb) p) = l ->
  srel (mkB (set_pos (b_ctx sb) p) (b_strs sb)) (a_with_cur sa l) /\
  same_frame sb (mkB (set_pos (b_ctx sb) p) (b_strs sb)).
Proof.
  intros (H1 & H2 & H3 & H4 & H5) Hi Hv. split.
  - unfold srel. cbn [b_ctx b_strs a_with_cur a_cur a_stack a_strs].
    split; [|split; [|split; [|split]]]; auto.
    eapply chain_ext; [| |exact H5]; reflexivity.
  - unfold same_frame. cbn. auto.
Qed.

Lemma rd_generic {A} (mb : outcome (A * rctx)) (ma : outcome (A * bytes)) sb sa :
  srel sb sa ->
  osim rc_inv rc_view mb ma ->
  (forall b c', mb = Ok (b, c') -> exists p, c' = set_pos (b_ctx sb) p) ->
  sim5 (vrel eq sb sa)
    ('(b, c) <- mb ;; Ok (b, mkB c (b_strs sb)))
    ('(b, c) <- ma ;; Ok (b, a_with_cur sa c)).
Proof.
  intros Hs Ho Hf.
  destruct mb as [[b c]| | |], ma as [[b' l]| | |]; cbn in Ho; try contradiction; cbn [bind].
  - destruct Ho as (-> & Hi & Hv). destruct (Hf _ _ eq_refl) as (p & ->).
    destruct (srel_set_pos sb sa p l Hs Hi Hv) as (Q1 & Q2).
    cbn. split; [|split; [|split]]; auto.
  - exact Ho.
Qed.

Lemma rd_u8_sim sb sa : srel sb sa -> sim5 (vrel eq sb sa) (r_u8 b_reader sb) (r_u8 a_reader sa).
Proof.
  intros Hs. cbn [b_reader a_reader r_u8].
  apply rd_generic; [exact Hs| |apply ctx_u8_frame].
  destruct Hs as (H1 & H2 & _). rewrite <- H2. apply ctx_refines. exact H1.
Qed.

Lemma rd_bytes_sim n sb sa :
  srel sb sa -> sim5 (vrel eq sb sa) (r_bytes b_reader n sb) (r_bytes a_reader n sa).
Proof.
  intros Hs. cbn [b_reader a_reader r_bytes].
  apply rd_generic; [exact Hs| |apply ctx_bytes_frame].
  destruct Hs as (H1 & H2 & _). rewrite <- H2. apply ctx_refines. exact H1.
Qed.

Lemma rd_skip_sim n sb sa :
  srel sb sa -> sim5 (vrel eq sb sa) (r_skip b_reader n sb) (r_skip a_reader n sa).
Proof.
  intros Hs. cbn [b_reader a_reader r_skip].
  apply rd_generic; [exact Hs| |apply ctx_skip_frame].
  destruct Hs as (H1 & H2 & _). rewrite <- H2. apply ctx_refines. exact H1.
Qed.

Lemma nlen_rg_view input r :
  rg_inv input r -> nlen (rg_view input r) = rg_end r - (rg_start r + rg_pos r).
Proof.
  intros [H1 H2]. unfold rg_view. rewrite nlen_ntake; [reflexivity|]. rewrite nlen_ndrop. lia.
Qed.

Lemma ctx_skip_pos n c b c' :
  r_skip ctx_reader n c = Ok (b, c') -> c' = set_pos c (rg_pos (rc_cur c) + n).
Proof.
  cbn [ctx_reader r_skip]. intros H.
  destruct (uadd (rg_start (rc_cur c)) (rg_pos (rc_cur c))) as [a| | |]; cbn [bind] in H; try discriminate.
  destruct (checked_add a n) as [e|]; try discriminate.
  destruct (e <=? rg_end (rc_cur c)); try discriminate.
  unfold uadd in H. destruct (rg_pos (rc_cur c) + n <? usize_lim); cbn [bind] in H; try discriminate.
  injection H as _ <-. reflexivity.
Qed.

(* d_take: the new InputRegion denotes the chunk, relative to the start of the current region *)
Lemma d_take_sim n sb sa inp base :
  srel sb sa -> fr sb inp base ->
  sim5 (vrel (rg_rel inp base) sb sa) (d_take b_ops n sb) (d_take a_ops n sa).
Proof.
  intros Hs [Fi Fb]. cbn [b_ops a_ops d_take].
  pose proof Hs as (H1 & H2 & H3 & H4 & H5).
  pose proof (rf_skip _ _ _ ctx_refines n (b_ctx sb) H1) as Ho.
  rewrite H2 in Ho. cbn [list_reader r_skip] in Ho.
  pose proof (nlen_rg_view _ _ (proj1 H1)) as Hlen. fold (rc_view (b_ctx sb)) in Hlen.
  rewrite H2 in Hlen.
  destruct (r_skip ctx_reader n (b_ctx sb)) as [[u c']| | |] eqn:Eb;
    destruct (n <=? nlen (a_cur sa)) eqn:En; cbn in Ho; try contradiction; cbn [bind].
  - destruct Ho as (_ & Hi & Hv).
    pose proof (ctx_skip_pos _ _ _ _ Eb) as ->.
    destruct (srel_set_pos sb sa _ _ Hs Hi Hv) as (Q1 & Q2).
    destruct sb as [[input [st pos en dl] stk] strs].
    unfold set_pos, ctx_pos in *.
    cbn [b_ctx b_strs rc_input rc_cur rc_stack rg_start rg_pos rg_end rg_delta] in *.
    destruct Hi as [[I1 I2] I3]. cbn [rc_input rc_cur rg_start rg_pos rg_end rg_delta] in *.
    unfold usize_lim in *. subst inp base.
    unfold iregion_new, uadd, usize_lim.
    assert (pos + n <? 2 ^ 64 = true) as -> by lia. cbn [bind].
    cbn [sim5]. unfold vrel. cbn [fst snd]. split; [|split; [|split]]; auto.
    unfold rg_rel. cbn [ir_start ir_pos ir_end]. split; [lia|]. split; [lia|].
    rewrite <- H2. unfold rc_view, rg_view. cbn [rc_input rc_cur rg_start rg_pos rg_end].
    rewrite ntake_ntake by lia. f_equal; [lia|]. f_equal. lia.
  - exact Ho.
Qed.

Lemma d_empty_rel sb sa inp base :
  srel sb sa -> fr sb inp base -> rg_rel inp base (d_empty b_ops) (d_empty a_ops).
Proof.
  intros ([[I1 I2] I3] & _) [Fi Fb]. subst. cbn [b_ops a_ops d_empty]. unfold rg_rel, iregion_empty.
  cbn [ir_start ir_pos ir_end]. split; [lia|]. split; [lia|]. reflexivity.
Qed.

(* d_push: the old current region goes on the stack; the new base is base + ir_start *)
Definition push_post (sb : bstate) (sa : astate) (rg : iregion) (l : bytes)
    (sb' : bstate) (sa' : astate) : Prop :=
  srel sb' sa' /\
  rc_input (b_ctx sb') = rc_input (b_ctx sb) /\
  rc_stack (b_ctx sb') = rc_cur (b_ctx sb) :: rc_stack (b_ctx sb) /\
  a_stack sa' = a_cur sa :: a_stack sa.

Lemma d_push_sim rg l sb sa inp base :
  srel sb sa -> fr sb inp base -> rg_rel inp base rg l ->
  sim5 (push_post sb sa rg l) (d_push b_ops rg sb) (d_push a_ops l sa).
Proof.
  intros Hs [Fi Fb] (R1 & R2 & R3). cbn [b_ops a_ops d_push].
  pose proof Hs as (H1 & H2 & H3 & H4 & H5).
  destruct sb as [[input [st pos en dl] stk] strs].
  cbn [b_ctx b_strs rc_input rc_cur rc_stack rg_start rg_pos rg_end rg_delta] in *.
  destruct H1 as [[I1 I2] I3]. cbn [rc_input rc_cur rg_start rg_pos rg_end rg_delta] in *.
  unfold usize_lim in *. subst inp base.
  unfold push_region, uadd, usize_lim.
  cbn [b_ctx b_strs rc_input rc_cur rc_stack rg_start rg_pos rg_end rg_delta].
  assert (st + ir_start rg <? 2 ^ 64 = true) as -> by lia. cbn [bind].
  assert (st + ir_end rg <? 2 ^ 64 = true) as -> by lia. cbn [bind sim5].
  unfold push_post. cbn [b_ctx b_strs rc_input rc_cur rc_stack a_stack a_cur a_strs].
  split; [|auto].
  unfold srel. cbn [b_ctx b_strs rc_input rc_cur rc_stack a_stack a_cur a_strs].
  split; [|split; [|split; [|split]]].
  - unfold rc_inv, rg_inv, usize_lim.
    cbn [rc_input rc_cur rg_start rg_pos rg_end rg_delta]. lia.
  - unfold rc_view, rg_view. cbn [rc_input rc_cur rg_start rg_pos rg_end rg_delta].
    rewrite R3. f_equal. lia.
  - exact H3.
  - constructor; [|exact H4]. split; [|exact H2].
    unfold rg_inv. cbn [rg_start rg_pos rg_end]. lia.
  - cbn [chain rg_start rg_delta]. split; [lia|]. split; [reflexivity|]. exact H5.
Qed.

(* d_pop: the returned InputRegion denotes what the popped region still offered, relative to
   the start of the restored region *)
Definition pop_post (sb : bstate) (sa : astate) (p : iregion * bstate) (q : bytes * astate) : Prop :=
  srel (snd p) (snd q) /\
  rc_input (b_ctx (snd p)) = rc_input (b_ctx sb) /\
  rc_cur (b_ctx (snd p)) :: rc_stack (b_ctx (snd p)) = rc_stack (b_ctx sb) /\
  a_cur (snd q) :: a_stack (snd q) = a_stack sa /\
  rg_rel (rc_input (b_ctx sb)) (rg_start (rc_cur (b_ctx (snd p)))) (fst p) (fst q).

Lemma d_pop_sim sb sa :
  srel sb sa -> sim5 (pop_post sb sa) (d_pop b_ops sb) (d_pop a_ops sa).
Proof.
  intros Hs. cbn [b_ops a_ops d_pop].
  pose proof Hs as (H1 & H2 & H3 & H4 & H5).
  destruct sb as [[input [st pos en dl] stk] strs]. destruct sa as [cur astk astrs].
  cbn [b_ctx b_strs rc_input rc_cur rc_stack rg_start rg_pos rg_end rg_delta a_cur a_stack a_strs] in *.
  destruct H1 as [[I1 I2] I3]. cbn [rc_input rc_cur rg_start rg_pos rg_end rg_delta] in *.
  unfold usize_lim in *.
  unfold pop_region, unresolve, usub.
  cbn [b_ctx b_strs rc_input rc_cur rc_stack rg_start rg_pos rg_end rg_delta].
  assert (Hd : dl <= st) by (destruct stk; cbn [chain rg_start rg_delta] in H5; lia).
  assert (dl <=? st = true) as -> by lia. cbn [bind].
  assert (dl <=? en = true) as -> by lia. cbn [bind].
  inversion H4 as [|top l rest lrest [T1 T2] T3]; subst; cbn [bind sim5]; [reflexivity|].
  unfold pop_post. cbn [fst snd b_ctx b_strs rc_input rc_cur rc_stack a_stack a_cur a_strs].
  cbn [chain rg_start rg_delta] in H5. destruct H5 as (C1 & C2 & C3).
  split; [|split; [|split; [|split]]]; auto.
  - unfold srel. cbn [b_ctx b_strs rc_input rc_cur rc_stack a_stack a_cur a_strs].
    split; [|split; [|split; [|split]]]; auto.
    unfold rc_inv, usize_lim. cbn [rc_input rc_cur]. auto.
  - unfold rg_rel. cbn [ir_start ir_pos ir_end]. subst dl.
    split; [lia|]. split; [lia|].
    unfold rc_view, rg_view. cbn [rc_input rc_cur rg_start rg_pos rg_end].
    f_equal; [lia|]. f_equal. lia.
Qed.

(* string table operations *)
Lemma str_get_rel sb sa id : srel sb sa -> d_str_get b_ops sb id = d_str_get a_ops sa id.
Proof. intros (_ & _ & H3 & _). cbn [b_ops a_ops d_str_get]. rewrite H3. reflexivity. Qed.

Lemma sim_ok_store {X Y} (RV : X -> Y -> Prop) sb sa x y bs :
  RV x y -> srel sb sa ->
  sim5 (vrel RV sb sa) (Ok (x, d_str_store b_ops bs sb)) (Ok (y, d_str_store a_ops bs sa)).
Proof.
  intros Hv (H1 & H2 & H3 & H4 & H5). cbn [b_ops a_ops d_str_store sim5]. unfold vrel. cbn [fst snd].
  split; [exact Hv|]. split; [|split].
  - unfold srel. cbn [b_ctx b_strs a_cur a_stack a_strs]. rewrite H3. auto.
  - unfold same_frame. cbn [b_ctx]. auto.
  - reflexivity.
Qed.

(* ------------------------------------------------------------------ *)
(* (3) the decoder, helper by helper                                    *)

Lemma rd_be_sim k sb sa :
  srel sb sa -> sim5 (vrel eq sb sa) (read_be b_reader k sb) (read_be a_reader k sa).
Proof.
  intros Hs. unfold read_be. eapply (sim_bind eq); [apply rd_bytes_sim; exact Hs|].
  intros x sb1 ? sa1 <- Hs1 Hf1 Hk1; cbv beta iota. apply sim_ok; auto.
Qed.

Lemma rd_signed_sim k b sb sa :
  srel sb sa -> sim5 (vrel eq sb sa) (read_signed b_reader k b sb) (read_signed a_reader k b sa).
Proof.
  intros Hs. unfold read_signed. eapply (sim_bind eq); [apply rd_be_sim; exact Hs|].
  intros x sb1 ? sa1 <- Hs1 Hf1 Hk1; cbv beta iota. apply sim_ok; auto.
Qed.

Lemma rd_i8_sim sb sa :
  srel sb sa -> sim5 (vrel eq sb sa) (read_i8 b_reader sb) (read_i8 a_reader sa).
Proof.
  intros Hs. unfold read_i8. eapply (sim_bind eq); [apply rd_u8_sim; exact Hs|].
  intros x sb1 ? sa1 <- Hs1 Hf1 Hk1; cbv beta iota. apply sim_ok; auto.
Qed.

Ltac prim_lem :=
  first [ apply rd_u8_sim | apply rd_bytes_sim | apply rd_skip_sim | apply rd_be_sim
        | apply rd_signed_sim | apply rd_i8_sim ]; eassumption.

(* straight-line code made of binds, ifs on equal conditions, and returns *)
Ltac go_with lem :=
  lazymatch goal with
  | |- sim5 _ (bind _ _) (bind _ _) =>
      eapply (sim_bind eq);
      [ lem
      | let x := fresh "x" in let sb1 := fresh "sb" in let sa1 := fresh "sa" in
        let Hs1 := fresh "Hs" in let Hf1 := fresh "Hf" in let Hk1 := fresh "Hk" in
        intros x sb1 ? sa1 <- Hs1 Hf1 Hk1; cbv beta iota; go_with lem ]
  | |- sim5 _ (if ?c then _ else _) (if ?c then _ else _) => destruct c eqn:?; go_with lem
  | |- sim5 _ (Ok _) (Ok _) => apply sim_ok; auto
  | |- sim5 _ (Err _) (Err _) => reflexivity
  | |- sim5 _ (match ?v with _ => _ end) (match ?v with _ => _ end) =>
      is_var v; destruct v; go_with lem
  | |- _ => idtac
  end.
Ltac go := go_with prim_lem.

Lemma rd_var_u32_sim sb sa :
  srel sb sa -> sim5 (vrel eq sb sa) (read_var_u32 b_reader sb) (read_var_u32 a_reader sa).
Proof. intros Hs. unfold read_var_u32. go. Qed.

Lemma rd_var_i32_sim sb sa :
  srel sb sa -> sim5 (vrel eq sb sa) (read_var_i32 b_reader sb) (read_var_i32 a_reader sa).
Proof.
  intros Hs. unfold read_var_i32. eapply (sim_bind eq); [apply rd_var_u32_sim; exact Hs|].
  intros x sb1 ? sa1 <- Hs1 Hf1 Hk1; cbv beta iota. apply sim_ok; auto.
Qed.

Ltac prim_lem2 :=
  first [ apply rd_u8_sim | apply rd_bytes_sim | apply rd_skip_sim | apply rd_be_sim
        | apply rd_signed_sim | apply rd_i8_sim | apply rd_var_u32_sim | apply rd_var_i32_sim ];
  eassumption.
Ltac go2 := go_with prim_lem2.

Lemma dec_utf8_sim bs : dsim (dec_utf8 bs) (dec_utf8 bs).
Proof. intros sb sa Hs. unfold dec_utf8. go2. Qed.

Lemma dec_string_sim : dsim (dec_string b_ops) (dec_string a_ops).
Proof.
  intros sb sa Hs. unfold dec_string. cbn [b_ops a_ops d_rd]. go2. apply dec_utf8_sim. assumption.
Qed.

Lemma dec_bytes_sim : dsim (dec_bytes b_ops) (dec_bytes a_ops).
Proof. intros sb sa Hs. unfold dec_bytes. cbn [b_ops a_ops d_rd]. go2. Qed.

Lemma dec_dedup_sim : dsim (dec_dedup b_ops) (dec_dedup a_ops).
Proof.
  intros sb sa Hs. unfold dec_dedup. cbn [d_rd b_ops a_ops].
  eapply (sim_bind eq); [apply rd_var_i32_sim; exact Hs|].
  intros c sb1 ? sa1 <- Hs1 Hf1 Hk1; cbv beta iota.
  destruct (c <? 0)%Z.
  - destruct (c =? - 2 ^ 31)%Z; [reflexivity|].
    fold b_ops a_ops. rewrite (str_get_rel sb1 sa1 _ Hs1).
    destruct (d_str_get a_ops sa1 (- c)); [apply sim_ok; auto|reflexivity].
  - eapply (sim_bind eq); [apply rd_bytes_sim; exact Hs1|].
    intros bs sb2 ? sa2 <- Hs2 Hf2 Hk2; cbv beta iota.
    eapply (sim_bind eq); [apply dec_utf8_sim; exact Hs2|].
    intros v sb3 ? sa3 <- Hs3 Hf3 Hk3; cbv beta iota.
    apply sim_ok_store; auto.
Qed.

(* --- features/chrono.rs helpers --- *)
Lemma dec_small_sim lo hi : dsim (dec_small b_ops lo hi) (dec_small a_ops lo hi).
Proof. intros sb sa Hs. unfold dec_small. cbn [b_ops a_ops d_rd]. go2. Qed.

Lemma dec_offset_sim : dsim (dec_offset b_ops) (dec_offset a_ops).
Proof. intros sb sa Hs. unfold dec_offset. cbn [b_ops a_ops d_rd]. go2. Qed.

Lemma dec_tz_sim : dsim (dec_tz b_ops) (dec_tz a_ops).
Proof.
  intros sb sa Hs. unfold dec_tz. cbn [d_rd b_ops a_ops].
  eapply (sim_bind eq); [apply rd_u8_sim; exact Hs|].
  intros t sb1 ? sa1 <- Hs1 Hf1 Hk1; cbv beta iota.
  destruct (t =? 1); [|reflexivity].
  fold b_ops a_ops.
  eapply (sim_bind eq); [apply dec_string_sim; exact Hs1|].
  intros v sb2 ? sa2 <- Hs2 Hf2 Hk2; cbv beta iota.
  destruct v; try reflexivity.
  destruct (tz_known bs); [apply sim_ok; auto | reflexivity].
Qed.

Lemma dec_ndate_sim : dsim (dec_ndate b_ops) (dec_ndate a_ops).
Proof. intros sb sa Hs. unfold dec_ndate. cbn [b_ops a_ops d_rd]. cbv zeta. go2. Qed.

Lemma dec_ntime_sim : dsim (dec_ntime b_ops) (dec_ntime a_ops).
Proof. intros sb sa Hs. unfold dec_ntime. cbn [b_ops a_ops d_rd]. go2. Qed.

Lemma dec_ndt_sim : dsim (dec_ndt b_ops) (dec_ndt a_ops).
Proof.
  intros sb sa Hs. unfold dec_ndt.
  eapply (sim_bind eq); [apply dec_ndate_sim; exact Hs|].
  intros d sb1 ? sa1 <- Hs1 Hf1 Hk1; cbv beta iota.
  eapply (sim_bind eq); [apply dec_ntime_sim; exact Hs1|].
  intros t sb2 ? sa2 <- Hs2 Hf2 Hk2; cbv beta iota.
  apply sim_ok; auto.
Qed.

Lemma dec_prim_sim p : dsim (dec_prim b_ops p) (dec_prim a_ops p).
Proof.
  intros sb sa Hs. destruct p;
    try (first [ apply dec_small_sim | apply dec_offset_sim | apply dec_tz_sim
               | apply dec_ndate_sim | apply dec_ntime_sim | apply dec_ndt_sim ]; assumption);
    unfold dec_prim; cbn [d_rd b_ops a_ops];
    try reflexivity; try (go2; fail).
  - apply dec_string_sim; assumption.
  - apply dec_dedup_sim; assumption.
  - apply dec_bytes_sim; assumption.
  - eapply (sim_bind eq); [apply dec_bytes_sim; exact Hs|].
    intros v sb1 ? sa1 <- Hs1 Hf1 Hk1; cbv beta iota.
    destruct v; try reflexivity. apply sim_ok; auto.
  - (* BigDecimal *)
    eapply (sim_bind eq); [apply dec_string_sim; exact Hs|].
    intros v sb1 ? sa1 <- Hs1 Hf1 Hk1; cbv beta iota.
    destruct v; try reflexivity. destruct (BigDec.bd_parse bs); [apply sim_ok; auto | reflexivity].
  - (* DateTime<FixedOffset> *)
    fold b_ops a_ops.
    eapply (sim_bind eq); [apply dec_ndt_sim; exact Hs|].
    intros dt sb1 ? sa1 <- Hs1 Hf1 Hk1; cbv beta iota.
    eapply (sim_bind eq); [apply dec_offset_sim; exact Hs1|].
    intros off sb2 ? sa2 <- Hs2 Hf2 Hk2; cbv beta iota.
    destruct off; try reflexivity.
    destruct (valid_local_with_offset _ z); [apply sim_ok; auto | reflexivity].
  - (* DateTime<Tz> *)
    fold b_ops a_ops.
    eapply (sim_bind eq); [apply dec_ndt_sim; exact Hs|].
    intros dt sb1 ? sa1 <- Hs1 Hf1 Hk1; cbv beta iota.
    eapply (sim_bind eq); [apply dec_tz_sim; exact Hs1|].
    intros tz sb2 ? sa2 <- Hs2 Hf2 Hk2; cbv beta iota.
    apply sim_ok; auto.
Qed.

(* --- sequences --- *)
Ltac go3 Hd IH :=
  go_with ltac:(first [ prim_lem2 | apply Hd; eassumption | apply IH; eassumption ]).

Lemma dec_known_sim db da : dsim db da -> forall fuel n sb sa, srel sb sa ->
  sim5 (vrel eq sb sa) (dec_known fuel db n sb) (dec_known fuel da n sa).
Proof.
  intros Hd. induction fuel as [|fl IH]; intros n sb sa Hs; cbn [dec_known].
  - destruct (n =? 0); [apply sim_ok; auto|exact I].
  - destruct (n =? 0); [apply sim_ok; auto|]. go3 Hd IH.
Qed.

Lemma dec_unknown_sim db da : dsim db da -> forall fuel sb sa, srel sb sa ->
  sim5 (vrel eq sb sa) (dec_unknown b_ops fuel db sb) (dec_unknown a_ops fuel da sa).
Proof.
  intros Hd. induction fuel as [|fl IH]; intros sb sa Hs; cbn [dec_unknown]; [exact I|].
  cbn [d_rd b_ops a_ops]. go3 Hd IH.
Qed.

Lemma dec_seq_items_sim db da : dsim db da -> forall fuel sb sa, srel sb sa ->
  sim5 (vrel eq sb sa) (dec_seq_items b_ops fuel db sb) (dec_seq_items a_ops fuel da sa).
Proof.
  intros Hd fuel sb sa Hs. unfold dec_seq_items. cbn [d_rd b_ops a_ops].
  pose proof (rd_var_i32_sim sb sa Hs) as H.
  destruct (read_var_i32 b_reader sb) as [[n sb1]| | |],
           (read_var_i32 a_reader sa) as [[n' sa1]| | |];
    cbn [sim5] in H; try contradiction; try exact H; try reflexivity.
  destruct H as (E & Hs1 & Hf1 & Hk1). cbn [fst snd] in *. subst n'.
  eapply sim5_mono; [intros p q; apply vrel_trans; eassumption|].
  destruct (n =? -1)%Z; [apply dec_unknown_sim; assumption|].
  destruct (n <? 0)%Z; [reflexivity | apply dec_known_sim; assumption].
Qed.

(* --- AdtDeserializer --- *)
Definition ad_rel (inp : bytes) (base : N) (adb : @adt_de iregion) (ada : @adt_de bytes) : Prop :=
  ad_last adb = ad_last ada /\ ad_ctor adb = ad_ctor ada /\ ad_stored adb = ad_stored ada /\
  ad_mo adb = ad_mo ada /\ ad_removed adb = ad_removed ada /\
  Forall2 (rg_rel inp base) (ad_inputs adb) (ad_inputs ada).

Definition pad_rel {A} (inp : bytes) (base : N) (p : A * @adt_de iregion) (q : A * @adt_de bytes)
  : Prop := fst p = fst q /\ ad_rel inp base (snd p) (snd q).

Ltac ad_destruct H adb ada :=
  let l := fresh "last" in let c := fresh "ctor" in let st := fresh "stored" in
  let mo := fresh "mo" in let rm := fresh "removed" in
  let ib := fresh "inb" in let ia := fresh "ina" in let HI := fresh "Hin" in
  destruct adb as [? ? ? ? ? ib]; destruct ada as [l c st mo rm ia];
  unfold ad_rel in H; cbn [ad_last ad_ctor ad_stored ad_mo ad_removed ad_inputs] in H;
  destruct H as (? & ? & ? & ? & ? & HI); subst;
  cbn [ad_last ad_ctor ad_stored ad_mo ad_removed ad_inputs].

Lemma dec_sstep_sim sb sa :
  srel sb sa -> sim5 (vrel eq sb sa) (dec_sstep b_ops sb) (dec_sstep a_ops sa).
Proof.
  intros Hs. unfold dec_sstep. cbn [d_rd b_ops a_ops].
  go_with ltac:(first [ prim_lem2 | apply dec_dedup_sim; eassumption ]).
Qed.

Lemma dec_ssteps_sim n : forall sb sa,
  srel sb sa -> sim5 (vrel eq sb sa) (dec_ssteps b_ops n sb) (dec_ssteps a_ops n sa).
Proof.
  induction n as [|n IH]; intros sb sa Hs; cbn [dec_ssteps]; [apply sim_ok; auto|].
  go_with ltac:(first [ apply dec_sstep_sim; eassumption | apply IH; eassumption ]).
Qed.

Definition tc_rel (inp : bytes) (base : N)
    (x : list iregion * list (N * N) * list name) (y : list bytes * list (N * N) * list name) : Prop :=
  Forall2 (rg_rel inp base) (fst (fst x)) (fst (fst y)) /\ snd (fst x) = snd (fst y) /\ snd x = snd y.

Lemma take_chunks_sim inp base ss : forall idx sb sa, srel sb sa -> fr sb inp base ->
  sim5 (vrel (tc_rel inp base) sb sa) (take_chunks b_ops ss idx sb) (take_chunks a_ops ss idx sa).
Proof.
  induction ss as [|x r IH]; intros idx sb sa Hs Hfr; cbn [take_chunks].
  - apply sim_ok; auto. unfold tc_rel; cbn [fst snd]; auto.
  - destruct x.
    + eapply (sim_bind (rg_rel inp base)); [apply d_take_sim; assumption|].
      intros rg sb1 l sa1 Hrg Hs1 Hf1 Hk1; cbv beta iota.
      eapply (sim_bind (tc_rel inp base)); [apply IH; [assumption|eapply fr_frame; eassumption]|].
      intros [[ib mb] rb] sb2 [[ia ma] ra] sa2 (T1 & T2 & T3) Hs2 Hf2 Hk2; cbv beta iota.
      cbn [fst snd] in *. subst.
      apply sim_ok; auto. unfold tc_rel; cbn [fst snd]; auto.
    + eapply (sim_bind (tc_rel inp base)); [apply IH; assumption|].
      intros [[ib mb] rb] sb2 [[ia ma] ra] sa2 (T1 & T2 & T3) Hs2 Hf2 Hk2; cbv beta iota.
      cbn [fst snd] in *. subst.
      apply sim_ok; auto. unfold tc_rel; cbn [fst snd]. split; auto.
      constructor; [|assumption]. eapply d_empty_rel; [eassumption|eapply fr_frame; eassumption].
    + eapply (sim_bind (tc_rel inp base)); [apply IH; assumption|].
      intros [[ib mb] rb] sb2 [[ia ma] ra] sa2 (T1 & T2 & T3) Hs2 Hf2 Hk2; cbv beta iota.
      cbn [fst snd] in *. subst.
      apply sim_ok; auto. unfold tc_rel; cbn [fst snd]. split; auto.
      constructor; [|assumption]. eapply d_empty_rel; [eassumption|eapply fr_frame; eassumption].
    + eapply (sim_bind (tc_rel inp base)); [apply IH; assumption|].
      intros [[ib mb] rb] sb2 [[ia ma] ra] sa2 (T1 & T2 & T3) Hs2 Hf2 Hk2; cbv beta iota.
      cbn [fst snd] in *. subst.
      apply sim_ok; auto. unfold tc_rel; cbn [fst snd]. split; auto.
      constructor; [|assumption]. eapply d_empty_rel; [eassumption|eapply fr_frame; eassumption].
Qed.

Lemma ad_new_sim inp base steps stored sb sa : srel sb sa -> fr sb inp base ->
  sim5 (vrel (ad_rel inp base) sb sa) (ad_new b_ops steps stored sb) (ad_new a_ops steps stored sa).
Proof.
  intros Hs Hfr. unfold ad_new.
  eapply (sim_bind eq); [apply dec_ssteps_sim; assumption|].
  intros ss sb1 ? sa1 <- Hs1 Hf1 Hk1; cbv beta iota.
  eapply (sim_bind (tc_rel inp base)); [apply take_chunks_sim; [assumption|eapply fr_frame; eassumption]|].
  intros [[ib mb] rb] sb2 [[ia ma] ra] sa2 (T1 & T2 & T3) Hs2 Hf2 Hk2; cbv beta iota.
  cbn [fst snd] in *. subst.
  apply sim_ok; auto. unfold ad_rel; cbn [ad_last ad_ctor ad_stored ad_mo ad_removed ad_inputs].
  repeat (split; [reflexivity|]). assumption.
Qed.

Lemma ad_open_sim inp base steps sb sa : srel sb sa -> fr sb inp base ->
  sim5 (vrel (ad_rel inp base) sb sa) (ad_open b_ops steps sb) (ad_open a_ops steps sa).
Proof.
  intros Hs Hfr. unfold ad_open. cbn [d_rd b_ops a_ops].
  eapply (sim_bind eq); [apply rd_u8_sim; assumption|].
  intros stored sb1 ? sa1 <- Hs1 Hf1 Hk1; cbv beta iota.
  destruct (stored =? 0).
  - apply sim_ok; auto. unfold ad_rel, ad_new_v0; cbn [ad_last ad_ctor ad_stored ad_mo ad_removed ad_inputs].
    repeat (split; [reflexivity|]). constructor.
  - apply ad_new_sim; [assumption|eapply fr_frame; eassumption].
Qed.

Lemma Forall2_nth_error {A B} (R : A -> B -> Prop) l l' n :
  Forall2 R l l' ->
  match nth_error l n, nth_error l' n with
  | Some x, Some y => R x y
  | None, None => True
  | _, _ => False
  end.
Proof.
  intros H. revert n. induction H as [|x y l l' Hxy H IH]; intros [|n]; cbn; auto.
  apply IH.
Qed.

Lemma Forall2_set_nth {A B} (R : A -> B -> Prop) l l' n x y :
  Forall2 R l l' -> R x y -> Forall2 R (set_nth l n x) (set_nth l' n y).
Proof.
  intros H Hxy. revert n. induction H as [|a b l l' Hab H IH]; intros [|n]; cbn; auto.
Qed.

Lemma ad_record_index_sim inp base adb ada chunk :
  ad_rel inp base adb ada ->
  sim5 (pad_rel inp base) (ad_record_index adb chunk) (ad_record_index ada chunk).
Proof.
  intros H. ad_destruct H adb ada. unfold ad_record_index.
  cbn [ad_last ad_ctor ad_stored ad_mo ad_removed ad_inputs].
  destruct (nth_error last (N.to_nat chunk)) as [l|]; [|reflexivity].
  destruct (127 <? l + 1)%Z; [reflexivity|].
  cbn [sim5]. unfold pad_rel, ad_rel. cbn [fst snd ad_last ad_ctor ad_stored ad_mo ad_removed ad_inputs].
  repeat (split; [reflexivity|]). assumption.
Qed.

(* run a body inside a chunk: push, body, pop restores the outer region exactly *)
Lemma in_chunk_sim {A} inp base (bodyb : bstate -> outcome (A * bstate)) bodya adb ada chunk sb sa :
  (forall sb sa, srel sb sa -> sim5 (vrel eq sb sa) (bodyb sb) (bodya sa)) ->
  srel sb sa -> fr sb inp base -> ad_rel inp base adb ada ->
  sim5 (vrel (pad_rel inp base) sb sa)
    (in_chunk b_ops adb chunk bodyb sb) (in_chunk a_ops ada chunk bodya sa).
Proof.
  intros Hbody Hs Hfr Had. unfold in_chunk.
  pose proof Had as (_ & _ & _ & _ & _ & Hin).
  destruct Hin as [|rg0 l0 inb ina Hrg0 Hin].
  - eapply (sim_bind eq); [apply Hbody; assumption|].
    intros a sb1 ? sa1 <- Hs1 Hf1 Hk1; cbv beta iota.
    apply sim_ok; auto. split; auto.
  - pose proof (Forall2_nth_error _ _ _ (N.to_nat chunk) (Forall2_cons _ _ Hrg0 Hin)) as Hn.
    destruct (nth_error (rg0 :: inb) (N.to_nat chunk)) as [rg|],
             (nth_error (l0 :: ina) (N.to_nat chunk)) as [l|]; try contradiction; [|reflexivity].
    eapply sim5_bind; [eapply d_push_sim; eassumption|].
    intros sb1 sa1 (Hs1 & P1 & P2 & P3).
    eapply sim5_bind; [apply Hbody; exact Hs1|].
    intros [a sb2] [a' sa2] (E & Hs2 & Hf2 & Hk2). cbn [fst snd] in *. subst a'.
    eapply sim5_bind; [apply d_pop_sim; exact Hs2|].
    intros [rg' sb3] [l' sa3] (Hs3 & Q1 & Q2 & Q3 & Q4). cbn [fst snd] in *.
    cbn [sim5]. unfold vrel; cbn [fst snd].
    destruct Hf2 as (F1 & F2 & F3 & F4 & F5). destruct Hfr as [Fi Fb].
    rewrite F2, P2 in Q2. injection Q2 as Q2c Q2s.
    rewrite Hk2, P3 in Q3. injection Q3 as Q3c Q3s.
    split; [|split; [|split]].
    + split; [reflexivity|]. cbn [snd].
      destruct Had as (A1 & A2 & A3 & A4 & A5 & A6).
      unfold ad_rel, ad_set_input. cbn [ad_last ad_ctor ad_stored ad_mo ad_removed ad_inputs].
      repeat (split; [assumption|]).
      apply Forall2_set_nth; [assumption|].
      rewrite Q2c, F1, P1, Fi, Fb in Q4. exact Q4.
    + exact Hs3.
    + unfold same_frame. rewrite Q1, F1, P1, Q2s, Q2c. auto.
    + exact Q3s.
Qed.

Lemma read_field_sim inp base steps db da n dflt adb ada sb sa :
  dsim db da -> srel sb sa -> fr sb inp base -> ad_rel inp base adb ada ->
  sim5 (vrel (pad_rel inp base) sb sa)
    (read_field b_ops steps db n dflt adb sb) (read_field a_ops steps da n dflt ada sa).
Proof.
  intros Hd Hs Hfr Had. unfold read_field.
  replace (ad_removed ada) with (ad_removed adb) by apply Had.
  destruct (mem_name n (ad_removed adb)); [reflexivity|].
  set (chunk := match field_generation steps n with Some c => c | None => 0 end).
  pose proof (ad_record_index_sim inp base adb ada chunk Had) as Hr.
  destruct (ad_record_index adb chunk) as [[fp adb1]| | |],
           (ad_record_index ada chunk) as [[fp' ada1]| | |];
    cbn [sim5] in Hr; try contradiction; cbn [bind]; try exact Hr.
  destruct Hr as [E Had1]. cbn [fst snd] in *. subst fp'.
  replace (ad_stored ada1) with (ad_stored adb1) by apply Had1.
  replace (ad_mo ada1) with (ad_mo adb1) by apply Had1.
  destruct (ad_stored adb1 <? chunk).
  - destruct dflt; [|reflexivity]. apply sim_ok; auto. split; auto.
  - apply in_chunk_sim; auto.
    intros sb' sa' Hs'. cbn [d_rd b_ops a_ops].
    go_with ltac:(first [ prim_lem2 | apply Hd; eassumption ]); apply Hd; assumption.
Qed.

Lemma read_optional_field_sim inp base steps db da n dflt adb ada sb sa :
  dsim db da -> srel sb sa -> fr sb inp base -> ad_rel inp base adb ada ->
  sim5 (vrel (pad_rel inp base) sb sa)
    (read_optional_field b_ops steps db n dflt adb sb)
    (read_optional_field a_ops steps da n dflt ada sa).
Proof.
  intros Hd Hs Hfr Had. unfold read_optional_field.
  replace (ad_removed ada) with (ad_removed adb) by apply Had.
  destruct (mem_name n (ad_removed adb)); [apply sim_ok; auto; split; auto|].
  set (chunk := match field_generation steps n with Some c => c | None => 0 end).
  set (opt_since := match made_optional_at steps n with Some i => i | None => 0 end).
  pose proof (ad_record_index_sim inp base adb ada chunk Had) as Hr.
  destruct (ad_record_index adb chunk) as [[fp adb1]| | |],
           (ad_record_index ada chunk) as [[fp' ada1]| | |];
    cbn [sim5] in Hr; try contradiction; cbn [bind]; try exact Hr.
  destruct Hr as [E Had1]. cbn [fst snd] in *. subst fp'.
  replace (ad_stored ada1) with (ad_stored adb1) by apply Had1.
  destruct (ad_stored adb1 <? chunk).
  - destruct dflt; [|reflexivity]. apply sim_ok; auto. split; auto.
  - apply in_chunk_sim; auto.
    intros sb' sa' Hs'. cbn [d_rd b_ops a_ops].
    go_with ltac:(first [ prim_lem2 | apply Hd; eassumption ]).
Qed.

Lemma read_fields_sim inp base decfb decfa steps fs :
  (forall t, dsim (decfb t) (decfa t)) ->
  forall adb ada sb sa, srel sb sa -> fr sb inp base -> ad_rel inp base adb ada ->
  sim5 (vrel (pad_rel inp base) sb sa)
    (read_fields b_ops decfb steps fs adb sb) (read_fields a_ops decfa steps fs ada sa).
Proof.
  intros Hd. induction fs as [|f r IH]; intros adb ada sb sa Hs Hfr Had; cbn [read_fields].
  - apply sim_ok; auto. split; auto.
  - eapply (sim_bind (pad_rel inp base)).
    + destruct (f_transient f) as [dflt|].
      * apply sim_ok; auto. split; auto.
      * destruct (f_opt f).
        -- destruct (f_ty f); try reflexivity. apply read_optional_field_sim; auto.
        -- apply read_field_sim; auto.
    + intros [v adb1] sb1 [v' ada1] sa1 [E Had1] Hs1 Hf1 Hk1; cbv beta iota.
      cbn [fst snd] in *. subst v'.
      eapply (sim_bind (pad_rel inp base)); [apply IH; [assumption|eapply fr_frame; eassumption|assumption]|].
      intros [vs adb2] sb2 [vs' ada2] sa2 [E2 Had2] Hs2 Hf2 Hk2; cbv beta iota.
      cbn [fst snd] in *. subst vs'.
      apply sim_ok; auto. split; auto.
Qed.

Lemma dec_record_sim decfb decfa m :
  (forall t, dsim (decfb t) (decfa t)) -> dsim (dec_record b_ops decfb m) (dec_record a_ops decfa m).
Proof.
  intros Hd sb sa Hs. unfold dec_record.
  destruct (255 <=? version_of (r_steps m)); [reflexivity|].
  pose proof (fr_self sb) as Hfr.
  set (inp := rc_input (b_ctx sb)) in *. set (base := rg_start (rc_cur (b_ctx sb))) in *.
  eapply (sim_bind (ad_rel inp base)); [apply ad_open_sim; assumption|].
  intros adb sb1 ada sa1 Had Hs1 Hf1 Hk1; cbv beta iota.
  eapply (sim_bind (pad_rel inp base));
    [apply read_fields_sim; [assumption|assumption|eapply fr_frame; eassumption|assumption]|].
  intros [vs adb2] sb2 [vs' ada2] sa2 [E2 Had2] Hs2 Hf2 Hk2; cbv beta iota.
  cbn [fst snd] in *. subst vs'.
  apply sim_ok; auto.
Qed.

Lemma read_ctor_idx_sim inp base adb ada sb sa :
  srel sb sa -> fr sb inp base -> ad_rel inp base adb ada ->
  sim5 (vrel (pad_rel inp base) sb sa) (read_ctor_idx b_ops adb sb) (read_ctor_idx a_ops ada sa).
Proof.
  intros Hs Hfr Had. unfold read_ctor_idx.
  replace (ad_ctor ada) with (ad_ctor adb) by apply Had.
  destruct (ad_ctor adb) as [i|].
  - apply sim_ok; auto. split; auto.
  - eapply (sim_bind (pad_rel inp base)).
    + apply in_chunk_sim; auto. intros sb' sa' Hs'. cbn [d_rd b_ops a_ops].
      apply rd_var_u32_sim. assumption.
    + intros [i adb1] sb1 [i' ada1] sa1 [E Had1] Hs1 Hf1 Hk1; cbv beta iota.
      cbn [fst snd] in *. subst i'.
      apply sim_ok; auto. split; [reflexivity|]. cbn [snd].
      destruct Had1 as (A1 & A2 & A3 & A4 & A5 & A6).
      unfold ad_rel. cbn [ad_last ad_ctor ad_stored ad_mo ad_removed ad_inputs].
      repeat (split; [first [assumption|reflexivity]|]). assumption.
Qed.

Lemma read_cases_sim inp base decfb decfa tyname cs :
  (forall t, dsim (decfb t) (decfa t)) ->
  forall idx adb ada sb sa, srel sb sa -> fr sb inp base -> ad_rel inp base adb ada ->
  sim5 (vrel eq sb sa)
    (read_cases b_ops decfb tyname cs idx adb sb) (read_cases a_ops decfa tyname cs idx ada sa).
Proof.
  intros Hd. induction cs as [|[decl_idx var] r IH]; intros idx adb ada sb sa Hs Hfr Had;
    cbn [read_cases].
  - eapply (sim_bind (pad_rel inp base)); [apply read_ctor_idx_sim; assumption|].
    intros [i adb1] sb1 [i' ada1] sa1 [E Had1] Hs1 Hf1 Hk1; cbv beta iota.
    cbn [fst snd] in *. subst i'. reflexivity.
  - eapply (sim_bind (pad_rel inp base)); [apply read_ctor_idx_sim; assumption|].
    intros [i adb1] sb1 [i' ada1] sa1 [E Had1] Hs1 Hf1 Hk1; cbv beta iota.
    cbn [fst snd] in *. subst i'.
    assert (Hfr1 : fr sb1 inp base) by (eapply fr_frame; eassumption).
    destruct (i =? idx).
    + destruct (v_transient var); [reflexivity|].
      eapply (sim_bind (pad_rel inp base)).
      * apply in_chunk_sim; auto. apply dec_record_sim. assumption.
      * intros [v adb2] sb2 [v' ada2] sa2 [E2 Had2] Hs2 Hf2 Hk2; cbv beta iota.
        cbn [fst snd] in *. subst v'.
        destruct v; try reflexivity. apply sim_ok; auto.
    + apply IH; assumption.
Qed.

Lemma dec_enum_sim decfb decfa tyname m :
  (forall t, dsim (decfb t) (decfa t)) ->
  dsim (dec_enum b_ops decfb tyname m) (dec_enum a_ops decfa tyname m).
Proof.
  intros Hd sb sa Hs. unfold dec_enum.
  pose proof (fr_self sb) as Hfr.
  set (inp := rc_input (b_ctx sb)) in *. set (base := rg_start (rc_cur (b_ctx sb))) in *.
  eapply (sim_bind (ad_rel inp base)); [apply ad_open_sim; assumption|].
  intros adb sb1 ada sa1 Had Hs1 Hf1 Hk1; cbv beta iota.
  apply (read_cases_sim inp base); [assumption|assumption|eapply fr_frame; eassumption|assumption].
Qed.

(* ------------------------------------------------------------------ *)
(* (4) induction on the fuel                                            *)

Lemma dec_dsim : forall f E t, dsim (dec b_ops f E t) (dec a_ops f E t).
Proof.
  induction f as [|f IH]; intros E t sb sa Hs; cbn [dec]; [exact I|].
  destruct t as [p|t'|r e|ts|k e|k kt vt|w t'| |n].
  - apply dec_prim_sim; assumption.
  - cbn [d_rd b_ops a_ops]. go_with ltac:(first [ prim_lem2 | apply IH; eassumption ]).
  - cbn [d_rd b_ops a_ops]. go_with ltac:(first [ prim_lem2 | apply IH; eassumption ]).
  - apply dec_record_sim; [intros t; apply IH|assumption].
  - destruct (byte_path k e).
    + eapply (sim_bind eq); [apply dec_bytes_sim; assumption|].
      intros v sb1 ? sa1 <- Hs1 Hf1 Hk1; cbv beta iota.
      destruct k; try (apply sim_ok; auto; fail).
      destruct v; try (apply sim_ok; auto; fail).
      destruct (nlen bs =? n); [apply sim_ok; auto|reflexivity].
    + eapply (sim_bind eq); [apply dec_seq_items_sim; [apply IH|assumption]|].
      intros items sb1 ? sa1 <- Hs1 Hf1 Hk1; cbv beta iota.
      destruct (collect k items); cbn [bind]; try reflexivity. apply sim_ok; auto.
  - eapply (sim_bind eq); [apply dec_seq_items_sim; [apply IH|assumption]|].
    intros items sb1 ? sa1 <- Hs1 Hf1 Hk1; cbv beta iota. apply sim_ok; auto.
  - apply IH; assumption.
  - apply sim_ok; auto.
  - destruct (lookup_decl E n) as [d|]; [|reflexivity].
    destruct (d_body d) as [m|m].
    + apply dec_record_sim; [intros t; apply IH|assumption].
    + apply dec_enum_sim; [intros t; apply IH|assumption].
Qed.

Theorem dec_sim : forall f E t sb sa, srel sb sa ->
  match dec b_ops f E t sb, dec a_ops f E t sa with
  | Ok (v, sb'), Ok (v', sa') =>
      v = v' /\ srel sb' sa' /\ same_frame sb sb' /\ a_stack sa' = a_stack sa
  | Err e, Err e' => e = e'
  | Panic p, Panic p' => p = p'
  | Fuel, Fuel => True
  | _, _ => False
  end.
Proof.
  intros f E t sb sa Hs. pose proof (dec_dsim f E t sb sa Hs) as H.
  destruct (dec b_ops f E t sb) as [[v sb']| | |], (dec a_ops f E t sa) as [[v' sa']| | |];
    cbn [sim5] in H; try contradiction; try exact H.
Qed.

(* B never panics unless A does *)
Corollary dec_B_panic_only_if_A : forall f E t sb sa p, srel sb sa ->
  dec b_ops f E t sb = Panic p -> dec a_ops f E t sa = Panic p.
Proof.
  intros f E t sb sa p Hs Hb. pose proof (dec_sim f E t sb sa Hs) as H. rewrite Hb in H.
  destruct (dec a_ops f E t sa) as [[? ?]| | |]; try contradiction. congruence.
Qed.

Lemma srel_init bs st : nlen bs < 2 ^ 64 -> srel (mkB (rctx_new bs) st) (mkA bs [] st).
Proof.
  intros H. destruct (rctx_new_inv bs H) as [I V].
  unfold srel. cbn [b_ctx b_strs a_cur a_stack a_strs].
  split; [exact I|]. split; [exact V|]. split; [reflexivity|]. split; [constructor|].
  cbn. lia.
Qed.

Theorem decodeB_decodeA : forall f E t bs st, nlen bs < 2 ^ 64 ->
  match decodeB f E t bs st, decodeA f E t bs st with
  | Ok (v, n, st1), Ok (v', rest, st1') => v = v' /\ n = nlen rest /\ st1 = st1'
  | Err e, Err e' => e = e'
  | Panic p, Panic p' => p = p'
  | Fuel, Fuel => True
  | _, _ => False
  end.
Proof.
  intros f E t bs st Hlen. unfold decodeB, decodeA.
  pose proof (dec_sim f E t _ _ (srel_init bs st Hlen)) as H.
  destruct (dec b_ops f E t (mkB (rctx_new bs) st)) as [[v sb']| | |],
           (dec a_ops f E t (mkA bs [] st)) as [[v' sa']| | |];
    try contradiction; cbn [bind]; try exact H.
  destruct H as (E1 & (H1 & H2 & H3 & _) & _). split; [exact E1|]. split; [|exact H3].
  rewrite <- H2. unfold rc_view. apply eq_sym, nlen_rg_view. apply H1.
Qed.

Print Assumptions dec_sim.
Print Assumptions decodeB_decodeA.
