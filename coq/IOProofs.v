(* IOProofs.v — the three sources refine the reference source (the list of bytes not yet
   read) and never panic; sinks agree; big-endian round trips.  (C05 sources, C15) *)
From Coq Require Import NArith ZArith List Lia Bool.
From Coq Require Import ZifyBool ZifyN ZifyNat.
From Desert Require Import Bits Outcome IO.
Import ListNotations.
Open Scope N_scope.

Ltac Zify.zify_post_hook ::= Z.div_mod_to_equations.

(* ---------- list helpers ---------- *)
Lemma nlen_length {A} (l : list A) : nlen l = N.of_nat (length l).
Proof. induction l as [|x l IH]; cbn [nlen length]; [reflexivity|]. rewrite IH. lia. Qed.

Lemma nlen_app {A} (a b : list A) : nlen (a ++ b) = nlen a + nlen b.
Proof. rewrite !nlen_length, app_length. lia. Qed.

Lemma nlen_ndrop {A} n (l : list A) : nlen (ndrop n l) = nlen l - n.
Proof. unfold ndrop. rewrite !nlen_length, skipn_length. lia. Qed.

Lemma nlen_ntake {A} n (l : list A) : n <= nlen l -> nlen (ntake n l) = n.
Proof. unfold ntake. rewrite !nlen_length. intros H. rewrite firstn_length. lia. Qed.

Lemma skipn_skipn' {A} a b (l : list A) : skipn b (skipn a l) = skipn (a + b) l.
Proof.
  revert l. induction a as [|a IH]; intros l; [reflexivity|].
  destruct l as [|x l]; [cbn; apply skipn_nil|]. cbn. apply IH.
Qed.

Lemma ndrop_ndrop {A} a b (l : list A) : ndrop b (ndrop a l) = ndrop (a + b) l.
Proof.
  unfold ndrop. rewrite skipn_skipn'. f_equal. lia.
Qed.

Lemma ndrop_0 {A} (l : list A) : ndrop 0 l = l.
Proof. reflexivity. Qed.

Lemma ntake_all {A} n (l : list A) : nlen l <= n -> ntake n l = l.
Proof. unfold ntake. rewrite nlen_length. intros H. apply firstn_all2. lia. Qed.

Lemma ntake_ndrop_app {A} n (l : list A) : ntake n l ++ ndrop n l = l.
Proof. unfold ntake, ndrop. apply firstn_skipn. Qed.

Lemma ntake_app_exact {A} (a b : list A) : ntake (nlen a) (a ++ b) = a.
Proof.
  unfold ntake. rewrite nlen_length, Nat2N.id.
  rewrite firstn_app, Nat.sub_diag, firstn_all. cbn. apply app_nil_r.
Qed.

Lemma ndrop_app_exact {A} (a b : list A) : ndrop (nlen a) (a ++ b) = b.
Proof.
  unfold ndrop. rewrite nlen_length, Nat2N.id.
  rewrite skipn_app, Nat.sub_diag, skipn_all. reflexivity.
Qed.

Lemma ndrop_cons_nth {A} (l : list A) i :
  i < nlen l -> exists b, nth_error l (N.to_nat i) = Some b /\ ndrop i l = b :: ndrop (i + 1) l.
Proof.
  rewrite nlen_length. intros H.
  destruct (nth_error l (N.to_nat i)) as [b|] eqn:E.
  - exists b. split; [reflexivity|]. unfold ndrop.
    replace (N.to_nat (i + 1)) with (S (N.to_nat i)) by lia.
    revert E. generalize (N.to_nat i). clear H i. intros n. revert l.
    induction n as [|n IH]; intros [|x l]; cbn; intros E; try discriminate.
    + injection E as ->. reflexivity.
    + apply IH. exact E.
  - apply nth_error_None in E. lia.
Qed.

Lemma ntake_ntake {A} a b (l : list A) : a <= b -> ntake a (ntake b l) = ntake a l.
Proof.
  unfold ntake. intros H. rewrite firstn_firstn. f_equal. lia.
Qed.

Lemma ndrop_ntake {A} a b (l : list A) : ndrop a (ntake b l) = ntake (b - a) (ndrop a l).
Proof.
  unfold ndrop, ntake. rewrite skipn_firstn_comm. f_equal. lia.
Qed.

(* ---------- simulation of outcomes ---------- *)
Definition osim {S A} (inv : S -> Prop) (view : S -> bytes)
    (m : outcome (A * S)) (m' : outcome (A * bytes)) : Prop :=
  match m, m' with
  | Ok (a, s), Ok (a', l) => a = a' /\ inv s /\ view s = l
  | Err e, Err e' => e = e'
  | _, _ => False
  end.

Lemma osim_bind {S A B} (inv : S -> Prop) (view : S -> bytes) (m : outcome (A * S)) m' (k : A * S -> outcome (B * S)) k' :
  osim inv view m m' ->
  (forall a s, inv s -> osim inv view (k (a, s)) (k' (a, view s))) ->
  osim inv view (bind m k) (bind m' k').
Proof.
  intros Hm Hk. destruct m as [[a s]| | |], m' as [[a' l]| | |]; cbn in *; try contradiction.
  - destruct Hm as (-> & Hi & <-). apply Hk. exact Hi.
  - exact Hm.
Qed.

Lemma osim_ok {S A} (inv : S -> Prop) (view : S -> bytes) (a : A) (s : S) :
  inv s -> osim inv view (Ok (a, s)) (Ok (a, view s)).
Proof. intros. cbn. auto. Qed.

(* a source refines the reference source *)
Record refines {S} (R : reader S) (inv : S -> Prop) (view : S -> bytes) : Prop := {
  rf_u8 : forall s, inv s -> osim inv view (r_u8 R s) (r_u8 list_reader (view s));
  rf_bytes : forall n s, inv s -> osim inv view (r_bytes R n s) (r_bytes list_reader n (view s));
  rf_skip : forall n s, inv s -> osim inv view (r_skip R n s) (r_skip list_reader n (view s)) }.

Section Lift.
  Context {S} (R : reader S) (inv : S -> Prop) (view : S -> bytes) (RF : refines R inv view).

  Lemma read_be_sim k s : inv s -> osim inv view (read_be R k s) (read_be list_reader k (view s)).
  Proof.
    intros Hi. unfold read_be. apply osim_bind; [apply RF; exact Hi|].
    intros a s' Hs'. apply osim_ok. exact Hs'.
  Qed.

  Lemma read_signed_sim k b s :
    inv s -> osim inv view (read_signed R k b s) (read_signed list_reader k b (view s)).
  Proof.
    intros Hi. unfold read_signed. apply osim_bind; [apply read_be_sim; exact Hi|].
    intros a s' Hs'. apply osim_ok. exact Hs'.
  Qed.

  Lemma read_i8_sim s : inv s -> osim inv view (read_i8 R s) (read_i8 list_reader (view s)).
  Proof.
    intros Hi. unfold read_i8. apply osim_bind; [apply RF; exact Hi|].
    intros a s' Hs'. apply osim_ok. exact Hs'.
  Qed.

  Lemma read_var_u32_sim s :
    inv s -> osim inv view (read_var_u32 R s) (read_var_u32 list_reader (view s)).
  Proof.
    intros Hi. unfold read_var_u32.
    apply osim_bind; [apply RF; exact Hi|]. intros b1 s1 H1.
    destruct (N.land b1 128 =? 0); [apply osim_ok; exact H1|].
    apply osim_bind; [apply RF; exact H1|]. intros b2 s2 H2.
    destruct (N.land b2 128 =? 0); [apply osim_ok; exact H2|].
    apply osim_bind; [apply RF; exact H2|]. intros b3 s3 H3.
    destruct (N.land b3 128 =? 0); [apply osim_ok; exact H3|].
    apply osim_bind; [apply RF; exact H3|]. intros b4 s4 H4.
    destruct (N.land b4 128 =? 0); [apply osim_ok; exact H4|].
    apply osim_bind; [apply RF; exact H4|]. intros b5 s5 H5.
    apply osim_ok; exact H5.
  Qed.

  Lemma read_var_i32_sim s :
    inv s -> osim inv view (read_var_i32 R s) (read_var_i32 list_reader (view s)).
  Proof.
    intros Hi. unfold read_var_i32. apply osim_bind; [apply read_var_u32_sim; exact Hi|].
    intros a s' Hs'. apply osim_ok. exact Hs'.
  Qed.
End Lift.

(* ---------- SliceInput ---------- *)
Definition si_inv (s : slice_input) : Prop :=
  si_pos s <= nlen (si_data s) /\ nlen (si_data s) < usize_lim.
Definition si_view (s : slice_input) : bytes := ndrop (si_pos s) (si_data s).

Lemma slice_ok data a b :
  a <= b -> b <= nlen data -> slice data a b = Ok (ntake (b - a) (ndrop a data)).
Proof.
  intros H1 H2. unfold slice.
  assert ((a <=? b) && (b <=? nlen data) = true) as -> by lia. reflexivity.
Qed.

Theorem slice_refines : refines slice_reader si_inv si_view.
Proof.
  unfold usize_lim. split.
  - intros [data pos] [Hp Hl]; cbn in *. unfold si_view; cbn.
    destruct (pos =? nlen data) eqn:E.
    + assert (pos = nlen data) as -> by lia.
      assert (ndrop (nlen data) data = []) as ->.
      { apply length_zero_iff_nil. apply Nat2N.inj. rewrite <- nlen_length, nlen_ndrop. lia. }
      reflexivity.
    + assert (Hlt: pos < nlen data) by lia.
      destruct (ndrop_cons_nth data pos Hlt) as (b & Hn & Hd).
      unfold index. assert (pos <? nlen data = true) as -> by lia. rewrite Hn. cbn [bind].
      unfold uadd, usize_lim. assert (pos + 1 <? 2 ^ 64 = true) as -> by lia. cbn [bind].
      rewrite Hd. cbn. unfold si_inv, si_view, usize_lim; cbn. repeat split; lia.
  - intros n [data pos] [Hp Hl]; cbn in *. unfold si_view; cbn.
    rewrite nlen_ndrop. unfold checked_add, usize_lim.
    destruct (pos + n <? 2 ^ 64) eqn:E.
    + destruct (pos + n <=? nlen data) eqn:E2.
      * assert (n <=? nlen data - pos = true) as -> by lia.
        rewrite slice_ok by lia. cbn.
        unfold si_inv, si_view, usize_lim; cbn.
        repeat split; try lia.
        { f_equal. lia. }
        { rewrite ndrop_ndrop. reflexivity. }
      * assert (n <=? nlen data - pos = false) as -> by lia. reflexivity.
    + assert (n <=? nlen data - pos = false) as -> by lia. reflexivity.
  - intros n [data pos] [Hp Hl]; cbn in *. unfold si_view; cbn.
    rewrite nlen_ndrop. unfold checked_add, usize_lim.
    destruct (pos + n <? 2 ^ 64) eqn:E.
    + destruct (pos + n <=? nlen data) eqn:E2.
      * assert (n <=? nlen data - pos = true) as -> by lia. cbn.
        unfold si_inv, si_view, usize_lim; cbn.
        repeat split; try lia. rewrite ndrop_ndrop. reflexivity.
      * assert (n <=? nlen data - pos = false) as -> by lia. reflexivity.
    + assert (n <=? nlen data - pos = false) as -> by lia. reflexivity.
Qed.

(* ---------- OwnedInput ---------- *)
Definition oi_inv (s : owned_input) : Prop :=
  oi_pos s <= nlen (oi_data s) /\ nlen (oi_data s) < usize_lim.
Definition oi_view (s : owned_input) : bytes := ndrop (oi_pos s) (oi_data s).

Theorem owned_refines : refines owned_reader oi_inv oi_view.
Proof.
  unfold usize_lim. split.
  - intros [data pos] [Hp Hl]; cbn in *. unfold oi_view; cbn.
    destruct (pos =? nlen data) eqn:E.
    + assert (pos = nlen data) as -> by lia.
      assert (ndrop (nlen data) data = []) as ->.
      { apply length_zero_iff_nil. apply Nat2N.inj. rewrite <- nlen_length, nlen_ndrop. lia. }
      reflexivity.
    + assert (Hlt: pos < nlen data) by lia.
      destruct (ndrop_cons_nth data pos Hlt) as (b & Hn & Hd).
      unfold index. assert (pos <? nlen data = true) as -> by lia. rewrite Hn. cbn [bind].
      unfold uadd, usize_lim. assert (pos + 1 <? 2 ^ 64 = true) as -> by lia. cbn [bind].
      rewrite Hd. cbn. unfold oi_inv, oi_view, usize_lim; cbn. repeat split; lia.
  - intros n [data pos] [Hp Hl]; cbn in *. unfold oi_view; cbn.
    rewrite nlen_ndrop. unfold checked_add, usize_lim.
    destruct (pos + n <? 2 ^ 64) eqn:E.
    + destruct (pos + n <=? nlen data) eqn:E2.
      * assert (n <=? nlen data - pos = true) as -> by lia.
        rewrite slice_ok by lia. cbn.
        unfold oi_inv, oi_view, usize_lim; cbn.
        repeat split; try lia.
        { f_equal. lia. }
        { rewrite ndrop_ndrop. reflexivity. }
      * assert (n <=? nlen data - pos = false) as -> by lia. reflexivity.
    + assert (n <=? nlen data - pos = false) as -> by lia. reflexivity.
  - intros n [data pos] [Hp Hl]; cbn in *. unfold oi_view; cbn.
    rewrite nlen_ndrop. unfold checked_add, usize_lim.
    destruct (pos + n <? 2 ^ 64) eqn:E.
    + destruct (pos + n <=? nlen data) eqn:E2.
      * assert (n <=? nlen data - pos = true) as -> by lia. cbn.
        unfold oi_inv, oi_view, usize_lim; cbn.
        repeat split; try lia. rewrite ndrop_ndrop. reflexivity.
      * assert (n <=? nlen data - pos = false) as -> by lia. reflexivity.
    + assert (n <=? nlen data - pos = false) as -> by lia. reflexivity.
Qed.

(* ---------- DeserializationContext ---------- *)
(* the current region lies inside the input and the cursor inside the region *)
Definition rg_inv (input : bytes) (r : region) : Prop :=
  rg_start r + rg_pos r <= rg_end r /\ rg_end r <= nlen input.
Definition rc_inv (c : rctx) : Prop :=
  rg_inv (rc_input c) (rc_cur c) /\ nlen (rc_input c) < usize_lim.
(* what the current region still offers *)
Definition rg_view (input : bytes) (r : region) : bytes :=
  ntake (rg_end r - (rg_start r + rg_pos r)) (ndrop (rg_start r + rg_pos r) input).
Definition rc_view (c : rctx) : bytes := rg_view (rc_input c) (rc_cur c).

Lemma rctx_new_inv input : nlen input < usize_lim -> rc_inv (rctx_new input) /\ rc_view (rctx_new input) = input.
Proof.
  intros H. unfold rc_inv, rg_inv, rc_view, rg_view; cbn. repeat split; try lia.
  - exact H.
  - rewrite N.sub_0_r. apply ntake_all. lia.
Qed.

Theorem ctx_refines : refines ctx_reader rc_inv rc_view.
Proof.
  unfold usize_lim. split.
  - intros [input [st pos en dl] stk] [[H1 H2] Hl]; cbn in *.
    unfold rc_view, rg_view; cbn.
    unfold uadd, usize_lim. assert (st + pos <? 2 ^ 64 = true) as -> by lia. cbn [bind].
    destruct (en <=? st + pos) eqn:E.
    + assert (en - (st + pos) = 0) as -> by lia. reflexivity.
    + assert (Hlt: st + pos < nlen input) by lia.
      destruct (ndrop_cons_nth input (st + pos) Hlt) as (b & Hn & Hd).
      assert (pos + 1 <? 2 ^ 64 = true) as -> by lia. cbn [bind].
      unfold index. assert (st + pos <? nlen input = true) as -> by lia. rewrite Hn. cbn [bind].
      rewrite Hd. unfold ntake.
      replace (N.to_nat (en - (st + pos))) with (Datatypes.S (N.to_nat (en - (st + pos + 1)))) by lia.
      cbn [firstn]. cbn.
      unfold rc_inv, rg_inv, rc_view, rg_view, set_pos, usize_lim; cbn.
      repeat split; try lia.
      replace (st + (pos + 1)) with (st + pos + 1) by lia. reflexivity.
  - intros n [input [st pos en dl] stk] [[H1 H2] Hl]; cbn in *.
    unfold rc_view, rg_view; cbn.
    unfold uadd, usize_lim. assert (st + pos <? 2 ^ 64 = true) as -> by lia. cbn [bind].
    rewrite nlen_ntake by (rewrite nlen_ndrop; lia).
    unfold checked_add, usize_lim.
    destruct (st + pos + n <? 2 ^ 64) eqn:E.
    + destruct (st + pos + n <=? en) eqn:E2.
      * assert (n <=? en - (st + pos) = true) as -> by lia.
        assert (pos + n <? 2 ^ 64 = true) as -> by lia. cbn [bind].
        rewrite slice_ok by lia. cbn.
        unfold rc_inv, rg_inv, rc_view, rg_view, set_pos, usize_lim; cbn.
        repeat split; try lia.
        { rewrite ntake_ntake by lia. f_equal. lia. }
        { rewrite ndrop_ntake, ndrop_ndrop. f_equal; [lia|]. f_equal. lia. }
      * assert (n <=? en - (st + pos) = false) as -> by lia. reflexivity.
    + assert (n <=? en - (st + pos) = false) as -> by lia. reflexivity.
  - intros n [input [st pos en dl] stk] [[H1 H2] Hl]; cbn in *.
    unfold rc_view, rg_view; cbn.
    unfold uadd, usize_lim. assert (st + pos <? 2 ^ 64 = true) as -> by lia. cbn [bind].
    rewrite nlen_ntake by (rewrite nlen_ndrop; lia).
    unfold checked_add, usize_lim.
    destruct (st + pos + n <? 2 ^ 64) eqn:E.
    + destruct (st + pos + n <=? en) eqn:E2.
      * assert (n <=? en - (st + pos) = true) as -> by lia.
        assert (pos + n <? 2 ^ 64 = true) as -> by lia. cbn [bind]. cbn.
        unfold rc_inv, rg_inv, rc_view, rg_view, set_pos, usize_lim; cbn.
        repeat split; try lia.
        rewrite ndrop_ntake, ndrop_ndrop. f_equal; [lia|]. f_equal. lia.
      * assert (n <=? en - (st + pos) = false) as -> by lia. reflexivity.
    + assert (n <=? en - (st + pos) = false) as -> by lia. reflexivity.
Qed.

(* ---------- consequences ---------- *)
(* a refining source never panics and never runs out of fuel on any request *)
Lemma osim_is_result {S A} (inv : S -> Prop) (view : S -> bytes) (m : outcome (A * S)) m' :
  osim inv view m m' -> is_result m = true.
Proof. destruct m as [[? ?]| | |], m'  as [[? ?]| | |]; cbn; intros; try contradiction; reflexivity. Qed.

(* ---------- sinks ---------- *)
Lemma run_wops_vec ws o : run_wops vec_sink ws o = o ++ flat ws.
Proof.
  revert o. induction ws as [|w ws IH]; intros o; cbn.
  - symmetry. apply app_nil_r.
  - unfold run_wops in IH. rewrite IH. destruct w; cbn; rewrite <- app_assoc; reflexivity.
Qed.

Lemma run_wops_bytesmut ws o : run_wops bytesmut_sink ws o = o ++ flat ws.
Proof.
  revert o. induction ws as [|w ws IH]; intros o; cbn.
  - symmetry. apply app_nil_r.
  - unfold run_wops in IH. rewrite IH. destruct w; cbn; rewrite <- app_assoc; reflexivity.
Qed.

Lemma run_wops_size ws n : run_wops size_sink ws n = n + nlen (flat ws).
Proof.
  revert n. induction ws as [|w ws IH]; intros n; cbn.
  - lia.
  - unfold run_wops in IH. rewrite IH. rewrite nlen_app. unfold flat.
    destruct w; cbn [run_wop size_sink k_u8 k_bytes wop_bytes nlen]; lia.
Qed.

Lemma run_wops_lawful {O} (k : sink O) ws o :
  lawful_sink k -> run_wops k ws o = fold_left (fun o b => k_u8 k b o) (flat ws) o.
Proof.
  intros L. revert o. induction ws as [|w ws IH]; intros o; cbn; [reflexivity|].
  unfold run_wops in IH. rewrite IH. destruct w; cbn.
  - reflexivity.
  - rewrite fold_left_app. rewrite L. reflexivity.
Qed.

(* writes through a SerializationContext with an empty buffer stack reach the sink unchanged *)
Lemma run_wops_sctx_nobuf {O} (k : sink O) ws o :
  run_wops (sctx_sink k) ws {| sc_out := o; sc_bufs := [] |} =
  {| sc_out := run_wops k ws o; sc_bufs := [] |}.
Proof.
  revert o. induction ws as [|w ws IH]; intros o; cbn; [reflexivity|].
  unfold run_wops in IH. destruct w; cbn; rewrite IH; reflexivity.
Qed.

(* with a buffer on the stack, writes go to that buffer and the sink is untouched *)
Lemma run_wops_sctx_buf {O} (k : sink O) ws o top rest :
  run_wops (sctx_sink k) ws {| sc_out := o; sc_bufs := top :: rest |} =
  {| sc_out := o; sc_bufs := (top ++ flat ws) :: rest |}.
Proof.
  revert top. induction ws as [|w ws IH]; intros top; cbn.
  - rewrite app_nil_r. reflexivity.
  - unfold run_wops in IH. destruct w; cbn; rewrite IH, <- app_assoc; reflexivity.
Qed.

(* the expansion of each provided method is its byte string *)
Definition oop_bytes (o : oop) : bytes :=
  match o with
  | OU8 v => [v]
  | OI8 z => [to_unsigned 8 z]
  | OU16 v => be_bytes 2 v
  | OI16 z => be_bytes 2 (to_unsigned 16 z)
  | OU32 v => be_bytes 4 v
  | OI32 z => be_bytes 4 (to_unsigned 32 z)
  | OU64 v => be_bytes 8 v
  | OI64 z => be_bytes 8 (to_unsigned 64 z)
  | OU128 v => be_bytes 16 v
  | OI128 z => be_bytes 16 (to_unsigned 128 z)
  | OF32 b => be_bytes 4 b
  | OF64 b => be_bytes 8 b
  | OVarU32 v => write_var_u32 v
  | OVarI32 z => write_var_i32 z
  | OBytes bs => bs
  end.

Lemma flat_expand o : flat (expand o) = oop_bytes o.
Proof.
  destruct o; try (cbn; rewrite ?app_nil_r; reflexivity).
  - unfold expand, oop_bytes, write_var_u32.
    destruct (N.shiftr v 7 =? 0); cbn [flat flat_map wop_bytes app]; rewrite ?app_nil_r; reflexivity.
  - unfold expand, oop_bytes, write_var_i32, write_var_u32.
    destruct (N.shiftr (zigzag32 z) 7 =? 0); cbn [flat flat_map wop_bytes app]; rewrite ?app_nil_r; reflexivity.
Qed.

Lemma flat_app a b : flat (a ++ b) = flat a ++ flat b.
Proof. unfold flat. apply flat_map_app. Qed.

Lemma flat_flat_map_expand os : flat (flat_map expand os) = flat_map oop_bytes os.
Proof.
  induction os as [|o os IH]; cbn; [reflexivity|].
  rewrite flat_app, flat_expand, IH. reflexivity.
Qed.

Theorem sinks_agree os :
  run_oops vec_sink os [] = flat_map oop_bytes os /\
  run_oops bytesmut_sink os [] = flat_map oop_bytes os /\
  run_oops size_sink os 0 = nlen (flat_map oop_bytes os).
Proof.
  unfold run_oops. rewrite run_wops_vec, run_wops_bytesmut, run_wops_size.
  rewrite flat_flat_map_expand. cbn. repeat split.
Qed.

Theorem lawful_sink_agrees {O} (k : sink O) os o :
  lawful_sink k ->
  run_oops k os o = fold_left (fun o b => k_u8 k b o) (flat_map oop_bytes os) o.
Proof.
  intros L. unfold run_oops. rewrite run_wops_lawful by exact L.
  rewrite flat_flat_map_expand. reflexivity.
Qed.

(* ---------- big-endian ---------- *)
Lemma of_be_acc b acc :
  fold_left (fun acc b => acc * 256 + b) b acc = acc * 256 ^ nlen b + of_be b.
Proof.
  unfold of_be. revert acc. induction b as [|x b IH]; intros acc.
  - cbn. lia.
  - cbn [fold_left nlen]. rewrite IH. rewrite (IH (0 * 256 + x)).
    rewrite N.pow_succ_r'. lia.
Qed.

Lemma of_be_app a b : of_be (a ++ b) = of_be a * 256 ^ nlen b + of_be b.
Proof. unfold of_be at 1. rewrite fold_left_app. apply of_be_acc. Qed.

Lemma of_be_cons x l : of_be (x :: l) = x * 256 ^ nlen l + of_be l.
Proof. change (x :: l) with ([x] ++ l). rewrite of_be_app. cbn. lia. Qed.

Lemma nlen_be_bytes k v : nlen (be_bytes k v) = N.of_nat k.
Proof. induction k as [|k IH]; cbn [be_bytes nlen]; [reflexivity|]. rewrite IH. lia. Qed.

Lemma of_be_be_bytes k v : of_be (be_bytes k v) = v mod 256 ^ N.of_nat k.
Proof.
  induction k as [|k IH].
  - cbn. rewrite N.mod_1_r. reflexivity.
  - cbn [be_bytes]. rewrite of_be_cons, IH, nlen_be_bytes.
    replace (N.of_nat (Datatypes.S k)) with (N.of_nat k + 1) by lia.
    rewrite N.pow_add_r. change (256 ^ 1) with 256.
    assert (Hp: 256 ^ N.of_nat k <> 0) by (apply N.pow_nonzero; discriminate).
    rewrite (N.mod_mul_r v (256 ^ N.of_nat k) 256) by (try assumption; discriminate).
    lia.
Qed.

Lemma be_bytes_lt_256 k v : Forall (fun b => b < 256) (be_bytes k v).
Proof.
  induction k as [|k IH]; cbn [be_bytes]; constructor; [|exact IH].
  apply N.mod_lt. discriminate.
Qed.

Theorem read_be_roundtrip k v s :
  v < 256 ^ N.of_nat k ->
  read_be list_reader (N.of_nat k) (be_bytes k v ++ s) = Ok (v, s).
Proof.
  intros Hv. unfold read_be. cbn [list_reader r_bytes].
  rewrite nlen_app, nlen_be_bytes.
  assert (N.of_nat k <=? N.of_nat k + nlen s = true) as -> by lia.
  cbn [bind]. rewrite <- (nlen_be_bytes k v) at 1 2.
  rewrite ntake_app_exact, ndrop_app_exact, of_be_be_bytes, N.mod_small by exact Hv.
  reflexivity.
Qed.

(* two's complement round trip *)
Lemma to_signed_to_unsigned bits z :
  0 < bits -> (- 2 ^ (Z.of_N bits - 1) <= z < 2 ^ (Z.of_N bits - 1))%Z ->
  to_signed bits (to_unsigned bits z) = z.
Proof.
  intros Hb Hz. unfold to_signed, to_unsigned.
  assert (E: (2 ^ Z.of_N bits = 2 * 2 ^ (Z.of_N bits - 1))%Z).
  { rewrite <- Z.pow_succ_r by lia. f_equal. lia. }
  assert (E2: Z.of_N (2 ^ (bits - 1)) = (2 ^ (Z.of_N bits - 1))%Z).
  { rewrite N2Z.inj_pow. f_equal. lia. }
  assert (P: (0 < 2 ^ (Z.of_N bits - 1))%Z) by (apply Z.pow_pos_nonneg; lia).
  destruct (Z.to_N (z mod 2 ^ Z.of_N bits) <? 2 ^ (bits - 1)) eqn:C.
  - apply N.ltb_lt in C. apply N2Z.inj_lt in C. rewrite E2 in C.
    rewrite Z2N.id in * by (apply Z.mod_pos_bound; lia).
    destruct (Z_lt_le_dec z 0) as [Hn|Hn].
    + rewrite <- (Z.mod_add z 1) in C by lia. rewrite Z.mod_small in C by lia. lia.
    + rewrite Z.mod_small by lia. reflexivity.
  - apply N.ltb_ge in C. apply N2Z.inj_le in C. rewrite E2 in C.
    rewrite Z2N.id in * by (apply Z.mod_pos_bound; lia).
    destruct (Z_lt_le_dec z 0) as [Hn|Hn].
    + rewrite <- (Z.mod_add z 1) by lia. rewrite Z.mod_small by lia. lia.
    + rewrite Z.mod_small in C by lia. lia.
Qed.

Lemma to_unsigned_lt bits z : to_unsigned bits z < 2 ^ bits.
Proof.
  unfold to_unsigned.
  assert (P: (0 < 2 ^ Z.of_N bits)%Z) by (apply Z.pow_pos_nonneg; lia).
  pose proof (Z.mod_pos_bound z (2 ^ Z.of_N bits) P) as B.
  apply N2Z.inj_lt. rewrite Z2N.id by lia. rewrite N2Z.inj_pow. exact (proj2 B).
Qed.
