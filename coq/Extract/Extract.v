(* Extract.v — extraction of the executable model to OCaml.  ExtrOcamlBasic only:
   bool, option, unit, list, prod, sumbool, sumor map to OCaml's; N, Z, positive, nat stay
   the extracted inductives.  No Extract Constant, no further Extract Inductive. *)
Require Extraction.
Require Import ExtrOcamlBasic.
From Coq Require Import NArith ZArith List.
From Desert Require Import Outcome IO Types Codec CodecB CodecWf History Graph CodecAlt.
Extraction Blacklist List String Int.
Extraction "model.ml"
  N.add N.mul N.sub N.div N.modulo N.eqb N.ltb N.leb N.of_nat N.to_nat N.succ N.pow
  Z.add Z.mul Z.sub Z.opp Z.of_N Z.to_N Z.ltb Z.leb Z.eqb
  nlen write_var_u32 write_var_i32 zigzag32 unzigzag32
  read_var_u32 read_var_i32 read_be read_signed read_i8
  list_reader slice_reader owned_reader ctx_reader rctx_new push_region pop_region ctx_pos
  iregion_new iregion_empty
  run_oops run_wops expand vec_sink bytesmut_sink size_sink sctx_sink be_bytes of_be
  to_signed to_unsigned
  enc dec a_ops b_ops decodeA decodeB utf8_valid val_eqb cases_of bigint_to_be bigint_of_be
  field_generation made_optional_at in_removed str_store str_id
  wf_env wf_ty wf_val normv decl_at legal expected framed
  encode_graph decode_graph renumber enc_seq_unknown enc_u.
