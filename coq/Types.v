(* Types.v — deep embedding of type expressions, declarations and values; the tables
   AdtMetadata::new derives from a declaration's evolution steps (definitions only).
   src: desert_core/src/adt/mod.rs:20-77, desert_macro/src/lib.rs (what the macro sees) *)
From Coq Require Import NArith ZArith List Bool.
From Desert Require Import Outcome.
Import ListNotations.
Open Scope N_scope.

(* ---------- type expressions ---------- *)
Inductive prim :=
| PU8 | PI8 | PU16 | PI16 | PU32 | PI32 | PU64 | PI64 | PU128 | PI128
| PF32 | PF64 | PBool | PUnit | PChar | PString | PDedupString | PDuration
| PBytes                       (* bytes::Bytes *)
| PUuid | PBigInt | PBigDecimal
| PWeekday | PMonth | PFixedOffset | PTz | PDateTimeUtc | PNaiveDate | PNaiveTime
| PNaiveDateTime | PDateTimeLocal | PDateTimeFixed | PDateTimeTz
| PVarU32 | PVarI32.          (* the public var-int writers, used directly by hand-written codecs *)

Inductive seqk := KVec | KSlice | KLinkedList | KHashSet | KBTreeSet | KArray (n : N).
Inductive mapk := KHashMap | KBTreeMap.
Inductive wrapk := KBox | KRc | KArc | KRef.

Inductive ty :=
| TPrim (p : prim)
| TOption (t : ty)
| TResult (r e : ty)
| TTuple (ts : list ty)                 (* arity 1..8 *)
| TSeq (k : seqk) (e : ty)
| TMap (k : mapk) (kt vt : ty)
| TWrap (w : wrapk) (t : ty)
| TPhantom
| TNamed (n : N).                        (* index into the declaration environment *)

(* ---------- values: one untyped tree ---------- *)
(*  unsigned ints, bool (0/1), char (scalar value), floats (their bits) : VN
    signed ints                                                        : VZ
    String, DeduplicatedString, Bytes, Vec<u8>/[u8]/[u8;N], Uuid       : VB
    unit, PhantomData                                                   : VNode 0 []
    Option  None / Some x                                               : VNode 0 [] / VNode 1 [x]
    Result  Err e / Ok x                                                : VNode 0 [e] / VNode 1 [x]
    tuples, sequences (iteration order), records (all fields)           : VNode 0 items
    maps                                                                : VNode 0 [VNode 0 [k; v]; ...]
    enum value of the i-th declared variant                             : VNode i fields
    Box/Rc/Arc/&                                                        : the inner value *)
Inductive val :=
| VN (n : N)
| VZ (z : Z)
| VB (bs : bytes)
| VNode (tag : N) (vs : list val).

Definition VUnit := VNode 0 [].
Definition VNone := VNode 0 [].
Definition VSome (x : val) := VNode 1 [x].

Fixpoint bytes_eqb (a b : bytes) : bool :=
  match a, b with
  | [], [] => true
  | x :: a', y :: b' => (x =? y) && bytes_eqb a' b'
  | _, _ => false
  end.

Fixpoint val_eqb (a b : val) {struct a} : bool :=
  match a, b with
  | VN x, VN y => x =? y
  | VZ x, VZ y => (x =? y)%Z
  | VB x, VB y => bytes_eqb x y
  | VNode t xs, VNode u ys =>
      (t =? u) &&
      (fix go (xs ys : list val) {struct xs} : bool :=
         match xs, ys with
         | [], [] => true
         | x :: xs', y :: ys' => val_eqb x y && go xs' ys'
         | _, _ => false
         end) xs ys
  | _, _ => false
  end.

(* ---------- declarations: exactly what the derive macro sees ---------- *)
Inductive step :=
| SAdded (n : name) (default : val)       (* FieldAdded("n", default) *)
| SMadeOptional (n : name)
| SRemoved (n : name)
| SMadeTransient (n : name).

Record field := mkField {
  f_name : name;
  f_ty : ty;
  f_opt : bool;                 (* the type path is spelled Option / std::option::Option / core::option::Option *)
  f_transient : option val }.   (* #[transient(default)] *)

Record rmeta := mkR { r_fields : list field; r_steps : list step }.
Record variant := mkV { v_name : name; v_transient : bool; v_rec : rmeta }.
Record emeta := mkE { e_sorted : bool; e_variants : list variant }.
Inductive dbody := DRecord (m : rmeta) | DEnum (m : emeta).
Record tdecl := mkD { d_name : name; d_body : dbody }.
Definition env := list tdecl.

Definition lookup_decl (E : env) (n : N) : option tdecl := nth_error E (N.to_nat n).

(* ---------- AdtMetadata::new ---------- *)
Definition step_name (s : step) : name :=
  match s with SAdded n _ | SMadeOptional n | SRemoved n | SMadeTransient n => n end.

(* index of a step in evolution_steps (InitialVersion is index 0) *)
Fixpoint last_index_where (p : step -> bool) (steps : list step) (i : N) (acc : option N) : option N :=
  match steps with
  | [] => acc
  | s :: r => last_index_where p r (i + 1) (if p s then Some i else acc)
  end.

(* field_generations.get(name): HashMap collected from the steps, later entries win *)
Definition field_generation (steps : list step) (n : name) : option N :=
  last_index_where (fun s => match s with SAdded m _ => bytes_eqb m n | _ => false end) steps 1 None.
Definition made_optional_at (steps : list step) (n : name) : option N :=
  last_index_where (fun s => match s with SMadeOptional m => bytes_eqb m n | _ => false end) steps 1 None.
(* removed_fields: FieldRemoved and FieldMadeTransient names *)
Definition in_removed (steps : list step) (n : name) : bool :=
  existsb (fun s => match s with
                    | SRemoved m | SMadeTransient m => bytes_eqb m n
                    | _ => false end) steps.
(* the default the macro passes to read_field: the FieldAdded expression (later entries win) *)
Fixpoint field_default (steps : list step) (n : name) (acc : option val) : option val :=
  match steps with
  | [] => acc
  | SAdded m d :: r => field_default r n (if bytes_eqb m n then Some d else acc)
  | _ :: r => field_default r n acc
  end.

Definition version_of (steps : list step) : N := N.of_nat (length steps).

(* `x as usize` for an i32 x on a 64-bit target *)
Definition as_usize (z : Z) : N := Z.to_N (z mod 2 ^ 64).
