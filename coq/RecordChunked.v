(* RecordChunked.v — round trip of records with an evolution header (chunked layout):
   proof of RecordChunkedSpec.rt_record_chunked_stmt. *)
From Coq Require Import NArith ZArith List Lia Bool.
From Coq Require Import ZifyBool ZifyN ZifyNat.
From Desert Require Import Bits Outcome IO IOProofs VarintProofs Types Codec CodecWf CodecLemmas
  CodecRt RecordRt RecordChunkedSpec.
Import ListNotations.
Open Scope N_scope.

Ltac Zify.zify_post_hook ::= Z.div_mod_to_equations.

(* ================================================================== *)
(* 0. last_index_where, field_generation, made_optional_at             *)

Lemma liw_spec p steps : forall i acc r,
  last_index_where p steps i acc = Some r ->
  acc = Some r \/
  (i <= r /\ r < i + nlen steps /\
   exists s, nth_error steps (N.to_nat (r - i)) = Some s /\ p s = true).
Proof.
  induction steps as [|s steps IH]; intros i acc r H; cbn [last_index_where] in H.
  - left. exact H.
  - apply IH in H. cbn [nlen]. destruct H as [H | (H1 & H2 & s' & H3 & H4)].
    + destruct (p s) eqn:Ep.
      * injection H as <-. right. split; [lia|]. split; [lia|].
        exists s. rewrite N.sub_diag. split; [reflexivity | exact Ep].
      * left. exact H.
    + right. split; [lia|]. split; [lia|]. exists s'. split; [|exact H4].
      replace (N.to_nat (r - i)) with (Datatypes.S (N.to_nat (r - (i + 1)))) by lia. exact H3.
Qed.

Lemma liw_some p steps : forall i acc,
  (acc <> None \/ exists s, In s steps /\ p s = true) ->
  last_index_where p steps i acc <> None.
Proof.
  induction steps as [|s steps IH]; intros i acc H; cbn [last_index_where].
  - destruct H as [H | (s & [] & _)]. exact H.
  - apply IH. destruct H as [H | (s' & [<- | Hin] & Hp)].
    + left. destruct (p s); [discriminate | exact H].
    + left. rewrite Hp. discriminate.
    + right. exists s'. split; assumption.
Qed.

Lemma fg_spec steps n c :
  field_generation steps n = Some c ->
  1 <= c /\ c <= nlen steps /\ exists d, nth_error steps (N.to_nat (c - 1)) = Some (SAdded n d).
Proof.
  unfold field_generation. intros H. apply liw_spec in H.
  destruct H as [H | (H1 & H2 & s & H3 & H4)]; [discriminate|].
  split; [lia|]. split; [lia|]. destruct s as [m d| | |]; try discriminate.
  apply bytes_eqb_eq in H4. subst m. exists d. exact H3.
Qed.

Lemma fg_inj steps n n' c :
  field_generation steps n = Some c -> field_generation steps n' = Some c -> n = n'.
Proof.
  intros H1 H2. apply fg_spec in H1 as (_ & _ & d & H1). apply fg_spec in H2 as (_ & _ & d' & H2).
  rewrite H1 in H2. injection H2 as ->. reflexivity.
Qed.

Lemma mo_bound steps n i : made_optional_at steps n = Some i -> i <= nlen steps.
Proof.
  unfold made_optional_at. intros H. apply liw_spec in H.
  destruct H as [H | (H1 & H2 & _)]; [discriminate | lia].
Qed.

Lemma mo_in steps n : In (SMadeOptional n) steps -> made_optional_at steps n <> None.
Proof.
  intros H. unfold made_optional_at. apply liw_some. right.
  exists (SMadeOptional n). split; [exact H | apply bytes_eqb_refl].
Qed.

Definition chunk_of (steps : list step) (n : name) : N :=
  match field_generation steps n with Some c => c | None => 0 end.

Lemma chunk_of_le steps n : chunk_of steps n <= nlen steps.
Proof.
  unfold chunk_of. destruct (field_generation steps n) eqn:Ef; [|lia].
  apply fg_spec in Ef. lia.
Qed.

Lemma chunk_of_inj steps n n' :
  chunk_of steps n <> 0 -> chunk_of steps n = chunk_of steps n' -> n = n'.
Proof.
  unfold chunk_of. intros H0 H.
  destruct (field_generation steps n) as [c|] eqn:E1; [|congruence].
  destruct (field_generation steps n') as [c'|] eqn:E2; [|congruence].
  subst c'. eapply fg_inj; eassumption.
Qed.

Lemma chunk_of_added steps n :
  chunk_of steps n <> 0 ->
  exists d, nth_error steps (Nat.pred (N.to_nat (chunk_of steps n))) = Some (SAdded n d).
Proof.
  unfold chunk_of. destruct (field_generation steps n) as [c|] eqn:E1; [|congruence].
  intros _. apply fg_spec in E1 as (H1 & _ & d & H3). exists d.
  replace (Nat.pred (N.to_nat c)) with (N.to_nat (c - 1)) by lia. exact H3.
Qed.

(* ================================================================== *)
(* 1. lists of chunks                                                  *)

Fixpoint upd (l : list bytes) (i : nat) (f : bytes -> bytes) : list bytes :=
  match l, i with
  | [], _ => []
  | x :: r, O => f x :: r
  | x :: r, Datatypes.S i' => x :: upd r i' f
  end.

Fixpoint zipapp (a b : list bytes) : list bytes :=
  match a, b with
  | x :: a', y :: b' => (x ++ y) :: zipapp a' b'
  | _, _ => []
  end.

Lemma app_nth_upd l : forall i b l',
  app_nth l i b = Some l' -> l' = upd l i (fun x => x ++ b) /\ (i < length l)%nat.
Proof.
  induction l as [|x l IH]; intros i b l' H; cbn [app_nth] in H; [discriminate|].
  destruct i as [|i].
  - injection H as <-. cbn. split; [reflexivity | lia].
  - destruct (app_nth l i b) as [r'|] eqn:E; [|discriminate]. injection H as <-.
    apply IH in E as [-> Hl]. cbn. split; [reflexivity | lia].
Qed.

Lemma length_upd l : forall i f, length (upd l i f) = length l.
Proof. induction l as [|x l IH]; intros [|i] f; cbn; auto. Qed.

Lemma zipapp_upd C : forall D i b,
  zipapp (upd C i (fun x => x ++ b)) D = zipapp C (upd D i (fun x => b ++ x)).
Proof.
  induction C as [|x C IH]; intros D i b.
  - destruct i; reflexivity.
  - destruct D as [|y D]; [destruct i; reflexivity|].
    destruct i as [|i]; cbn [upd zipapp].
    + rewrite <- app_assoc. reflexivity.
    + rewrite IH. reflexivity.
Qed.

Lemma length_zipapp a : forall b, length a = length b -> length (zipapp a b) = length a.
Proof.
  induction a as [|x a IH]; intros [|y b] H; cbn in *; try discriminate; auto.
Qed.

Lemma zipapp_upd_nth D : forall R i b,
  length D = length R -> (i < length D)%nat ->
  exists d r, nth_error (zipapp (upd D i (fun x => b ++ x)) R) i = Some (b ++ d ++ r) /\
              set_nth (zipapp (upd D i (fun x => b ++ x)) R) i (d ++ r) = zipapp D R.
Proof.
  induction D as [|x D IH]; intros R i b Hl Hi; cbn [length] in *; [lia|].
  destruct R as [|y R]; [discriminate|]. cbn [length] in Hl.
  destruct i as [|i]; cbn [upd zipapp nth_error set_nth].
  - exists x, y. rewrite <- app_assoc. split; reflexivity.
  - destruct (IH R i b ltac:(lia) ltac:(lia)) as (d & r & H1 & H2).
    exists d, r. rewrite H1, H2. split; reflexivity.
Qed.

Lemma zipapp_nil_l n : forall D, length D = n -> zipapp (repeat [] n) D = D.
Proof.
  induction n as [|n IH]; intros [|y D] H; cbn in *; try discriminate; try reflexivity.
  rewrite IH by lia. reflexivity.
Qed.

Lemma zipapp_nil_r n : forall D, length D = n -> zipapp D (repeat [] n) = D.
Proof.
  induction n as [|n IH]; intros [|y D] H; cbn in *; try discriminate; try reflexivity.
  rewrite IH by lia. rewrite app_nil_r. reflexivity.
Qed.

Lemma nth_error_set_nth {A} (l : list A) : forall i j x,
  (i < length l)%nat ->
  nth_error (set_nth l i x) j = if Nat.eqb i j then Some x else nth_error l j.
Proof.
  induction l as [|y l IH]; intros i j x Hi; cbn [length] in Hi; [lia|].
  destruct i as [|i], j as [|j]; cbn [set_nth nth_error Nat.eqb]; try reflexivity.
  apply IH. lia.
Qed.

Lemma skipn_cons_nth {A} (l : list A) : forall i c cs,
  skipn i l = c :: cs -> nth_error l i = Some c /\ skipn (Datatypes.S i) l = cs.
Proof.
  induction l as [|y l IH]; intros i c cs H.
  - destruct i; discriminate.
  - destruct i as [|i]; cbn [skipn] in H.
    + injection H as -> ->. split; reflexivity.
    + apply IH in H. exact H.
Qed.

Lemma nlen_0_nil {A} (l : list A) : nlen l = 0 -> l = [].
Proof. destruct l; cbn; [reflexivity | lia]. Qed.

Lemma names_nodup_cons x r :
  names_nodup (x :: r) = true -> ~ In x r /\ names_nodup r = true.
Proof.
  cbn [names_nodup]. intros H. apply andb_true_iff in H as [H1 H2]. split; [|exact H2].
  intros Hin. apply negb_true_iff in H1.
  assert (existsb (bytes_eqb x) r = true) as Hx.
  { apply existsb_exists. exists x. split; [exact Hin | apply bytes_eqb_refl]. }
  congruence.
Qed.

Lemma assoc_name_in {A} n (l : list (name * A)) cp : assoc_name n l = Some cp -> In (n, cp) l.
Proof.
  induction l as [|[a b] l IH]; cbn [assoc_name]; [discriminate|].
  destruct (bytes_eqb a n) eqn:E.
  - intros H. injection H as ->. apply bytes_eqb_eq in E. subst. left. reflexivity.
  - intros H. right. apply IH. exact H.
Qed.

(* ================================================================== *)
(* 2. the serializer state                                             *)

Definition lastZ (L : list (N * N)) (c : N) : Z :=
  match assoc_N c L with Some li => Z.of_N li | None => (-1)%Z end.

Lemma lastZ_cons a b L c : lastZ ((a, b) :: L) c = if a =? c then Z.of_N b else lastZ L c.
Proof. unfold lastZ. cbn [assoc_N]. destruct (a =? c); reflexivity. Qed.

Lemma lastZ_ge L c : (-1 <= lastZ L c)%Z.
Proof. unfold lastZ. destruct (assoc_N c L); lia. Qed.

Lemma ser_record_index_spec ss n c ss1 :
  ser_record_index ss n c = Ok ss1 ->
  exists p, Z.of_N p = (lastZ (ss_last ss) c + 1)%Z /\
    ss1 = mkSer (ss_chunks ss) ((c, p) :: ss_last ss) ((n, (c, p)) :: ss_idx ss).
Proof.
  unfold ser_record_index, lastZ. destruct (assoc_N c (ss_last ss)) as [li|].
  - destruct (li + 1 <? 256); [|discriminate]. intros H. injection H as <-.
    exists (li + 1). split; [lia | reflexivity].
  - intros H. injection H as <-. exists 0. split; [lia | reflexivity].
Qed.

Fixpoint nonadded_empty (steps : list step) (cs : list bytes) : Prop :=
  match steps, cs with
  | s :: r, c :: cs' =>
      (match s with SAdded _ _ => True | _ => c = [] end) /\ nonadded_empty r cs'
  | _, _ => True
  end.

Lemma nonadded_upd steps : forall cs j f n d,
  nth_error steps j = Some (SAdded n d) -> nonadded_empty steps cs ->
  nonadded_empty steps (upd cs j f).
Proof.
  induction steps as [|s steps IH]; intros cs j f n d Hn H.
  - destruct (upd cs j f); exact I.
  - destruct cs as [|c cs]; [destruct j; exact I|].
    destruct H as [H1 H2]. destruct j as [|j]; cbn [upd nonadded_empty nth_error] in *.
    + injection Hn as ->. split; [exact I | exact H2].
    + split; [exact H1|]. eapply IH; eassumption.
Qed.

Lemma nonadded_repeat steps : forall n, nonadded_empty steps (repeat [] n).
Proof.
  induction steps as [|s steps IH]; intros [|n]; cbn [repeat nonadded_empty]; auto.
  split; [destruct s; auto | apply IH].
Qed.

Record winv (steps : list step) (fs : list field) (ss : ser_st) : Prop := {
  w_chunk : forall n c p, In (n, (c, p)) (ss_idx ss) -> c = chunk_of steps n;
  w_pos0 : forall n c p, In (n, (c, p)) (ss_idx ss) -> c <> 0 -> p = 0;
  w_le : forall n c p, In (n, (c, p)) (ss_idx ss) -> (Z.of_N p <= lastZ (ss_last ss) c)%Z;
  w_ex : forall c, (0 <= lastZ (ss_last ss) c)%Z -> exists n p, In (n, (c, p)) (ss_idx ss);
  w_fresh : forall n cp, In (n, cp) (ss_idx ss) -> ~ In n (map f_name fs);
  w_inj : forall n n' cp, In (n, cp) (ss_idx ss) -> In (n', cp) (ss_idx ss) -> n = n';
  w_nrem : forall n cp, In (n, cp) (ss_idx ss) -> in_removed steps n = false;
  w_cnt : forall c, (lastZ (ss_last ss) c + Z.of_nat (length fs) <= 126)%Z;
  w_empty : nonadded_empty steps (tl (ss_chunks ss));
  w_len : length (ss_chunks ss) = Datatypes.S (length steps) }.

Lemma winv_skip steps f fs ss : winv steps (f :: fs) ss -> winv steps fs ss.
Proof.
  intros [H1 H2 H3 H4 H5 H6 H7 H8 H9 H10]. constructor; auto.
  - intros n cp Hin Hn. apply (H5 n cp Hin). right. exact Hn.
  - intros c. specialize (H8 c). cbn [length] in H8. lia.
Qed.

Lemma winv_step steps f fs ss b chunks ss1 :
  winv steps (f :: fs) ss ->
  ~ In (f_name f) (map f_name fs) ->
  in_removed steps (f_name f) = false ->
  app_nth (ss_chunks ss) (N.to_nat (chunk_of steps (f_name f))) b = Some chunks ->
  ser_record_index (mkSer chunks (ss_last ss) (ss_idx ss)) (f_name f) (chunk_of steps (f_name f))
    = Ok ss1 ->
  winv steps fs ss1.
Proof.
  intros [H1 H2 H3 H4 H5 H6 H7 H8 H9 H10] Hfresh Hnrem Happ Hser.
  apply ser_record_index_spec in Hser as (p & Hp & ->). cbn [ss_last ss_idx ss_chunks] in *.
  apply app_nth_upd in Happ as [-> Hlt].
  set (c := chunk_of steps (f_name f)) in *.
  assert (Hold: forall n', ~ In (n', (c, p)) (ss_idx ss)).
  { intros n' Hin. apply H3 in Hin. lia. }
  constructor; cbn [ss_last ss_idx ss_chunks].
  - intros n c' p' [Heq | Hin]; [injection Heq as <- <- <-; reflexivity | eauto].
  - intros n c' p' [Heq | Hin] Hc; [|eauto]. injection Heq as <- <- <-.
    pose proof (lastZ_ge (ss_last ss) c) as Hge.
    destruct (Z.eq_dec (lastZ (ss_last ss) c) (-1)) as [Hm | Hm]; [lia|].
    exfalso. destruct (H4 c ltac:(lia)) as (n & p0 & Hin).
    pose proof (H1 _ _ _ Hin) as Hcn.
    assert (f_name f = n) by (apply (chunk_of_inj steps); [exact Hc | exact Hcn]).
    subst n. apply (H5 _ _ Hin). left. reflexivity.
  - intros n c' p' [Heq | Hin]; rewrite lastZ_cons.
    + injection Heq as <- <- <-. rewrite N.eqb_refl. lia.
    + destruct (c =? c') eqn:Ec.
      * apply N.eqb_eq in Ec. subst c'. apply H3 in Hin. lia.
      * eauto.
  - intros c'. rewrite lastZ_cons. destruct (c =? c') eqn:Ec.
    + apply N.eqb_eq in Ec. subst c'. intros _. exists (f_name f), p. left. reflexivity.
    + intros Hge. destruct (H4 c' Hge) as (n & p0 & Hin). exists n, p0. right. exact Hin.
  - intros n cp [Heq | Hin].
    + injection Heq as <- <-. exact Hfresh.
    + intros Hn. apply (H5 n cp Hin). right. exact Hn.
  - intros n n' cp [Heq | Hin] [Heq' | Hin'].
    + congruence.
    + injection Heq as <- <-. exfalso. eapply Hold; eassumption.
    + injection Heq' as <- <-. exfalso. eapply Hold; eassumption.
    + eauto.
  - intros n cp [Heq | Hin]; [injection Heq as <- <-; exact Hnrem | eauto].
  - intros c'. rewrite lastZ_cons. specialize (H8 c'). cbn [length] in H8.
    destruct (c =? c') eqn:Ec.
    + apply N.eqb_eq in Ec. subst c'. lia.
    + lia.
  - destruct (ss_chunks ss) as [|x r] eqn:EC; [cbn in Hlt; lia|].
    destruct (N.to_nat c) as [|j] eqn:Ej; cbn [upd tl] in *; [exact H9|].
    assert (Hc0: c <> 0) by lia.
    destruct (chunk_of_added steps (f_name f) Hc0) as (d & Hd). fold c in Hd.
    rewrite Ej in Hd. cbn [Nat.pred] in Hd. eapply nonadded_upd; eassumption.
  - rewrite length_upd. exact H10.
Qed.

Lemma wf_field_written E steps f :
  wf_field E steps f = true -> f_transient f = None ->
  wf_ty E (f_ty f) = true /\
  (f_opt f = true -> exists t', f_ty f = TOption t') /\
  in_removed steps (f_name f) = false /\
  (f_opt f = false -> made_optional_at steps (f_name f) = None).
Proof.
  unfold wf_field. intros H Etr. rewrite Etr in H.
  apply andb_true_iff in H as [H H3]. apply andb_true_iff in H as [H1 H2].
  apply andb_true_iff in H3 as [H3 H4]. apply negb_true_iff in H3.
  split; [exact H1|]. split; [|split; [exact H3|]].
  - intros Eo. rewrite Eo in H2. destruct (f_ty f); try discriminate. eexists. reflexivity.
  - intros Eo. rewrite Eo in H4. cbn [orb] in H4.
    destruct (made_optional_at steps (f_name f)); [discriminate | reflexivity].
Qed.

Lemma mem_name_false n rem : (forall x, In x rem -> x <> n) -> mem_name n rem = false.
Proof.
  intros H. unfold mem_name. destruct (existsb (bytes_eqb n) rem) eqn:Ex; [|reflexivity].
  apply existsb_exists in Ex as (x & Hin & Hx). apply bytes_eqb_eq in Hx. subst x.
  exfalso. exact (H n Hin eq_refl).
Qed.

Lemma mem_pos_false cp mo : ~ In cp mo -> mem_pos cp mo = false.
Proof.
  intros H. unfold mem_pos.
  destruct (existsb (fun q => (fst q =? fst cp) && (snd q =? snd cp)) mo) eqn:Ex; [|reflexivity].
  apply existsb_exists in Ex as ([a b] & Hin & Hx). destruct cp as [c p]. cbn [fst snd] in Hx.
  apply andb_true_iff in Hx as [Ha Hb]. apply N.eqb_eq in Ha, Hb. subst. contradiction.
Qed.

Section Chunked.
  Context (E : env) (encf : ty -> encoder) (decf : ty -> adecoder)
          (w : ty -> val -> bool) (nv : ty -> val -> val).
  Hypothesis FO : fields_ok E encf decf w nv.
  Variable steps : list step.

  Lemma enc_fields_winv : forall fs vs ss st ss' st',
    winv steps fs ss -> names_nodup (map f_name fs) = true ->
    forallb (wf_field E steps) fs = true ->
    enc_fields_chunked encf steps fs vs ss st = Ok (ss', st') ->
    winv steps [] ss' /\ exists ext, ss_idx ss' = ext ++ ss_idx ss.
  Proof.
    induction fs as [|f fs IH]; intros vs ss st ss' st' Hw Hnd Hwf Henc.
    - destruct vs; [|discriminate]. cbn in Henc. apply ok_pair_inj in Henc as [<- <-].
      split; [exact Hw | exists []; reflexivity].
    - destruct vs as [|x vs]; [discriminate|].
      cbn [map] in Hnd. apply names_nodup_cons in Hnd as [Hfresh Hnd].
      cbn [forallb] in Hwf. apply andb_true_iff in Hwf as [Hf Hwf].
      cbn [enc_fields_chunked] in Henc.
      destruct (f_transient f) as [dflt|] eqn:Etr.
      + eapply IH; try eassumption. eapply winv_skip; eassumption.
      + change (match field_generation steps (f_name f) with Some c => c | None => 0 end)
          with (chunk_of steps (f_name f)) in Henc.
        destruct (encf (f_ty f) x st) as [[b st1]| | |] eqn:E1; try discriminate.
        cbn [bind] in Henc.
        destruct (app_nth (ss_chunks ss) (N.to_nat (chunk_of steps (f_name f))) b)
          as [chunks|] eqn:Eapp; [|discriminate].
        destruct (ser_record_index (mkSer chunks (ss_last ss) (ss_idx ss)) (f_name f)
                    (chunk_of steps (f_name f))) as [ss1| | |] eqn:Eser; try discriminate.
        cbn [bind] in Henc.
        destruct (wf_field_written _ _ _ Hf Etr) as (_ & _ & Hnrem & _).
        pose proof (winv_step _ _ _ _ _ _ _ Hw Hfresh Hnrem Eapp Eser) as Hw1.
        destruct (IH _ _ _ _ _ Hw1 Hnd Hwf Henc) as [Hw' (ext & Hext)].
        split; [exact Hw'|].
        apply ser_record_index_spec in Eser as (p & _ & ->). cbn [ss_idx] in Hext.
        exists (ext ++ [(f_name f, (chunk_of steps (f_name f), p))]).
        rewrite <- app_assoc. exact Hext.
  Qed.

  Lemma read_field_chunked (d : adecoder) n dflt last ctor mo rem (I : list bytes) c l b rest x s k st st' :
    c = chunk_of steps n -> c <= version_of steps ->
    mem_name n rem = false ->
    nth_error last (N.to_nat c) = Some l -> (l + 1 <= 127)%Z ->
    mem_pos (c, Z.to_N (l + 1)) mo = false ->
    nth_error I (N.to_nat c) = Some (b ++ rest) ->
    d (mkA (b ++ rest) (s :: k) st) = Ok (x, mkA rest (s :: k) st') ->
    read_field a_ops steps d n dflt (mkAd last ctor (version_of steps) mo rem I) (mkA s k st)
    = Ok (x, mkAd (set_nth last (N.to_nat c) (l + 1)%Z) ctor (version_of steps) mo rem
               (set_nth I (N.to_nat c) rest), mkA s k st').
  Proof.
    intros Hc Hle Hmem Hl Hl127 Hmo HI Hd. unfold read_field. cbn [ad_removed]. rewrite Hmem.
    change (match field_generation steps n with Some c => c | None => 0 end)
      with (chunk_of steps n). rewrite <- Hc.
    unfold ad_record_index. cbn [ad_last]. rewrite Hl.
    assert ((127 <? l + 1)%Z = false) as -> by lia.
    cbn [bind ad_stored ad_ctor ad_mo ad_removed ad_inputs].
    assert (version_of steps <? c = false) as -> by lia.
    unfold in_chunk. cbn [ad_inputs].
    destruct I as [|i0 I0]; [destruct (N.to_nat c); discriminate|].
    rewrite HI. cbn [a_ops d_push bind a_cur a_stack a_strs ad_mo]. rewrite Hmo, Hd.
    cbn [bind a_ops d_pop a_stack a_cur a_strs]. unfold ad_set_input.
    cbn [ad_last ad_stored ad_ctor ad_mo ad_removed ad_inputs]. reflexivity.
  Qed.

  Lemma read_optional_field_chunked (d : adecoder) n dflt last ctor mo rem (I : list bytes) c l inp rest x s k st st' :
    c = chunk_of steps n -> c <= version_of steps ->
    mem_name n rem = false ->
    nth_error last (N.to_nat c) = Some l -> (l + 1 <= 127)%Z ->
    nth_error I (N.to_nat c) = Some inp ->
    ('(tag, s0) <- r_u8 a_reader (mkA inp (s :: k) st) ;;
     if tag =? 0 then Ok (VNone, s0)
     else if tag =? 1 then '(y, s1) <- d s0 ;; Ok (VSome y, s1)
     else Err EDeserializationFailure) = Ok (x, mkA rest (s :: k) st') ->
    read_optional_field a_ops steps d n dflt (mkAd last ctor (version_of steps) mo rem I) (mkA s k st)
    = Ok (x, mkAd (set_nth last (N.to_nat c) (l + 1)%Z) ctor (version_of steps) mo rem
               (set_nth I (N.to_nat c) rest), mkA s k st').
  Proof.
    intros Hc Hle Hmem Hl Hl127 HI Hd. unfold read_optional_field. cbn [ad_removed]. rewrite Hmem.
    change (match field_generation steps n with Some c => c | None => 0 end)
      with (chunk_of steps n). rewrite <- Hc.
    unfold ad_record_index. cbn [ad_last]. rewrite Hl.
    assert ((127 <? l + 1)%Z = false) as -> by lia.
    cbn [bind ad_stored ad_ctor ad_mo ad_removed ad_inputs].
    assert (version_of steps <? c = false) as -> by lia.
    assert (version_of steps <? match made_optional_at steps n with Some i => i | None => 0 end = false) as ->.
    { destruct (made_optional_at steps n) as [i|] eqn:Em; [|lia].
      apply mo_bound in Em. unfold version_of. rewrite nlen_length in Em. lia. }
    unfold in_chunk. cbn [ad_inputs].
    destruct I as [|i0 I0]; [destruct (N.to_nat c); discriminate|].
    rewrite HI. cbn [a_ops d_push bind a_cur a_stack a_strs ad_mo d_rd].
    rewrite Hd.
    cbn [bind a_ops d_pop a_stack a_cur a_strs]. unfold ad_set_input.
    cbn [ad_last ad_stored ad_ctor ad_mo ad_removed ad_inputs]. reflexivity.
  Qed.

  Lemma rt_fields_chunked : forall fs vs ss st ss' st',
    winv steps fs ss ->
    names_nodup (map f_name fs) = true ->
    forallb (wf_field E steps) fs = true ->
    wf_fields w fs vs = true ->
    enc_fields_chunked encf steps fs vs ss st = Ok (ss', st') ->
    exists D : list bytes,
      length D = length (ss_chunks ss) /\ ss_chunks ss' = zipapp (ss_chunks ss) D /\
      forall (R : list bytes) last ctor mo rem s k,
        length R = length D ->
        (forall i, (i < length D)%nat ->
                   nth_error last i = Some (lastZ (ss_last ss) (N.of_nat i))) ->
        (forall c p, In (c, p) mo ->
                     exists n, In (n, (c, p)) (ss_idx ss') /\ In (SMadeOptional n) steps) ->
        (forall n, In n rem -> in_removed steps n = true) ->
        exists ad',
          read_fields a_ops decf steps fs
            (mkAd last ctor (version_of steps) mo rem (zipapp D R)) (mkA s k st)
          = Ok (norm_fields nv fs vs, ad', mkA s k st').
  Proof.
    induction fs as [|f fs IH]; intros vs ss st ss' st' Hw Hnd Hwf Hv Henc.
    - destruct vs; [|discriminate]. cbn in Henc. apply ok_pair_inj in Henc as [<- <-].
      exists (repeat [] (length (ss_chunks ss))). split; [apply repeat_length|].
      split; [symmetry; apply zipapp_nil_r; reflexivity|].
      intros R last ctor mo rem s k _ _ _ _. eexists. reflexivity.
    - destruct vs as [|x vs]; [discriminate|].
      pose proof Hnd as Hnd0. pose proof Hwf as Hwf0.
      cbn [map] in Hnd. apply names_nodup_cons in Hnd as [Hfresh Hnd].
      cbn [forallb] in Hwf. apply andb_true_iff in Hwf as [Hf Hwf].
      cbn [wf_fields] in Hv. apply andb_true_iff in Hv as [Hx Hv].
      pose proof Henc as Henc0.
      cbn [enc_fields_chunked] in Henc. cbn [read_fields norm_fields].
      destruct (f_transient f) as [dflt|] eqn:Etr.
      + destruct (IH _ _ _ _ _ (winv_skip _ _ _ _ Hw) Hnd Hwf Hv Henc) as (D & HlD & HD & Hrd).
        exists D. split; [exact HlD|]. split; [exact HD|].
        intros R last ctor mo rem s k HlR Hlast Hmo Hrem.
        destruct (Hrd R last ctor mo rem s k HlR Hlast Hmo Hrem) as [ad' Had'].
        cbn [bind]. rewrite Had'. cbn [bind]. eexists. reflexivity.
      + change (match field_generation steps (f_name f) with Some c => c | None => 0 end)
          with (chunk_of steps (f_name f)) in Henc.
        set (c := chunk_of steps (f_name f)) in *.
        destruct (encf (f_ty f) x st) as [[b st1]| | |] eqn:E1; try discriminate.
        cbn [bind] in Henc.
        destruct (app_nth (ss_chunks ss) (N.to_nat c) b) as [chunks|] eqn:Eapp; [|discriminate].
        destruct (ser_record_index (mkSer chunks (ss_last ss) (ss_idx ss)) (f_name f) c)
          as [ss1| | |] eqn:Eser; try discriminate.
        cbn [bind] in Henc.
        destruct (wf_field_written _ _ _ Hf Etr) as (Hty & Hopt & Hnrem & Hnopt).
        pose proof (winv_step _ _ _ _ _ _ _ Hw Hfresh Hnrem Eapp Eser) as Hw1.
        destruct (enc_fields_winv _ _ _ _ _ _ Hw1 Hnd Hwf Henc) as [Hw' (ext & Hext)].
        destruct (IH _ _ _ _ _ Hw1 Hnd Hwf Hv Henc) as (D1 & HlD1 & HD1 & Hrd).
        apply ser_record_index_spec in Eser as (p & Hp & ->).
        cbn [ss_last ss_idx ss_chunks] in *.
        apply app_nth_upd in Eapp as [-> Hclt].
        rewrite length_upd in HlD1.
        exists (upd D1 (N.to_nat c) (fun y => b ++ y)).
        split; [rewrite length_upd; exact HlD1|].
        split; [rewrite HD1; apply zipapp_upd|].
        intros R last ctor mo rem s k HlR Hlast Hmo Hrem.
        rewrite length_upd in HlR, Hlast.
        destruct (zipapp_upd_nth D1 R (N.to_nat c) b ltac:(lia) ltac:(lia)) as (d1 & r1 & Hn1 & Hs1).
        assert (Hcle: c <= version_of steps).
        { unfold c, version_of. rewrite <- nlen_length. apply chunk_of_le. }
        assert (Hmemn: mem_name (f_name f) rem = false).
        { apply mem_name_false. intros y Hy ->. apply Hrem in Hy. congruence. }
        pose proof (Hlast (N.to_nat c) ltac:(lia)) as Hl. rewrite N2Nat.id in Hl.
        pose proof (w_cnt _ _ _ Hw c) as Hcnt. cbn [length] in Hcnt.
        pose proof (lastZ_ge (ss_last ss) c) as Hge.
        set (l := lastZ (ss_last ss) c) in *.
        assert (Hpl: Z.to_N (l + 1) = p) by lia.
        (* the reader state after this field *)
        assert (Hlast1: forall i, (i < length D1)%nat ->
                  nth_error (set_nth last (N.to_nat c) (l + 1)%Z) i
                  = Some (lastZ ((c, p) :: ss_last ss) (N.of_nat i))).
        { intros i Hi. rewrite nth_error_set_nth by (apply nth_error_Some; congruence).
          rewrite lastZ_cons. destruct (Nat.eqb (N.to_nat c) i) eqn:Ei.
          - apply Nat.eqb_eq in Ei. assert (c =? N.of_nat i = true) as -> by lia. f_equal. lia.
          - apply Nat.eqb_neq in Ei. assert (c =? N.of_nat i = false) as -> by lia.
            apply Hlast. exact Hi. }
        destruct (Hrd R (set_nth last (N.to_nat c) (l + 1)%Z) ctor mo rem s k
                    ltac:(lia) Hlast1 Hmo Hrem) as [ad' Had'].
        destruct (f_opt f) eqn:Eopt.
        * destruct (Hopt eq_refl) as [t' Ety]. rewrite Ety in *.
          destruct (fo_opt _ _ _ _ _ FO t' Hty x st b st1 (d1 ++ r1) (s :: k) Hx E1)
            as [(-> & -> & -> & Hn) | (y & b' & -> & -> & Hn & Hd)].
          -- rewrite (read_optional_field_chunked (decf t') (f_name f) _ last ctor mo rem _ c l
                        ([0] ++ d1 ++ r1) (d1 ++ r1) VNone s k st st eq_refl Hcle Hmemn Hl
                        ltac:(lia) Hn1 eq_refl).
             cbn [bind]. rewrite Hs1, Had'. cbn [bind]. rewrite Hn. eexists. reflexivity.
          -- rewrite (read_optional_field_chunked (decf t') (f_name f) _ last ctor mo rem _ c l
                        ((1 :: b') ++ d1 ++ r1) (d1 ++ r1) (VSome (nv t' y)) s k st st1
                        eq_refl Hcle Hmemn Hl ltac:(lia) Hn1).
             ++ cbn [bind]. rewrite Hs1, Had'. cbn [bind]. rewrite Hn. eexists. reflexivity.
             ++ cbn [app]. rewrite a_r_u8. cbn [bind N.eqb Pos.eqb]. rewrite Hd. reflexivity.
        * assert (Hmp: mem_pos (c, Z.to_N (l + 1)) mo = false).
          { apply mem_pos_false. intros Hin. rewrite Hpl in Hin.
            destruct (Hmo _ _ Hin) as (n' & Hin' & Hst).
            assert (Hme: In (f_name f, (c, p)) (ss_idx ss')).
            { rewrite Hext. apply in_or_app. right. left. reflexivity. }
            pose proof (w_inj _ _ _ Hw' _ _ _ Hin' Hme) as ->.
            apply mo_in in Hst. apply Hst. apply Hnopt. reflexivity. }
          rewrite (read_field_chunked (decf (f_ty f)) (f_name f) _ last ctor mo rem _ c l
                     b (d1 ++ r1) (nv (f_ty f) x) s k st st1 eq_refl Hcle Hmemn Hl ltac:(lia) Hmp Hn1
                     (fo_rt _ _ _ _ _ FO (f_ty f) Hty x st b st1 (d1 ++ r1) (s :: k) Hx E1)).
          cbn [bind]. rewrite Hs1, Had'. cbn [bind]. eexists. reflexivity.
  Qed.
End Chunked.

(* ================================================================== *)
(* 3. the header                                                       *)

Definition size_sstep (c : bytes) : sstep :=
  if nlen c =? 0 then SSUnknown else SSChunk (Z.of_N (nlen c)).

Definition step_sstep (idx : list (name * (N * N))) (c : bytes) (s : step) : sstep :=
  match s with
  | SAdded _ _ => size_sstep c
  | SMadeOptional n =>
      match assoc_name n idx with Some (ch, p) => SSOpt ch p | None => SSRemoved n end
  | SRemoved n | SMadeTransient n => SSRemoved n
  end.

Fixpoint steps_ssteps (idx : list (name * (N * N))) (steps : list step) (cs : list bytes)
  : list sstep :=
  match steps, cs with
  | s :: r, c :: cs' => step_sstep idx c s :: steps_ssteps idx r cs'
  | _, _ => []
  end.

Definition ss_ok (x : sstep) (c : bytes) : Prop :=
  match x with
  | SSChunk n => n = Z.of_N (nlen c) /\ nlen c < 2 ^ 31
  | _ => c = []
  end.

Lemma size_sstep_ok c : nlen c < 2 ^ 31 -> ss_ok (size_sstep c) c.
Proof.
  intros H. unfold size_sstep. destruct (nlen c =? 0) eqn:E; cbn [ss_ok].
  - apply nlen_0_nil. lia.
  - split; [reflexivity | exact H].
Qed.

Lemma to_signed8_small p : p <= 127 -> to_signed 8 p = Z.of_N p.
Proof.
  intros H. unfold to_signed. change (2 ^ (8 - 1)) with 128.
  assert (p <? 128 = true) as -> by lia. reflexivity.
Qed.

Lemma to_signed8_neg p : p <= 127 -> to_signed 8 (to_unsigned 8 (- Z.of_N p)) = (- Z.of_N p)%Z.
Proof.
  intros H. apply to_signed_to_unsigned; [lia|].
  change (2 ^ (Z.of_N 8 - 1))%Z with 128%Z. lia.
Qed.

Lemma a_read_i8_cons b c k st :
  read_i8 a_reader (mkA (b :: c) k st) = Ok (to_signed 8 b, mkA c k st).
Proof. reflexivity. Qed.

Lemma dec_size c s k st :
  nlen c < 2 ^ 31 ->
  dec_sstep a_ops (mkA (write_var_i32 (Z.of_N (nlen c)) ++ s) k st) = Ok (size_sstep c, mkA s k st).
Proof.
  intros H. unfold dec_sstep. cbn [a_ops d_rd].
  change (2 ^ 31) with 2147483648 in H.
  rewrite (a_read_var_i32 k st _ (Z.of_N (nlen c)) s)
    by (apply var_i32_roundtrip_list; change (2 ^ 31)%Z with 2147483648%Z; lia).
  cbn [bind]. unfold size_sstep. destruct (nlen c =? 0) eqn:E.
  - assert ((Z.of_N (nlen c) =? 0)%Z = true) as -> by lia. reflexivity.
  - assert ((Z.of_N (nlen c) =? 0)%Z = false) as -> by lia.
    assert ((Z.of_N (nlen c) =? -1)%Z = false) as -> by lia.
    assert ((Z.of_N (nlen c) =? -2)%Z = false) as -> by lia. reflexivity.
Qed.

Lemma dec_opt c p b s k st :
  field_position_byte c p = Ok b ->
  (c = 0 -> p <= 126) -> (c <> 0 -> p = 0 /\ c <= 127) ->
  dec_sstep a_ops (mkA ((write_var_i32 (-1) ++ [b]) ++ s) k st) = Ok (SSOpt c p, mkA s k st).
Proof.
  intros Hb H0 H1. unfold dec_sstep. cbn [a_ops d_rd]. rewrite <- app_assoc.
  rewrite (a_read_var_i32 k st _ (-1)%Z ([b] ++ s))
    by (apply var_i32_roundtrip_list; change (2 ^ 31)%Z with 2147483648%Z; lia).
  cbn [bind]. change ((-1 =? 0)%Z) with false. change ((-1 =? -1)%Z) with true. cbv iota.
  cbn [app]. rewrite a_read_i8_cons. cbn [bind].
  unfold field_position_byte in Hb. destruct (c =? 0) eqn:Ec.
  - assert (c = 0) by lia. subst c. specialize (H0 eq_refl).
    rewrite to_signed8_small in Hb by lia.
    assert ((Z.of_N p =? -128)%Z = false) as Hx by lia. rewrite Hx in Hb.
    injection Hb as <-. rewrite to_signed8_neg by lia.
    destruct (p =? 0) eqn:Ep.
    + assert (p = 0) by lia. subst p. reflexivity.
    + assert ((- Z.of_N p <? 0)%Z = true) as -> by lia.
      assert ((- Z.of_N p =? -128)%Z = false) as -> by lia.
      rewrite Z.opp_involutive, N2Z.id. reflexivity.
  - injection Hb as <-. destruct (H1 ltac:(lia)) as [-> Hc].
    rewrite to_signed8_small by lia.
    assert ((Z.of_N c <? 0)%Z = false) as -> by lia. rewrite N2Z.id. reflexivity.
Qed.

Lemma dec_removed n b s k st st1 :
  utf8_valid n = true -> enc_dedup n st = Ok (b, st1) ->
  dec_sstep a_ops (mkA ((write_var_i32 (-2) ++ b) ++ s) k st) = Ok (SSRemoved n, mkA s k st1).
Proof.
  intros Hu He. unfold dec_sstep. cbn [a_ops d_rd]. rewrite <- app_assoc.
  rewrite (a_read_var_i32 k st _ (-2)%Z (b ++ s))
    by (apply var_i32_roundtrip_list; change (2 ^ 31)%Z with 2147483648%Z; lia).
  cbn [bind]. change ((-2 =? 0)%Z) with false. change ((-2 =? -1)%Z) with false.
  change ((-2 =? -2)%Z) with true. cbv iota.
  rewrite (rt_dedup n st b st1 s k Hu He). reflexivity.
Qed.

Lemma ok_inj {A} (a b : A) : Ok a = Ok b -> a = b.
Proof. intros H. injection H. auto. Qed.

Lemma dec_ssteps_cons e rest s k st st2 st1 x xs n :
  dec_sstep a_ops (mkA (e ++ rest ++ s) k st) = Ok (x, mkA (rest ++ s) k st2) ->
  dec_ssteps a_ops n (mkA (rest ++ s) k st2) = Ok (xs, mkA s k st1) ->
  dec_ssteps a_ops (Datatypes.S n) (mkA ((e ++ rest) ++ s) k st) = Ok (x :: xs, mkA s k st1).
Proof.
  intros H1 H2. cbn [dec_ssteps]. rewrite <- app_assoc, H1. cbn [bind]. rewrite H2. reflexivity.
Qed.

Lemma header_parse all ss :
  (forall n c p, assoc_name n (ss_idx ss) = Some (c, p) ->
     in_removed all n = false /\ (c = 0 -> p <= 126) /\ (c <> 0 -> p = 0 /\ c <= 127)) ->
  forall steps' pre st st1 hdr i cs s k,
    forallb (fun s => utf8_valid (step_name s)) steps' = true ->
    skipn i (ss_chunks ss) = cs -> length cs = length steps' ->
    nonadded_empty steps' cs ->
    prerender_names steps' all st = Ok (pre, st1) ->
    header_entries steps' pre ss i = Ok hdr ->
    dec_ssteps a_ops (length steps') (mkA (hdr ++ s) k st)
      = Ok (steps_ssteps (ss_idx ss) steps' cs, mkA s k st1)
    /\ Forall2 ss_ok (steps_ssteps (ss_idx ss) steps' cs) cs
    /\ (forall n, In (SMadeOptional n) steps' -> assoc_name n (ss_idx ss) = None ->
                  in_removed all n = true).
Proof.
  intros Hidx. induction steps' as [|s0 r IH]; intros pre st st1 hdr i cs s k Hu Hsk Hlen Hne Hpre Hhdr.
  - destruct cs; [|discriminate]. cbn in Hpre. apply ok_pair_inj in Hpre as [<- <-].
    cbn in Hhdr. injection Hhdr as <-. cbn [length dec_ssteps steps_ssteps app].
    split; [reflexivity|]. split; [constructor|]. intros n [].
  - destruct cs as [|c cs]; [discriminate|]. cbn [length] in Hlen.
    apply skipn_cons_nth in Hsk as [Hnth Hsk].
    cbn [forallb] in Hu. apply andb_true_iff in Hu as [Hu0 Hu].
    cbn [nonadded_empty] in Hne. destruct Hne as [Hc0 Hne].
    cbn [prerender_names] in Hpre. cbn [steps_ssteps length].
    destruct s0 as [n d | n | n | n]; cbn [step_name] in Hu0.
    + (* SAdded *)
      destruct (prerender_names r all st) as [[rest st2]| | |] eqn:Epre; try discriminate.
      cbn [bind] in Hpre. apply ok_pair_inj in Hpre as [<- <-].
      cbn [header_entries] in Hhdr. unfold chunk_size_entry in Hhdr. rewrite Hnth in Hhdr.
      destruct (nlen c <? 2 ^ 31) eqn:Elt; [|discriminate]. cbn [bind] in Hhdr.
      destruct (header_entries r rest ss (Datatypes.S i)) as [hr| | |] eqn:Ehr; try discriminate.
      cbn [bind] in Hhdr. apply ok_inj in Hhdr as <-.
      destruct (IH _ _ _ _ _ _ s k Hu Hsk ltac:(lia) Hne Epre Ehr) as (I1 & I2 & I3).
      split; [|split].
      * eapply dec_ssteps_cons; [|exact I1]. cbn [step_sstep]. apply dec_size. lia.
      * constructor; [|exact I2]. cbn [step_sstep]. apply size_sstep_ok. lia.
      * intros n' [Heq | Hin]; [discriminate | auto].
    + (* SMadeOptional *)
      destruct (in_removed all n) eqn:Erem.
      * destruct (enc_dedup n st) as [[b st2]| | |] eqn:Ed; try discriminate. cbn [bind] in Hpre.
        destruct (prerender_names r all st2) as [[rest st3]| | |] eqn:Epre; try discriminate.
        cbn [bind] in Hpre. apply ok_pair_inj in Hpre as [<- <-].
        cbn [header_entries] in Hhdr.
        destruct (assoc_name n (ss_idx ss)) as [[ch p]|] eqn:Ea.
        { apply Hidx in Ea as [Ea _]. congruence. }
        cbn [bind] in Hhdr.
        destruct (header_entries r rest ss (Datatypes.S i)) as [hr| | |] eqn:Ehr; try discriminate.
        cbn [bind] in Hhdr. apply ok_inj in Hhdr as <-.
        destruct (IH _ _ _ _ _ _ s k Hu Hsk ltac:(lia) Hne Epre Ehr) as (I1 & I2 & I3).
        split; [|split].
        -- eapply dec_ssteps_cons; [|exact I1]. cbn [step_sstep]. rewrite Ea.
           apply dec_removed; assumption.
        -- constructor; [|exact I2]. cbn [step_sstep]. rewrite Ea. exact Hc0.
        -- intros n' [Heq | Hin]; [injection Heq as <-; intros _; exact Erem | auto].
      * destruct (prerender_names r all st) as [[rest st2]| | |] eqn:Epre; try discriminate.
        cbn [bind] in Hpre. apply ok_pair_inj in Hpre as [<- <-].
        cbn [header_entries] in Hhdr.
        destruct (assoc_name n (ss_idx ss)) as [[ch p]|] eqn:Ea; [|discriminate].
        destruct (field_position_byte ch p) as [pb| | |] eqn:Epb; try discriminate.
        cbn [bind] in Hhdr.
        destruct (header_entries r rest ss (Datatypes.S i)) as [hr| | |] eqn:Ehr; try discriminate.
        cbn [bind] in Hhdr. apply ok_inj in Hhdr as <-.
        destruct (IH _ _ _ _ _ _ s k Hu Hsk ltac:(lia) Hne Epre Ehr) as (I1 & I2 & I3).
        destruct (Hidx _ _ _ Ea) as (_ & Hb0 & Hb1).
        split; [|split].
        -- eapply dec_ssteps_cons; [|exact I1]. cbn [step_sstep]. rewrite Ea.
           apply dec_opt; assumption.
        -- constructor; [|exact I2]. cbn [step_sstep]. rewrite Ea. exact Hc0.
        -- intros n' [Heq | Hin]; [injection Heq as <-; congruence | auto].
    + (* SRemoved *)
      destruct (enc_dedup n st) as [[b st2]| | |] eqn:Ed; try discriminate. cbn [bind] in Hpre.
      destruct (prerender_names r all st2) as [[rest st3]| | |] eqn:Epre; try discriminate.
      cbn [bind] in Hpre. apply ok_pair_inj in Hpre as [<- <-].
      cbn [header_entries bind] in Hhdr.
      destruct (header_entries r rest ss (Datatypes.S i)) as [hr| | |] eqn:Ehr; try discriminate.
      cbn [bind] in Hhdr. apply ok_inj in Hhdr as <-.
      destruct (IH _ _ _ _ _ _ s k Hu Hsk ltac:(lia) Hne Epre Ehr) as (I1 & I2 & I3).
      split; [|split].
      * eapply dec_ssteps_cons; [|exact I1]. cbn [step_sstep].
        apply dec_removed; assumption.
      * constructor; [|exact I2]. exact Hc0.
      * intros n' [Heq | Hin]; [discriminate | auto].
    + (* SMadeTransient *)
      destruct (enc_dedup n st) as [[b st2]| | |] eqn:Ed; try discriminate. cbn [bind] in Hpre.
      destruct (prerender_names r all st2) as [[rest st3]| | |] eqn:Epre; try discriminate.
      cbn [bind] in Hpre. apply ok_pair_inj in Hpre as [<- <-].
      cbn [header_entries bind] in Hhdr.
      destruct (header_entries r rest ss (Datatypes.S i)) as [hr| | |] eqn:Ehr; try discriminate.
      cbn [bind] in Hhdr. apply ok_inj in Hhdr as <-.
      destruct (IH _ _ _ _ _ _ s k Hu Hsk ltac:(lia) Hne Epre Ehr) as (I1 & I2 & I3).
      split; [|split].
      * eapply dec_ssteps_cons; [|exact I1]. cbn [step_sstep].
        apply dec_removed; assumption.
      * constructor; [|exact I2]. exact Hc0.
      * intros n' [Heq | Hin]; [discriminate | auto].
Qed.

(* ================================================================== *)
(* 4. cutting the chunks                                               *)

Fixpoint mo_of (xs : list sstep) : list (N * N) :=
  match xs with
  | [] => []
  | SSOpt c p :: r => (c, p) :: mo_of r
  | _ :: r => mo_of r
  end.

Fixpoint rem_of (xs : list sstep) : list name :=
  match xs with
  | [] => []
  | SSRemoved n :: r => n :: rem_of r
  | _ :: r => rem_of r
  end.

Lemma take_chunks_ok xs cs :
  Forall2 ss_ok xs cs -> forall idx s k st,
  take_chunks a_ops xs idx (mkA (concat cs ++ s) k st)
  = Ok ((cs, mo_of xs, rem_of xs), mkA s k st).
Proof.
  induction 1 as [|x c xs cs Hx _ IH]; intros idx s k st; [reflexivity|].
  destruct x as [n | ch p | n |]; cbn [ss_ok] in Hx; cbn [take_chunks mo_of rem_of].
  - destruct Hx as [-> Hlt]. cbn [concat]. rewrite <- app_assoc.
    rewrite as_usize_of_N
      by (change (2 ^ 64) with 18446744073709551616; change (2 ^ 31) with 2147483648 in Hlt; lia).
    cbn [a_ops d_take a_cur]. rewrite nlen_app.
    assert (nlen c <=? nlen c + nlen (concat cs ++ s) = true) as -> by lia.
    rewrite ntake_app_exact, ndrop_app_exact. unfold a_with_cur. cbn [a_stack a_strs bind].
    rewrite (IH (idx + 1) s k st). reflexivity.
  - subst c. cbn [concat app]. rewrite (IH (idx + 1) s k st). reflexivity.
  - subst c. cbn [concat app]. rewrite (IH (idx + 1) s k st). reflexivity.
  - subst c. cbn [concat app]. rewrite (IH (idx + 1) s k st). reflexivity.
Qed.

Lemma mo_of_steps idx steps : forall cs c p,
  In (c, p) (mo_of (steps_ssteps idx steps cs)) ->
  exists n, In (SMadeOptional n) steps /\ assoc_name n idx = Some (c, p).
Proof.
  induction steps as [|s0 r IH]; intros cs c p H; [destruct H|].
  destruct cs as [|c0 cs]; [destruct H|]. cbn [steps_ssteps] in H.
  assert (Hrec: In (c, p) (mo_of (steps_ssteps idx r cs)) ->
                exists n, In (SMadeOptional n) (s0 :: r) /\ assoc_name n idx = Some (c, p)).
  { intros H'. destruct (IH _ _ _ H') as (n & Hn & Ha). exists n. split; [right; exact Hn | exact Ha]. }
  destruct s0 as [n d | n | n | n]; cbn [step_sstep] in H.
  - unfold size_sstep in H. destruct (nlen c0 =? 0); cbn [mo_of] in H; auto.
  - destruct (assoc_name n idx) as [[ch q]|] eqn:Ea; cbn [mo_of] in H; [|auto].
    destruct H as [Heq | H]; [|auto]. injection Heq as -> ->.
    exists n. split; [left; reflexivity | exact Ea].
  - cbn [mo_of] in H. auto.
  - cbn [mo_of] in H. auto.
Qed.

Lemma in_removed_in all n :
  In (SRemoved n) all \/ In (SMadeTransient n) all -> in_removed all n = true.
Proof.
  intros H. unfold in_removed. apply existsb_exists.
  destruct H as [H | H]; eexists; (split; [exact H | apply bytes_eqb_refl]).
Qed.

Lemma rem_of_steps idx all steps :
  (forall n, In (SMadeOptional n) steps -> assoc_name n idx = None -> in_removed all n = true) ->
  (forall s, In s steps -> In s all) ->
  forall cs n, In n (rem_of (steps_ssteps idx steps cs)) -> in_removed all n = true.
Proof.
  induction steps as [|s0 r IH]; intros Hmo Hsub cs n H; [destruct H|].
  destruct cs as [|c0 cs]; [destruct H|]. cbn [steps_ssteps] in H.
  assert (Hrec: In n (rem_of (steps_ssteps idx r cs)) -> in_removed all n = true).
  { apply IH.
    - intros n' Hn'. apply Hmo. right. exact Hn'.
    - intros s' Hs'. apply Hsub. right. exact Hs'. }
  destruct s0 as [n0 d | n0 | n0 | n0]; cbn [step_sstep] in H.
  - unfold size_sstep in H. destruct (nlen c0 =? 0); cbn [rem_of] in H; auto.
  - destruct (assoc_name n0 idx) as [[ch q]|] eqn:Ea; cbn [rem_of] in H; [auto|].
    destruct H as [<- | H]; [|auto]. apply Hmo; [left; reflexivity | exact Ea].
  - cbn [rem_of] in H. destruct H as [<- | H]; [|auto].
    apply in_removed_in. left. apply Hsub. left. reflexivity.
  - cbn [rem_of] in H. destruct H as [<- | H]; [|auto].
    apply in_removed_in. right. apply Hsub. left. reflexivity.
Qed.

(* ================================================================== *)
(* 5. the record                                                       *)

Lemma enc_record_nonempty encf m vs st :
  r_steps m <> [] ->
  enc_record encf m vs st =
    (let steps := r_steps m in
     let v := version_of steps in
     if 255 <=? v then Panic PAssert else
     '(pre, st) <- prerender_names steps steps st ;;
     let ss0 := mkSer (repeat [] (Datatypes.S (length steps))) [] [] in
     '(ss, st) <- enc_fields_chunked encf steps (r_fields m) vs ss0 st ;;
     e0 <- chunk_size_entry (ss_chunks ss) 0 ;;
     hdr <- header_entries steps pre ss 1 ;;
     Ok (v :: e0 ++ hdr ++ concat (ss_chunks ss), st)).
Proof. intros H. unfold enc_record. destruct (r_steps m); [contradiction | reflexivity]. Qed.

Lemma winv_init steps fs :
  nlen fs <= 127 ->
  winv steps fs (mkSer (repeat [] (Datatypes.S (length steps))) [] []).
Proof.
  intros Hlen. rewrite nlen_length in Hlen.
  constructor; cbn [ss_idx ss_last ss_chunks]; try (intros; contradiction).
  - intros c. unfold lastZ. cbn [assoc_N]. lia.
  - cbn [repeat tl]. apply nonadded_repeat.
  - apply repeat_length.
Qed.

Theorem rt_record_chunked : rt_record_chunked_stmt.
Proof.
  intros E encf decf w nv FO m vs st b st' s k Hne Hwf Hrt Hv Henc.
  rewrite enc_record_nonempty in Henc by exact Hne. cbv zeta in Henc.
  unfold dec_record.
  set (steps := r_steps m) in *.
  unfold wf_rmeta in Hwf. fold steps in Hwf.
  apply andb_true_iff in Hwf as [Hwf Hfs]. apply andb_true_iff in Hwf as [Hwf Hnd].
  apply andb_true_iff in Hwf as [Hver Hlen].
  unfold wf_rmeta_rt in Hrt. fold steps in Hrt. apply andb_true_iff in Hrt as [Hv127 Hutf].
  assert (Hv1: 1 <= version_of steps).
  { unfold version_of. destruct steps; [contradiction | cbn [length]; lia]. }
  assert (255 <=? version_of steps = false) as Hv255 by lia. rewrite Hv255 in *.
  destruct (prerender_names steps steps st) as [[pre st1]| | |] eqn:Epre; try discriminate.
  cbn [bind] in Henc.
  destruct (enc_fields_chunked encf steps (r_fields m) vs
              (mkSer (repeat [] (Datatypes.S (length steps))) [] []) st1)
    as [[ss st2]| | |] eqn:Ef; try discriminate.
  cbn [bind] in Henc.
  destruct (chunk_size_entry (ss_chunks ss) 0) as [e0| | |] eqn:Ee0; try discriminate.
  cbn [bind] in Henc.
  destruct (header_entries steps pre ss 1) as [hdr| | |] eqn:Ehdr; try discriminate.
  cbn [bind] in Henc. apply ok_pair_inj in Henc as [<- <-].
  (* the writer *)
  pose proof (winv_init steps (r_fields m) ltac:(lia)) as Hw0.
  destruct (enc_fields_winv E encf steps _ _ _ _ _ _ Hw0 Hnd Hfs Ef) as [Hw _].
  destruct (rt_fields_chunked E encf decf w nv FO steps _ _ _ _ _ _ Hw0 Hnd Hfs Hv Ef)
    as (D & HlD & HD & Hrd).
  cbn [ss_chunks ss_last] in HlD, HD, Hrd. rewrite repeat_length in HlD.
  rewrite zipapp_nil_l in HD by exact HlD.
  (* the chunks *)
  destruct (ss_chunks ss) as [|c0 ctl] eqn:EC; [subst D; discriminate|].
  unfold chunk_size_entry in Ee0. cbn [nth_error] in Ee0.
  destruct (nlen c0 <? 2 ^ 31) eqn:Ec0; [|discriminate]. apply ok_inj in Ee0 as <-.
  assert (Hidx: forall n c p, assoc_name n (ss_idx ss) = Some (c, p) ->
            in_removed steps n = false /\ (c = 0 -> p <= 126) /\ (c <> 0 -> p = 0 /\ c <= 127)).
  { intros n c p Ha. apply assoc_name_in in Ha.
    split; [eapply w_nrem; eassumption|]. split.
    - intros _. pose proof (w_le _ _ _ Hw _ _ _ Ha). pose proof (w_cnt _ _ _ Hw c).
      cbn [length] in *. lia.
    - intros Hc. split; [eapply w_pos0; eassumption|].
      rewrite (w_chunk _ _ _ Hw _ _ _ Ha). pose proof (chunk_of_le steps n) as Hle.
      unfold version_of in Hv127. rewrite nlen_length in Hle. lia. }
  assert (Hlctl: length ctl = length steps).
  { pose proof (w_len _ _ _ Hw) as Hl. rewrite EC in Hl. cbn [length] in Hl. lia. }
  pose proof (w_empty _ _ _ Hw) as Hemp. rewrite EC in Hemp. cbn [tl] in Hemp.
  destruct (header_parse steps ss Hidx steps pre st st1 hdr 1%nat ctl (concat (c0 :: ctl) ++ s) k
              Hutf ltac:(rewrite EC; reflexivity) Hlctl Hemp Epre Ehdr) as (P1 & P2 & P3).
  (* the reader *)
  unfold ad_open. cbn [app a_ops d_rd]. rewrite a_r_u8. cbn [bind].
  assert (version_of steps =? 0 = false) as -> by lia.
  unfold ad_new.
  assert (N.to_nat (version_of steps) = length steps) as -> by (unfold version_of; lia).
  replace ((write_var_i32 (Z.of_N (nlen c0)) ++ hdr ++ concat (c0 :: ctl)) ++ s)
    with ((write_var_i32 (Z.of_N (nlen c0)) ++ hdr) ++ concat (c0 :: ctl) ++ s)
    by (repeat rewrite <- app_assoc; reflexivity).
  rewrite (dec_ssteps_cons _ _ _ _ _ _ _ _ _ _ (dec_size c0 _ k st ltac:(lia)) P1).
  cbn [bind].
  rewrite (take_chunks_ok _ (c0 :: ctl)
             (Forall2_cons _ _ (size_sstep_ok c0 ltac:(lia)) P2) 0 s k st1).
  cbn [bind].
  set (xs := size_sstep c0 :: steps_ssteps (ss_idx ss) steps ctl).
  assert (Hmo: forall c p, In (c, p) (mo_of xs) ->
            exists n, In (n, (c, p)) (ss_idx ss) /\ In (SMadeOptional n) steps).
  { intros c p Hin. unfold xs, size_sstep in Hin.
    assert (Hin': In (c, p) (mo_of (steps_ssteps (ss_idx ss) steps ctl)))
      by (destruct (nlen c0 =? 0); exact Hin).
    destruct (mo_of_steps _ _ _ _ _ Hin') as (n & Hn & Ha).
    exists n. split; [apply assoc_name_in; exact Ha | exact Hn]. }
  assert (Hrem: forall n, In n (rem_of xs) -> in_removed steps n = true).
  { intros n Hin. unfold xs, size_sstep in Hin.
    assert (Hin': In n (rem_of (steps_ssteps (ss_idx ss) steps ctl)))
      by (destruct (nlen c0 =? 0); exact Hin).
    eapply rem_of_steps; [exact P3 | auto | exact Hin']. }
  assert (Hlast: forall i, (i < length D)%nat ->
            nth_error (repeat (-1)%Z (Datatypes.S (length steps))) i
            = Some (lastZ [] (N.of_nat i))).
  { intros i Hi. unfold lastZ. cbn [assoc_N]. apply nth_error_repeat. lia. }
  destruct (Hrd (repeat [] (length D)) _ None (mo_of xs) (rem_of xs) s k
              (repeat_length _ _) Hlast Hmo Hrem) as [ad' Had'].
  rewrite zipapp_nil_r in Had' by reflexivity. rewrite <- HD in Had'.
  rewrite Had'. reflexivity.
Qed.

Print Assumptions rt_record_chunked.
