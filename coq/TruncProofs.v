(* TruncProofs.v — "truncated data is always detected" on layer A, with the suffix
   independence it rests on: a successful decode does not look at, and does not depend on,
   the bytes (or the region stack) beyond the part of the current bytes it consumed, and
   cutting the input anywhere inside the consumed part makes the decoder return Err (never
   Ok, never Panic, never Fuel).

   The statements do not need the well-formedness hypotheses (they are kept in the two
   final theorems for uniformity with TotalProofs.v; they are not used). *)
From Coq Require Import NArith ZArith List Lia Bool.
From Coq Require Import ZifyBool ZifyN ZifyNat.
From Desert Require Import Bits Outcome IO IOProofs Types Calendar Codec CodecWf TotalProofs.
Import ListNotations.
Open Scope N_scope.

Ltac Zify.zify_post_hook ::= Z.div_mod_to_equations.

(* ------------------------------------------------------------------ *)
(* list helpers                                                         *)

Lemma ntake_app_l {A} j (c1 c2 : list A) : j <= nlen c1 -> ntake j (c1 ++ c2) = ntake j c1.
Proof.
  unfold ntake. rewrite nlen_length. intros H. rewrite firstn_app.
  replace (N.to_nat j - length c1)%nat with 0%nat by lia.
  cbn [firstn]. apply app_nil_r.
Qed.

Lemma ntake_app_r {A} j (c1 c2 : list A) :
  nlen c1 <= j -> ntake j (c1 ++ c2) = c1 ++ ntake (j - nlen c1) c2.
Proof.
  unfold ntake. rewrite nlen_length. intros H. rewrite firstn_app.
  rewrite firstn_all2 by lia. f_equal. f_equal. lia.
Qed.

(* ------------------------------------------------------------------ *)
(* the predicate                                                        *)

Definition stable {A} (d : astate -> outcome (A * astate)) : Prop :=
  forall cur k st a s', d (mkA cur k st) = Ok (a, s') ->
    exists c r st', cur = c ++ r /\ s' = mkA r k st' /\
      (forall r2 k2, d (mkA (c ++ r2) k2 st) = Ok (a, mkA r2 k2 st')) /\
      (forall j k2, j < nlen c -> is_err (d (mkA (ntake j c) k2 st)) = true).

Lemma stable_ext {A} (d d' : astate -> outcome (A * astate)) :
  (forall s, d s = d' s) -> stable d -> stable d'.
Proof.
  intros He Hd cur k st a s' H. rewrite <- He in H.
  destruct (Hd _ _ _ _ _ H) as (c & r & st' & H1 & H2 & H3 & H4).
  exists c, r, st'. split; [exact H1 | split; [exact H2 | split]].
  - intros r2 k2. rewrite <- He. apply H3.
  - intros j k2 Hj. rewrite <- He. apply H4. exact Hj.
Qed.

(* bind, with the error possibly renamed (dec_seq_items does that) *)
Definition obindE {A B} (h : err -> err) (m : outcome A) (k : A -> outcome B) : outcome B :=
  match m with Ok a => k a | Err e => Err (h e) | Panic p => Panic p | Fuel => Fuel end.

Lemma stable_bindE {A B} (h : err -> err) (d : astate -> outcome (A * astate))
    (k : A * astate -> outcome (B * astate)) :
  stable d -> (forall a, stable (fun s => k (a, s))) -> stable (fun s => obindE h (d s) k).
Proof.
  intros Hd Hk cur k0 st b s'' H.
  destruct (d (mkA cur k0 st)) as [[a s1] | e | p | ] eqn:Ed; cbn [obindE] in H; try discriminate.
  destruct (Hd _ _ _ _ _ Ed) as (c1 & r1 & st1 & Hcur & Hs1 & Hsuf1 & Htr1).
  subst s1.
  destruct (Hk a _ _ _ _ _ H) as (c2 & r & st2 & Hr1 & Hs'' & Hsuf2 & Htr2).
  exists (c1 ++ c2), r, st2. split; [| split; [| split]].
  - subst cur r1. apply app_assoc.
  - exact Hs''.
  - intros r2 k2. rewrite <- app_assoc. rewrite Hsuf1. cbn [obindE]. apply Hsuf2.
  - intros j k2 Hj. rewrite nlen_app in Hj.
    destruct (j <? nlen c1) eqn:Hlt.
    + rewrite ntake_app_l by lia.
      assert (Hlt' : j < nlen c1) by lia.
      specialize (Htr1 j k2 Hlt').
      destruct (d (mkA (ntake j c1) k2 st)) as [x | e | p | ]; cbn [is_err] in Htr1; try discriminate.
      reflexivity.
    + rewrite ntake_app_r by lia. rewrite Hsuf1. cbn [obindE]. apply Htr2. lia.
Qed.

Lemma stable_bind {A B} (d : astate -> outcome (A * astate))
    (k : A * astate -> outcome (B * astate)) :
  stable d -> (forall a, stable (fun s => k (a, s))) -> stable (fun s => bind (d s) k).
Proof. intros Hd Hk. exact (stable_bindE (fun e => e) d k Hd Hk). Qed.

Lemma stable_ret {A} (a : A) : stable (fun s => Ok (a, s)).
Proof.
  intros cur k st a' s' H. injection H as <- <-.
  exists [], cur, st. split; [reflexivity | split; [reflexivity | split]].
  - intros r2 k2. reflexivity.
  - intros j k2 Hj. cbn [nlen] in Hj. lia.
Qed.

Lemma stable_err {A} e : stable (fun _ => @Err (A * astate) e).
Proof. intros cur k st a s' H. discriminate H. Qed.

Lemma stable_panic {A} p : stable (fun _ => @Panic (A * astate) p).
Proof. intros cur k st a s' H. discriminate H. Qed.

Lemma stable_fuel {A} : stable (fun _ => @Fuel (A * astate)).
Proof. intros cur k st a s' H. discriminate H. Qed.

(* ------------------------------------------------------------------ *)
(* primitive reads                                                      *)

Lemma r_u8_stable : stable (r_u8 a_reader).
Proof.
  intros cur k st a s' H. aops. cbn [a_reader r_u8 list_reader a_cur] in H.
  destruct cur as [| b r]; cbn [bind] in H; [discriminate|].
  unfold a_with_cur in H. cbn [a_stack a_strs] in H. injection H as <- <-.
  exists [b], r, st. split; [reflexivity | split; [reflexivity | split]].
  - intros r2 k2. reflexivity.
  - intros j k2 Hj. cbn [nlen] in Hj. assert (j = 0) by lia. subst j. reflexivity.
Qed.

(* reading a fixed number of bytes *)
Lemma take_stable {A} (n : N) (f : bytes -> A) :
  stable (fun s => if n <=? nlen (a_cur s)
                   then Ok (f (ntake n (a_cur s)), a_with_cur s (ndrop n (a_cur s)))
                   else Err EInputEnded).
Proof.
  intros cur k st a s' H. cbn [a_cur] in H.
  destruct (n <=? nlen cur) eqn:Hn; [| discriminate].
  unfold a_with_cur in H. cbn [a_stack a_strs] in H. injection H as <- <-.
  assert (Hl : nlen (ntake n cur) = n) by (apply nlen_ntake; lia).
  exists (ntake n cur), (ndrop n cur), st.
  split; [symmetry; apply ntake_ndrop_app | split; [reflexivity | split]].
  - intros r2 k2. cbn [a_cur]. rewrite nlen_app, Hl.
    destruct (n <=? n + nlen r2) eqn:Hn2; [| lia].
    unfold a_with_cur. cbn [a_stack a_strs].
    rewrite <- Hl at 1 3. rewrite ntake_app_exact, ndrop_app_exact. reflexivity.
  - intros j k2 Hj. cbn [a_cur]. rewrite Hl in Hj.
    rewrite nlen_ntake by lia.
    destruct (n <=? j) eqn:Hn2; [lia | reflexivity].
Qed.

Lemma r_bytes_stable n : stable (r_bytes a_reader n).
Proof.
  eapply stable_ext; [| apply (take_stable n (fun bs => bs))].
  intros s. aops. destruct (n <=? nlen (a_cur s)); reflexivity.
Qed.

Lemma r_skip_stable n : stable (r_skip a_reader n).
Proof.
  eapply stable_ext; [| apply (take_stable n (fun _ => tt))].
  intros s. aops. destruct (n <=? nlen (a_cur s)); reflexivity.
Qed.

Lemma d_take_stable n : stable (d_take a_ops n).
Proof.
  eapply stable_ext; [| apply (take_stable n (fun bs => bs))].
  intros s. reflexivity.
Qed.

(* one step: a bind whose first computation is handled by tactic L *)
Ltac sbind L := apply stable_bind; [ L | ].
Ltac seta := match goal with |- stable ?d => change (stable (fun s => d s)) end.

Lemma read_be_stable k : stable (read_be a_reader k).
Proof.
  unfold read_be. sbind ltac:(apply r_bytes_stable). intros bs. cbv beta iota. apply stable_ret.
Qed.

Lemma read_i8_stable : stable (read_i8 a_reader).
Proof.
  unfold read_i8. sbind ltac:(apply r_u8_stable). intros b. cbv beta iota. apply stable_ret.
Qed.

Lemma read_signed_stable k bits : stable (read_signed a_reader k bits).
Proof.
  unfold read_signed. sbind ltac:(apply read_be_stable). intros b. cbv beta iota. apply stable_ret.
Qed.

Lemma read_var_u32_stable : stable (read_var_u32 a_reader).
Proof.
  unfold read_var_u32.
  sbind ltac:(apply r_u8_stable). intros b1. cbv beta iota zeta.
  destruct (N.land b1 128 =? 0); [apply stable_ret|].
  sbind ltac:(apply r_u8_stable). intros b2. cbv beta iota zeta.
  destruct (N.land b2 128 =? 0); [apply stable_ret|].
  sbind ltac:(apply r_u8_stable). intros b3. cbv beta iota zeta.
  destruct (N.land b3 128 =? 0); [apply stable_ret|].
  sbind ltac:(apply r_u8_stable). intros b4. cbv beta iota zeta.
  destruct (N.land b4 128 =? 0); [apply stable_ret|].
  sbind ltac:(apply r_u8_stable). intros b5. cbv beta iota zeta.
  apply stable_ret.
Qed.

Lemma read_var_i32_stable : stable (read_var_i32 a_reader).
Proof.
  unfold read_var_i32. sbind ltac:(apply read_var_u32_stable). intros r. cbv beta iota.
  apply stable_ret.
Qed.

Lemma dec_utf8_stable bs : stable (@dec_utf8 astate bs).
Proof.
  seta. unfold dec_utf8. destruct (utf8_valid bs); [apply stable_ret | apply stable_err].
Qed.

Lemma dec_string_stable : stable (dec_string a_ops).
Proof.
  unfold dec_string.
  sbind ltac:(apply read_var_i32_stable). intros id. cbv beta iota.
  sbind ltac:(apply r_bytes_stable). intros bs. cbv beta iota.
  apply dec_utf8_stable.
Qed.

(* storing a string: only the table changes *)
Lemma str_store_stable {A} (a : A) bs : stable (fun s => Ok (a, d_str_store a_ops bs s)).
Proof.
  intros cur k st a' s' H. aops. cbn [d_str_store a_ops a_cur a_stack a_strs] in H.
  injection H as <- <-.
  exists [], cur, (str_store bs st). split; [reflexivity | split; [reflexivity | split]].
  - intros r2 k2. reflexivity.
  - intros j k2 Hj. cbn [nlen] in Hj. lia.
Qed.

(* looking a string up: depends on the table only *)
Lemma str_get_stable id :
  stable (fun s => match d_str_get a_ops s id with
                   | Some bs => Ok (VB bs, s)
                   | None => Err (EInvalidStringId id)
                   end).
Proof.
  intros cur k st a s' H. cbn [d_str_get a_ops a_strs] in H.
  destruct (str_get st id) as [bs |] eqn:Hg; [| discriminate]. injection H as <- <-.
  exists [], cur, st. split; [reflexivity | split; [reflexivity | split]].
  - intros r2 k2. cbn [d_str_get a_ops a_strs]. rewrite Hg. reflexivity.
  - intros j k2 Hj. cbn [nlen] in Hj. lia.
Qed.

Lemma dec_dedup_stable : stable (dec_dedup a_ops).
Proof.
  unfold dec_dedup.
  sbind ltac:(apply read_var_i32_stable). intros c. cbv beta iota.
  destruct (c <? 0)%Z.
  - destruct (c =? - 2 ^ 31)%Z; [apply stable_err|]. apply str_get_stable.
  - sbind ltac:(apply r_bytes_stable). intros bs. cbv beta iota.
    sbind ltac:(apply dec_utf8_stable). intros v. cbv beta iota.
    apply str_store_stable.
Qed.

Lemma dec_bytes_stable : stable (dec_bytes a_ops).
Proof.
  unfold dec_bytes.
  sbind ltac:(apply read_var_u32_stable). intros len. cbv beta iota.
  sbind ltac:(apply r_bytes_stable). intros bs. cbv beta iota.
  apply stable_ret.
Qed.

(* --- features/chrono.rs helpers --- *)
Lemma dec_small_stable lo hi : stable (dec_small a_ops lo hi).
Proof.
  unfold dec_small.
  sbind ltac:(apply read_i8_stable). intros z. cbv beta iota.
  destruct (_ && _); [apply stable_ret | apply stable_err].
Qed.

Lemma dec_offset_stable : stable (dec_offset a_ops).
Proof.
  unfold dec_offset.
  sbind ltac:(apply r_u8_stable). intros t. cbv beta iota.
  destruct (t =? 0); [|apply stable_err].
  sbind ltac:(apply read_var_i32_stable). intros z. cbv beta iota.
  destruct (valid_offset z); [apply stable_ret | apply stable_err].
Qed.

Lemma dec_tz_stable : stable (dec_tz a_ops).
Proof.
  unfold dec_tz.
  sbind ltac:(apply r_u8_stable). intros t. cbv beta iota.
  destruct (t =? 1); [|apply stable_err].
  sbind ltac:(apply dec_string_stable). intros v. cbv beta iota.
  destruct v; try apply stable_err.
  destruct (tz_known bs); [apply stable_ret | apply stable_err].
Qed.

Lemma dec_ndate_stable : stable (dec_ndate a_ops).
Proof.
  unfold dec_ndate.
  sbind ltac:(apply read_var_u32_stable). intros y. cbv beta iota.
  sbind ltac:(apply r_u8_stable). intros m. cbv beta iota.
  sbind ltac:(apply r_u8_stable). intros d. cbv beta iota zeta.
  destruct (valid_ymd _ m d); [apply stable_ret | apply stable_err].
Qed.

Lemma dec_ntime_stable : stable (dec_ntime a_ops).
Proof.
  unfold dec_ntime.
  sbind ltac:(apply r_u8_stable). intros h. cbv beta iota.
  sbind ltac:(apply r_u8_stable). intros mi. cbv beta iota.
  sbind ltac:(apply r_u8_stable). intros sec. cbv beta iota.
  sbind ltac:(apply read_var_u32_stable). intros ns. cbv beta iota.
  destruct (valid_hmsn h mi sec ns); [apply stable_ret | apply stable_err].
Qed.

Lemma dec_ndt_stable : stable (dec_ndt a_ops).
Proof.
  unfold dec_ndt.
  sbind ltac:(apply dec_ndate_stable). intros d. cbv beta iota.
  sbind ltac:(apply dec_ntime_stable). intros t. cbv beta iota.
  apply stable_ret.
Qed.

Lemma dec_prim_stable p : stable (dec_prim a_ops p).
Proof.
  seta. destruct p; unfold dec_prim; try apply stable_err.
  all: try first [ apply dec_small_stable | apply dec_offset_stable | apply dec_tz_stable
                 | apply dec_ndate_stable | apply dec_ntime_stable | apply dec_ndt_stable ].
  all: try (sbind ltac:(first [ apply r_u8_stable | apply read_i8_stable | apply read_be_stable
                               | apply read_signed_stable | apply r_bytes_stable ]);
            intros x; cbv beta iota; try apply stable_ret).
  - apply stable_ret.
  - destruct (in_range 55296 57343 x); [apply stable_err | apply stable_ret].
  - apply dec_string_stable.
  - apply dec_dedup_stable.
  - sbind ltac:(apply read_be_stable). intros y. cbv beta iota zeta.
    destruct (_ <? _); [apply stable_ret | apply stable_err].
  - apply dec_bytes_stable.
  - sbind ltac:(apply dec_bytes_stable). intros v. cbv beta iota.
    destruct v; try apply stable_err. apply stable_ret.
  - (* BigDecimal *)
    sbind ltac:(apply dec_string_stable). intros v. cbv beta iota.
    destruct v; try apply stable_err. destruct (BigDec.bd_parse bs); [apply stable_ret | apply stable_err].
  - (* DateTime<Utc> *)
    sbind ltac:(apply read_be_stable). intros y. cbv beta iota.
    destruct (valid_ts x y); [apply stable_ret | apply stable_err].
  - (* DateTime<FixedOffset> *)
    sbind ltac:(apply dec_ndt_stable). intros dt. cbv beta iota.
    sbind ltac:(apply dec_offset_stable). intros off. cbv beta iota.
    destruct off; try apply stable_err.
    destruct (valid_local_with_offset _ z); [apply stable_ret | apply stable_err].
  - (* DateTime<Tz> *)
    sbind ltac:(apply dec_ndt_stable). intros dt. cbv beta iota.
    sbind ltac:(apply dec_tz_stable). intros tz. cbv beta iota.
    apply stable_ret.
  - (* var_u32 *)
    sbind ltac:(apply read_var_u32_stable). intros n. cbv beta iota. apply stable_ret.
  - (* var_i32 *)
    sbind ltac:(apply read_var_i32_stable). intros n. cbv beta iota. apply stable_ret.
Qed.

(* ------------------------------------------------------------------ *)
(* sequences                                                            *)

Lemma dec_known_stable fuel (d : astate -> outcome (val * astate)) :
  stable d -> forall n, stable (dec_known fuel d n).
Proof.
  intros Hd. induction fuel as [| fl IH]; intros n; seta; cbn [dec_known].
  - destruct (n =? 0); [apply stable_ret | apply stable_fuel].
  - destruct (n =? 0); [apply stable_ret|].
    sbind ltac:(apply Hd). intros x. cbv beta iota.
    sbind ltac:(apply IH). intros xs. cbv beta iota. apply stable_ret.
Qed.

Lemma dec_unknown_stable fuel (d : astate -> outcome (val * astate)) :
  stable d -> stable (dec_unknown a_ops fuel d).
Proof.
  intros Hd. induction fuel as [| fl IH]; seta; cbn [dec_unknown].
  - apply stable_fuel.
  - sbind ltac:(apply r_u8_stable). intros tag. cbv beta iota.
    destruct (tag =? 0); [apply stable_ret|].
    destruct (tag =? 1); [| apply stable_err].
    sbind ltac:(apply Hd). intros x. cbv beta iota.
    sbind ltac:(apply IH). intros xs. cbv beta iota. apply stable_ret.
Qed.

Lemma dec_seq_items_stable fuel (d : astate -> outcome (val * astate)) :
  stable d -> stable (dec_seq_items a_ops fuel d).
Proof.
  intros Hd.
  apply stable_ext with
    (d := fun s => obindE (fun _ => EInputEnded) (read_var_i32 a_reader s)
                     (fun x => if (fst x =? -1)%Z then dec_unknown a_ops fuel d (snd x)
                               else if (fst x <? 0)%Z then Err EDeserializationFailure
                               else dec_known fuel d (as_usize (fst x)) (snd x))).
  - intros s. unfold dec_seq_items. change (d_rd a_ops) with a_reader.
    destruct (read_var_i32 a_reader s) as [[n s1] | e | p | ]; reflexivity.
  - apply stable_bindE; [apply read_var_i32_stable|]. intros n. cbn [fst snd].
    destruct (n =? -1)%Z; [apply dec_unknown_stable; exact Hd |].
    destruct (n <? 0)%Z; [apply stable_err | apply dec_known_stable; exact Hd].
Qed.

(* ------------------------------------------------------------------ *)
(* the AdtDeserializer                                                  *)

Lemma dec_sstep_stable : stable (dec_sstep a_ops).
Proof.
  unfold dec_sstep.
  sbind ltac:(apply read_var_i32_stable). intros code. cbv beta iota.
  destruct (code =? 0)%Z; [apply stable_ret|].
  destruct (code =? -1)%Z.
  - sbind ltac:(apply read_i8_stable). intros b. cbv beta iota.
    destruct (b <? 0)%Z; [| apply stable_ret].
    destruct (b =? -128)%Z; [apply stable_err | apply stable_ret].
  - destruct (code =? -2)%Z; [| apply stable_ret].
    sbind ltac:(apply dec_dedup_stable). intros v. cbv beta iota.
    destruct v; try apply stable_err. apply stable_ret.
Qed.

Lemma dec_ssteps_stable n : stable (dec_ssteps a_ops n).
Proof.
  induction n as [| n IH]; seta; cbn [dec_ssteps].
  - apply stable_ret.
  - sbind ltac:(apply dec_sstep_stable). intros x. cbv beta iota.
    sbind ltac:(apply IH). intros xs. cbv beta iota. apply stable_ret.
Qed.

Lemma take_chunks_stable ss : forall idx, stable (take_chunks a_ops ss idx).
Proof.
  induction ss as [| x r IH]; intros idx; seta; cbn [take_chunks].
  - apply stable_ret.
  - destruct x.
    + sbind ltac:(apply d_take_stable). intros rg. cbv beta iota.
      sbind ltac:(apply IH). intros [[inputs mo] rem]. cbv beta iota. apply stable_ret.
    + sbind ltac:(apply IH). intros [[inputs mo] rem]. cbv beta iota. apply stable_ret.
    + sbind ltac:(apply IH). intros [[inputs mo] rem]. cbv beta iota. apply stable_ret.
    + sbind ltac:(apply IH). intros [[inputs mo] rem]. cbv beta iota. apply stable_ret.
Qed.

Lemma ad_new_stable steps stored : stable (ad_new a_ops steps stored).
Proof.
  unfold ad_new.
  sbind ltac:(apply dec_ssteps_stable). intros ss. cbv beta iota.
  sbind ltac:(apply take_chunks_stable). intros [[inputs mo] rem]. cbv beta iota.
  apply stable_ret.
Qed.

Lemma ad_open_stable steps : stable (ad_open a_ops steps).
Proof.
  unfold ad_open.
  sbind ltac:(apply r_u8_stable). intros stored. cbv beta iota.
  destruct (stored =? 0); [apply stable_ret | apply ad_new_stable].
Qed.

(* the body runs on the chunk, which does not depend on the outer current bytes at all:
   in_chunk consumes nothing of them; the body's own frame property (part of `stable`)
   brings the stack back so that d_pop restores them *)
Lemma in_chunk_stable {A} ad chunk (body : astate -> outcome (A * astate)) :
  stable body -> stable (in_chunk a_ops ad chunk body).
Proof.
  intros Hb. seta. unfold in_chunk.
  destruct (ad_inputs ad) as [| i0 ir] eqn:Hi.
  - sbind ltac:(apply Hb). intros a. cbv beta iota. apply stable_ret.
  - rewrite <- Hi. clear Hi i0 ir.
    destruct (nth_error (ad_inputs ad) (N.to_nat chunk)) as [rg |]; [| apply stable_panic].
    intros cur k st x s'' H.
    cbn [d_push a_ops bind a_cur a_stack a_strs] in H.
    destruct (body (mkA rg (cur :: k) st)) as [[a s1] | e | p | ] eqn:Eb; cbn [bind] in H;
      try discriminate.
    destruct (Hb _ _ _ _ _ Eb) as (c & r & st1 & Hrg & Hs1 & Hsuf & _).
    subst s1. cbn [d_pop a_ops a_stack a_cur a_strs bind] in H.
    injection H as <- <-.
    exists [], cur, st1. split; [reflexivity | split; [reflexivity | split]].
    + intros r2 k2. cbn [app d_push a_ops bind a_cur a_stack a_strs].
      rewrite Hrg. rewrite Hsuf. cbn [bind d_pop a_ops a_stack a_cur a_strs]. reflexivity.
    + intros j k2 Hj. cbn [nlen] in Hj. lia.
Qed.

Lemma read_field_stable steps (d : astate -> outcome (val * astate)) n dflt ad :
  stable d -> stable (read_field a_ops steps d n dflt ad).
Proof.
  intros Hd. seta. unfold read_field.
  destruct (mem_name n (ad_removed ad)); [apply stable_err|]. cbv zeta.
  destruct (ad_record_index ad _) as [[fp ad'] | e | p | ]; cbn [bind];
    [| apply stable_err | apply stable_panic | apply stable_fuel].
  cbv beta iota.
  destruct (ad_stored ad' <? _).
  - destruct dflt; [apply stable_ret | apply stable_err].
  - apply in_chunk_stable.
    destruct (mem_pos fp (ad_mo ad')); [| seta; apply Hd].
    sbind ltac:(apply r_u8_stable). intros b. cbv beta iota.
    destruct (b =? 0); [apply stable_err | apply Hd].
Qed.

Lemma read_optional_field_stable steps (d : astate -> outcome (val * astate)) n dflt ad :
  stable d -> stable (read_optional_field a_ops steps d n dflt ad).
Proof.
  intros Hd. seta. unfold read_optional_field.
  destruct (mem_name n (ad_removed ad)); [apply stable_ret|]. cbv zeta.
  destruct (ad_record_index ad _) as [[fp ad'] | e | p | ]; cbn [bind];
    [| apply stable_err | apply stable_panic | apply stable_fuel].
  cbv beta iota.
  destruct (ad_stored ad' <? match field_generation steps n with Some c => c | None => 0 end).
  - destruct dflt; [apply stable_ret | apply stable_err].
  - apply in_chunk_stable.
    destruct (ad_stored ad' <? _).
    + sbind ltac:(apply Hd). intros x. cbv beta iota. apply stable_ret.
    + sbind ltac:(apply r_u8_stable). intros tag. cbv beta iota.
      destruct (tag =? 0); [apply stable_ret|].
      destruct (tag =? 1); [| apply stable_err].
      sbind ltac:(apply Hd). intros x. cbv beta iota. apply stable_ret.
Qed.

(* ------------------------------------------------------------------ *)
(* records                                                              *)

Lemma read_fields_stable (decf : ty -> astate -> outcome (val * astate)) steps :
  (forall t, stable (decf t)) ->
  forall fs ad, stable (read_fields a_ops decf steps fs ad).
Proof.
  intros Hdec. induction fs as [| f r IH]; intros ad; seta; cbn [read_fields].
  - apply stable_ret.
  - assert (Hk : forall a : val * adt_de,
               stable (fun s => (fun x : val * adt_de * astate =>
                                   let '(v, ad0, s0) := x in
                                   '(vs, ad1, s1) <- read_fields a_ops decf steps r ad0 s0 ;;
                                   Ok (v :: vs, ad1, s1)) (a, s))).
    { intros [v ad1]. cbv beta iota.
      sbind ltac:(apply IH). intros [vs ad2]. cbv beta iota. apply stable_ret. }
    destruct (f_transient f) as [dflt |].
    + cbn [bind]. apply (Hk (dflt, ad)).
    + cbv zeta. destruct (f_opt f).
      * destruct (f_ty f) as [ | t' | | | | | | | ]; cbn [bind]; try apply stable_err.
        apply stable_bind; [| exact Hk]. apply read_optional_field_stable. apply Hdec.
      * apply stable_bind; [| exact Hk]. apply read_field_stable. apply Hdec.
Qed.

Lemma dec_record_stable (decf : ty -> astate -> outcome (val * astate)) m :
  (forall t, stable (decf t)) -> stable (dec_record a_ops decf m).
Proof.
  intros Hdec. unfold dec_record.
  destruct (255 <=? version_of (r_steps m)); [apply stable_panic|].
  sbind ltac:(apply ad_open_stable). intros ad. cbv beta iota.
  sbind ltac:(apply read_fields_stable; exact Hdec). intros [vs ad2]. cbv beta iota.
  apply stable_ret.
Qed.

(* ------------------------------------------------------------------ *)
(* enums                                                                *)

Lemma read_ctor_idx_stable ad : stable (read_ctor_idx a_ops ad).
Proof.
  seta. unfold read_ctor_idx. destruct (ad_ctor ad) as [i |].
  - apply stable_ret.
  - sbind ltac:(apply in_chunk_stable; apply read_var_u32_stable).
    intros [i ad1]. cbv beta iota. apply stable_ret.
Qed.

Lemma read_cases_stable (decf : ty -> astate -> outcome (val * astate)) tyname :
  (forall t, stable (decf t)) ->
  forall cs idx ad, stable (read_cases a_ops decf tyname cs idx ad).
Proof.
  intros Hdec. induction cs as [| [decl_idx var] r IH]; intros idx ad; seta; cbn [read_cases].
  - sbind ltac:(apply read_ctor_idx_stable). intros [i ad1]. cbv beta iota. apply stable_err.
  - sbind ltac:(apply read_ctor_idx_stable). intros [i ad1]. cbv beta iota.
    destruct (i =? idx).
    + destruct (v_transient var); [apply stable_err|].
      sbind ltac:(apply in_chunk_stable; apply dec_record_stable; exact Hdec).
      intros [v ad2]. cbv beta iota. destruct v; try apply stable_err. apply stable_ret.
    + apply IH.
Qed.

Lemma dec_enum_stable (decf : ty -> astate -> outcome (val * astate)) tyname m :
  (forall t, stable (decf t)) -> stable (dec_enum a_ops decf tyname m).
Proof.
  intros Hdec. unfold dec_enum.
  sbind ltac:(apply ad_open_stable). intros ad. cbv beta iota.
  apply read_cases_stable. exact Hdec.
Qed.

(* ------------------------------------------------------------------ *)
(* the decoder                                                          *)

Theorem decA_stable : forall f E t, stable (dec a_ops f E t).
Proof.
  intros f E. induction f as [| f IH]; intros t; seta; cbn [dec]; [apply stable_fuel|].
  destruct t as [p | t' | r e | ts | k e | k kt vt | w t' | | n].
  - apply dec_prim_stable.
  - sbind ltac:(apply r_u8_stable). intros tag. cbv beta iota.
    destruct (tag =? 0); [apply stable_ret|]. destruct (tag =? 1); [| apply stable_err].
    sbind ltac:(apply IH). intros x. cbv beta iota. apply stable_ret.
  - sbind ltac:(apply r_u8_stable). intros tag. cbv beta iota.
    destruct (tag =? 0).
    { sbind ltac:(apply IH). intros x. cbv beta iota. apply stable_ret. }
    destruct (tag =? 1); [| apply stable_err].
    sbind ltac:(apply IH). intros x. cbv beta iota. apply stable_ret.
  - apply dec_record_stable. exact IH.
  - destruct (byte_path k e).
    + sbind ltac:(apply dec_bytes_stable). intros v. cbv beta iota.
      destruct k; try apply stable_ret. destruct v; try apply stable_ret.
      destruct (_ =? _); [apply stable_ret | apply stable_err].
    + sbind ltac:(apply dec_seq_items_stable; apply IH). intros items. cbv beta iota.
      destruct (collect k items) as [v | er | p | ]; cbn [bind];
        [apply stable_ret | apply stable_err | apply stable_panic | apply stable_fuel].
  - sbind ltac:(apply dec_seq_items_stable; apply IH). intros items. cbv beta iota.
    apply stable_ret.
  - apply IH.
  - apply stable_ret.
  - destruct (lookup_decl E n) as [d |]; [| apply stable_err].
    destruct (d_body d) as [m | m].
    + apply dec_record_stable. exact IH.
    + apply dec_enum_stable. exact IH.
Qed.

(* ------------------------------------------------------------------ *)
(* the two properties                                                   *)

Lemma decA_consumed : forall f E t c r k st v st',
  dec a_ops f E t (mkA (c ++ r) k st) = Ok (v, mkA r k st') ->
  (forall r2 k2, dec a_ops f E t (mkA (c ++ r2) k2 st) = Ok (v, mkA r2 k2 st')) /\
  (forall j k2, j < nlen c -> is_err (dec a_ops f E t (mkA (ntake j c) k2 st)) = true).
Proof.
  intros f E t c r k st v st' H.
  destruct (decA_stable f E t _ _ _ _ _ H) as (c0 & r0 & st0 & Hcur & Hs & Hsuf & Htr).
  injection Hs as <- <-. apply app_inv_tail in Hcur. subst c0. split; assumption.
Qed.

(* (1) suffix independence: a successful decode does not depend on the bytes after the
   part it consumed *)
Theorem decA_suffix : forall f E t c r k st v st',
  wf_env E = true -> wf_ty E t = true ->
  dec a_ops f E t (mkA (c ++ r) k st) = Ok (v, mkA r k st') ->
  forall r2, dec a_ops f E t (mkA (c ++ r2) k st) = Ok (v, mkA r2 k st').
Proof.
  intros f E t c r k st v st' _ _ H r2. apply (proj1 (decA_consumed _ _ _ _ _ _ _ _ _ H)).
Qed.

(* (2) truncation: cutting inside the consumed part is an error (not Ok, not Panic, not Fuel) *)
Theorem decA_truncated : forall f E t c r k st v st',
  wf_env E = true -> wf_ty E t = true ->
  dec a_ops f E t (mkA (c ++ r) k st) = Ok (v, mkA r k st') ->
  forall j, j < nlen c -> is_err (dec a_ops f E t (mkA (ntake j c) k st)) = true.
Proof.
  intros f E t c r k st v st' _ _ H j Hj. apply (proj2 (decA_consumed _ _ _ _ _ _ _ _ _ H)). exact Hj.
Qed.

Print Assumptions decA_suffix.
Print Assumptions decA_truncated.
