(* BigDec.v — what the bigdecimal crate (0.4.6, default build constants) renders and parses,
   written out.  desert writes a BigDecimal as the String of `to_string()` and reads it back with
   `str::parse`; this file transcribes those two functions for the case desert uses them in (no
   width / precision flags):
     impl_fmt.rs   dynamically_format_decimal, format_full_scale, format_exponential,
                   format_dotless_exponential, zero_right_pad_integer_ascii_digits,
                   format_ascii_digits_with_integer_and_fraction, format_ascii_digits_no_integer
                   (EXPONENTIAL_FORMAT_LEADING_ZERO_THRESHOLD = 5, .._TRAILING_ZERO_THRESHOLD = 15)
     impl_num.rs   Num::from_str_radix (radix 10)
     num-bigint    BigInt::from_str_radix, BigUint::from_str_radix (sign, '+', underscores)
     core          i128::from_str
   A BigDecimal is (int_val : Z, scale : Z) with scale an i64; its value is int_val * 10^(-scale).
   Definitions only. *)
From Coq Require Import NArith ZArith List Bool DecimalN.
From Desert Require Import Outcome.
Import ListNotations.
Open Scope Z_scope.

(* ---- decimal digits -------------------------------------------------------------------- *)

Fixpoint uint_bytes (d : Decimal.uint) : bytes :=
  match d with
  | Decimal.Nil => []
  | Decimal.D0 d => 48%N :: uint_bytes d
  | Decimal.D1 d => 49%N :: uint_bytes d
  | Decimal.D2 d => 50%N :: uint_bytes d
  | Decimal.D3 d => 51%N :: uint_bytes d
  | Decimal.D4 d => 52%N :: uint_bytes d
  | Decimal.D5 d => 53%N :: uint_bytes d
  | Decimal.D6 d => 54%N :: uint_bytes d
  | Decimal.D7 d => 55%N :: uint_bytes d
  | Decimal.D8 d => 56%N :: uint_bytes d
  | Decimal.D9 d => 57%N :: uint_bytes d
  end.

(* BigUint::to_str_radix(10): most significant digit first, "0" for zero *)
Definition digits_of (n : N) : bytes := uint_bytes (N.to_uint n).

Definition c_plus : N := 43.   Definition c_minus : N := 45.   Definition c_dot : N := 46.
Definition c_E : N := 69.      Definition c_e : N := 101.      Definition c_us : N := 95.
Definition c_0 : N := 48.

Definition is_digit (b : N) : bool := ((48 <=? b) && (b <=? 57))%N.

(* `{:+}` of an integer: the sign always printed *)
Definition signed_plus (z : Z) : bytes :=
  (if z <? 0 then c_minus else c_plus) :: digits_of (Z.abs_N z).

Definition zeros (n : Z) : bytes := repeat c_0 (Z.to_nat n).

Definition i64_min : Z := - 2 ^ 63.
Definition i64_max : Z := 2 ^ 63 - 1.
Definition is_i64 (z : Z) : bool := (i64_min <=? z) && (z <=? i64_max).

(* ---- rendering: BigDecimal::to_string ---------------------------------------------------- *)

Definition bd_render (i s : Z) : bytes :=
  let a := digits_of (Z.abs_N i) in
  let len := Z.of_nat (length a) in
  (* zeros between the decimal point and the first digit *)
  let lead0 := if (0 <=? s) && (len <=? s) then s - len else 0 in
  (* scale.checked_neg().and_then(to_u64): None for i64::MIN and for positive scales *)
  let trail0 := if (s <=? 0) && negb (s =? i64_min) then - s else 0 in
  let body :=
    if 5 <? lead0 then
      (* format_exponential: d[.ddd]E{len - scale - 1} *)
      (match a with
       | d :: (_ :: _) as r => d :: c_dot :: r
       | _ => a
       end) ++ c_E :: signed_plus (len - s - 1)
    else if 15 <? trail0 then
      (* format_dotless_exponential *)
      a ++ c_e :: signed_plus (- s)
    else if s <=? 0 then
      (* format_full_scale, integer: right-pad with zeros unless more than 20 are needed *)
      if 20 <? - s then a ++ c_e :: signed_plus (- s) else a ++ zeros (- s)
    else if s <? len then
      firstn (Z.to_nat (len - s)) a ++ c_dot :: skipn (Z.to_nat (len - s)) a
    else
      c_0 :: c_dot :: zeros (s - len) ++ a
  in
  if i <? 0 then c_minus :: body else body.

(* ---- parsing: str::parse::<BigDecimal> --------------------------------------------------- *)

(* the digit loop of BigUint::from_str_radix at radix 10: digits accumulate, '_' is skipped *)
Fixpoint parse_digits (bs : bytes) (acc : N) : option N :=
  match bs with
  | [] => Some acc
  | b :: r =>
      if (b =? c_us)%N then parse_digits r acc
      else if is_digit b then parse_digits r (acc * 10 + (b - 48))%N
      else None
  end.

Definition starts_with (c : N) (bs : bytes) : bool :=
  match bs with b :: _ => (b =? c)%N | [] => false end.

Definition biguint_parse (s : bytes) : option N :=
  let s := match s with
           | b :: tail => if (b =? c_plus)%N && negb (starts_with c_plus tail) then tail else s
           | [] => s
           end in
  match s with
  | [] => None
  | b :: _ => if (b =? c_us)%N then None else parse_digits s 0%N
  end.

Definition bigint_parse (s : bytes) : option Z :=
  match s with
  | b :: tail =>
      if (b =? c_minus)%N then
        match biguint_parse (if starts_with c_plus tail then s else tail) with
        | Some n => Some (- Z.of_N n)
        | None => None
        end
      else option_map Z.of_N (biguint_parse s)
  | [] => option_map Z.of_N (biguint_parse s)
  end.

(* plain decimal digits, at least one (core::num: no underscores) *)
Fixpoint parse_plain (bs : bytes) (acc : N) : option N :=
  match bs with
  | [] => Some acc
  | b :: r => if is_digit b then parse_plain r (acc * 10 + (b - 48))%N else None
  end.

(* i128::from_str *)
Definition i128_parse (s : bytes) : option Z :=
  match s with
  | [] => None
  | b :: r =>
      let '(neg, ds) := if (b =? c_minus)%N then (true, r)
                        else if (b =? c_plus)%N then (false, r) else (false, s) in
      match ds with
      | [] => None
      | _ => match parse_plain ds 0%N with
             | None => None
             | Some n =>
                 let z := if neg then - Z.of_N n else Z.of_N n in
                 if (- 2 ^ 127 <=? z) && (z <? 2 ^ 127) then Some z else None
             end
      end
  end.

(* split at the first byte satisfying p: (before, after-without-that-byte) *)
Fixpoint split_at (p : N -> bool) (bs : bytes) : option (bytes * bytes) :=
  match bs with
  | [] => None
  | b :: r => if p b then Some ([], r)
              else match split_at p r with
                   | Some (x, y) => Some (b :: x, y)
                   | None => None
                   end
  end.

Definition count_non_us (bs : bytes) : Z :=
  Z.of_nat (length (filter (fun b => negb (b =? c_us)%N) bs)).

Definition bd_parse (s : bytes) : option (Z * Z) :=
  match (match split_at (fun b => (b =? c_e)%N || (b =? c_E)%N) s with
         | None => Some (s, 0)
         | Some (base, ex) => match i128_parse ex with Some e => Some (base, e) | None => None end
         end) with
  | None => None
  | Some (base, ex) =>
      match base with
      | [] => None
      | _ =>
          let '(digits, off) :=
            match split_at (fun b => (b =? c_dot)%N) base with
            | None => (base, 0)
            | Some (lead, []) => (lead, 0)
            | Some (lead, trail) => (lead ++ trail, count_non_us trail)
            end in
          let scale := off - ex in
          if is_i64 scale then
            match bigint_parse digits with
            | Some i => Some (i, scale)
            | None => None
            end
          else None
      end
  end.

(* ---- the value a BigDecimal stands for, and the representative the model keeps ---------- *)

(* Rust's equality on BigDecimal is numeric; the text keeps the scale except that integers with
   at most 15 padded zeros are printed in full.  The model keeps the representative that the text
   determines: *)
Definition bd_norm (p : Z * Z) : Z * Z :=
  let '(i, s) := p in
  if (-15 <=? s) && (s <? 0) then (i * 10 ^ (- s), 0) else (i, s).

Definition bd_normal (i s : Z) : bool := is_i64 s && negb ((-15 <=? s) && (s <? 0)).

(* numeric equality of (i1, s1) and (i2, s2): i1 * 10^(-s1) = i2 * 10^(-s2), cross-multiplied *)
Definition bd_numeq (p q : Z * Z) : Prop :=
  let '(i1, s1) := p in let '(i2, s2) := q in
  i1 * 10 ^ (Z.max s1 s2 - s1) = i2 * 10 ^ (Z.max s1 s2 - s2).
