(* C07Lemmas.v — self-delimitation across versions, as a corollary of the evolution theorem. *)
From Coq Require Import NArith ZArith List.
From Desert Require Import Outcome IO Types Codec CodecWf History RecordRt RecordChunkedSpec EvolutionSpec Evolution.
Import ListNotations.
Open Scope N_scope.

Lemma c07_cross_version :
  forall (E : env) (encf : ty -> encoder) (decf : ty -> adecoder)
         (w : ty -> val -> bool) (nv : ty -> val -> val),
    fields_neutral E encf decf w nv ->
    forall (H : history) (kw kr : nat) vw st b st' s k vs,
      legal H = true -> all_field_types_wf E H = true ->
      (kw <= length (h_steps H))%nat -> (kr <= length (h_steps H))%nat ->
      wf_fields w (r_fields (decl_at H kw)) vw = true ->
      enc_record encf (decl_at H kw) vw st = Ok (b, st') ->
      framed H kw kr = true ->
      expected H kw kr (norm_written nv (r_fields (decl_at H kw)) vw) = Ok vs ->
      exists st'',
        dec_record a_ops decf (decl_at H kr) (mkA (b ++ s) k st) = Ok (VNode 0 vs, mkA s k st'').
Proof.
  intros E encf decf w nv HN H kw kr vw st b st' s k vs HL HW Hkw Hkr Hwf Henc Hfr Hexp.
  pose proof (c03 E encf decf w nv HN H kw kr vw st b st' s k HL HW Hkw Hkr Hwf Henc) as X.
  rewrite Hexp in X. destruct X as (rest & st'' & Hd & Hf).
  rewrite (Hf Hfr) in Hd. exists st''. exact Hd.
Qed.

(* C08 across versions: every strict prefix of version-kw data is rejected by the reader of version
   kr, whenever the pair is framed and the whole record denotes a value for that reader - at the
   real codecs (enc / dec on a TNamed type), for histories whose field types leave the string
   table alone (EvolutionTop) *)
From Desert Require Import EvolutionTop TruncProofs.

Lemma c08_cross_version : forall f H kw kr nm vw st b st' k f' vs,
  legal H = true -> history_neutral H = true ->
  (kw <= length (h_steps H))%nat -> (kr <= length (h_steps H))%nat ->
  let Ew := [mkD nm (DRecord (decl_at H kw))] in
  let Er := [mkD nm (DRecord (decl_at H kr))] in
  wf_val (S f) Ew (TNamed 0) (VNode 0 vw) = true ->
  enc (S f) Ew (TNamed 0) (VNode 0 vw) st = Ok (b, st') ->
  (S f + opt_depth (decl_at H kr) <= f')%nat ->
  framed H kw kr = true -> expected H kw kr vw = Ok vs ->
  forall j, j < nlen b ->
    is_err (dec a_ops f' Er (TNamed 0) (mkA (ntake j b) k st)) = true.
Proof.
  intros f H kw kr nm vw st b st' k f' vs Hl Hn Hkw Hkr Ew Er Hv He Hf' Hfr Hex j Hj.
  pose proof (c03_top_fuel f H kw kr nm vw st b st' [] k f' Hl Hn Hkw Hkr Hv He Hf') as X.
  cbv zeta in X. rewrite Hex in X. destruct X as (rest & st'' & Hd & Hrest).
  rewrite (Hrest Hfr) in Hd.
  exact (proj2 (decA_consumed _ _ _ _ _ _ _ _ _ Hd) j k Hj).
Qed.
