(* C07Lemmas.v — self-delimitation across versions, as a corollary of the evolution theorem. *)
From Coq Require Import NArith ZArith List.
From Desert Require Import Outcome IO Types Codec CodecWf History RecordRt RecordChunkedSpec EvolutionSpec Evolution.
Import ListNotations.
Open Scope N_scope.

Lemma c07_cross_version :
  forall (E : env) (encf : ty -> encoder) (decf : ty -> adecoder)
         (w : ty -> val -> bool) (nv : ty -> val -> val),
    fields_neutral E encf decf w nv ->
    forall (H : history) (kw kr : nat) vw st b st' s k vs,
      legal H = true -> all_field_types_wf E H = true ->
      (kw <= length (h_steps H))%nat -> (kr <= length (h_steps H))%nat ->
      wf_fields w (r_fields (decl_at H kw)) vw = true ->
      enc_record encf (decl_at H kw) vw st = Ok (b, st') ->
      framed H kw kr = true ->
      expected H kw kr (norm_written nv (r_fields (decl_at H kw)) vw) = Ok vs ->
      exists st'',
        dec_record a_ops decf (decl_at H kr) (mkA (b ++ s) k st) = Ok (VNode 0 vs, mkA s k st'').
Proof.
  intros E encf decf w nv HN H kw kr vw st b st' s k vs HL HW Hkw Hkr Hwf Henc Hfr Hexp.
  pose proof (c03 E encf decf w nv HN H kw kr vw st b st' s k HL HW Hkw Hkr Hwf Henc) as X.
  rewrite Hexp in X. destruct X as (rest & st'' & Hd & Hf).
  rewrite (Hf Hfr) in Hd. exists st''. exact Hd.
Qed.
