(* AltProofs.v — round trip of the OTHER extreme encoder of the format: CodecAlt.enc_u, which
   writes every sequence outside the byte layout and every map in the unknown-length form
   (-1, then (1 item)*, then 0).  The decoder `dec` accepts that form as well; decoding what
   enc_u wrote yields the normal form of the value, exactly the suffix, and the same string
   table.  The decoder needs ONE more unit of fuel than the encoder was run with (dec_unknown
   spends one unit on reading the terminator): `dec a_ops (S f)` for `enc_u f`.

   Everything stated here is fully proved:
     norm_stable_u        normv does not depend on the fuel once enc_u succeeded
     roundtrip_U_S        decoder fuel S f
     roundtrip_U_fuel     any decoder fuel f' > f
     roundtrip_U          the existential form *)
From Coq Require Import NArith ZArith List Lia Bool.
From Coq Require Import ZifyBool ZifyN ZifyNat.
From Desert Require Import Bits Outcome IO IOProofs VarintProofs Types Codec CodecWf CodecLemmas
  CodecRt RecordRt RecordChunkedSpec RecordChunked TotalProofs MonoProofs CodecRt2 MiscProofs CodecAlt.
Import ListNotations.
Open Scope N_scope.

Ltac Zify.zify_post_hook ::= Z.div_mod_to_equations.

(* ================================================================== *)
(* one-step unfoldings of the decoder on layer A *)
Lemma decA_S_prim f E p s : dec a_ops (S f) E (TPrim p) s = dec_prim a_ops p s.
Proof. reflexivity. Qed.

Lemma decA_S_option f E t' s :
  dec a_ops (S f) E (TOption t') s =
    ('(tag, s) <- r_u8 a_reader s ;;
     if tag =? 0 then Ok (VNone, s)
     else if tag =? 1 then '(x, s) <- dec a_ops f E t' s ;; Ok (VSome x, s)
     else Err EDeserializationFailure).
Proof. reflexivity. Qed.

Lemma decA_S_result f E r e s :
  dec a_ops (S f) E (TResult r e) s =
    ('(tag, s) <- r_u8 a_reader s ;;
     if tag =? 0 then '(x, s) <- dec a_ops f E e s ;; Ok (VNode 0 [x], s)
     else if tag =? 1 then '(x, s) <- dec a_ops f E r s ;; Ok (VNode 1 [x], s)
     else Err EDeserializationFailure).
Proof. reflexivity. Qed.

Lemma decA_S_tuple f E ts s :
  dec a_ops (S f) E (TTuple ts) s = dec_record a_ops (dec a_ops f E) (tuple_meta ts) s.
Proof. reflexivity. Qed.

Lemma decA_S_seq f E k e s :
  dec a_ops (S f) E (TSeq k e) s =
    if byte_path k e then
      '(v, s) <- dec_bytes a_ops s ;;
      match k, v with
      | KArray n, VB bs => if nlen bs =? n then Ok (v, s) else Err EInputEnded
      | _, _ => Ok (v, s)
      end
    else
      '(items, s) <- dec_seq_items a_ops f (dec a_ops f E e) s ;;
      v <- collect k items ;;
      Ok (v, s).
Proof. reflexivity. Qed.

Lemma decA_S_map f E mk kt vt s :
  dec a_ops (S f) E (TMap mk kt vt) s =
    ('(items, s) <- dec_seq_items a_ops f (dec a_ops f E (TTuple [kt; vt])) s ;;
     Ok (VNode 0 (map (fun kv => VNode 0 [fst kv; snd kv]) (map_collect items [])), s)).
Proof. reflexivity. Qed.

Lemma decA_S_wrap f E wk t' s : dec a_ops (S f) E (TWrap wk t') s = dec a_ops f E t' s.
Proof. reflexivity. Qed.

Lemma decA_S_phantom f E s : dec a_ops (S f) E TPhantom s = Ok (VUnit, s).
Proof. reflexivity. Qed.

Lemma decA_S_named f E n s :
  dec a_ops (S f) E (TNamed n) s =
    match lookup_decl E n with
    | None => Err EIllTyped
    | Some d =>
        match d_body d with
        | DRecord m => dec_record a_ops (dec a_ops f E) m s
        | DEnum m => dec_enum a_ops (dec a_ops f E) (d_name d) m s
        end
    end.
Proof. reflexivity. Qed.

(* ================================================================== *)
(* every element of a sequence written in the unknown-length form was encoded *)
Lemma enc_items_flagged_each (e : encoder) : forall fuel vs st r,
  enc_items_flagged fuel e vs st = Ok r -> forall x, In x vs -> exists st1 r1, e x st1 = Ok r1.
Proof.
  induction fuel as [|fl IH]; intros vs st r He x Hx; destruct vs as [|v vs];
    try destruct Hx; try discriminate.
  - subst v. cbn [enc_items_flagged] in He.
    destruct (e x st) as [[b1 st1]| | |] eqn:E1; try discriminate. eauto.
  - cbn [enc_items_flagged] in He.
    destruct (e v st) as [[b1 st1]| | |] eqn:E1; try discriminate. cbn [bind] in He.
    destruct (enc_items_flagged fl e vs st1) as [[b2 st2]| | |] eqn:E2; try discriminate.
    eapply IH; eassumption.
Qed.

Lemma enc_seq_unknown_each (e : encoder) fuel vs st r :
  enc_seq_unknown fuel e vs st = Ok r -> forall x, In x vs -> exists st1 r1, e x st1 = Ok r1.
Proof.
  unfold enc_seq_unknown.
  destruct (enc_items_flagged fuel e vs st) as [[b1 st1]| | |] eqn:E1; try discriminate.
  intros _. eapply enc_items_flagged_each. exact E1.
Qed.

(* ================================================================== *)
(* normv at the fuel at which enc_u succeeds is already the final normal form *)
Lemma norm_stable_u : forall g g' E t v st r,
  (g <= g')%nat -> enc_u g E t v st = Ok r -> normv g' E t v = normv g E t v.
Proof.
  induction g as [|g IH]; intros g' E t v st r Hle He; [cbn [enc_u] in He; discriminate|].
  destruct g' as [|g']; [lia|]. assert (Hle' : (g <= g')%nat) by lia.
  assert (IH' : forall t v st r, enc_u g E t v st = Ok r -> normv g' E t v = normv g E t v)
    by (intros; eapply IH; eassumption).
  destruct t as [p|t'|tr te|ts|k e|mk kt vt|wk t'| |n].
  - destruct v; reflexivity.
  - destruct v as [| | |tag vs]; try reflexivity.
    destruct tag as [|[p|p|]]; try reflexivity.
    destruct vs as [|x [|y vs]]; try reflexivity.
    cbn [enc_u] in He. destruct (enc_u g E t' x st) as [[b1 st1]| | |] eqn:E1; try discriminate.
    change (normv (S g') E (TOption t') (VNode 1 [x])) with (VNode 1 [normv g' E t' x]).
    change (normv (S g) E (TOption t') (VNode 1 [x])) with (VNode 1 [normv g E t' x]).
    erewrite IH' by eassumption. reflexivity.
  - destruct v as [| | |tag vs]; try reflexivity.
    destruct tag as [|[p|p|]]; try reflexivity;
    destruct vs as [|x [|y vs]]; try reflexivity; cbn [enc_u] in He.
    + destruct (enc_u g E te x st) as [[b1 st1]| | |] eqn:E1; try discriminate.
      change (normv (S g') E (TResult tr te) (VNode 0 [x])) with (VNode 0 [normv g' E te x]).
      change (normv (S g) E (TResult tr te) (VNode 0 [x])) with (VNode 0 [normv g E te x]).
      erewrite IH' by eassumption. reflexivity.
    + destruct (enc_u g E tr x st) as [[b1 st1]| | |] eqn:E1; try discriminate.
      change (normv (S g') E (TResult tr te) (VNode 1 [x])) with (VNode 1 [normv g' E tr x]).
      change (normv (S g) E (TResult tr te) (VNode 1 [x])) with (VNode 1 [normv g E tr x]).
      erewrite IH' by eassumption. reflexivity.
  - destruct v as [| | |tag vs]; try reflexivity.
    destruct tag as [|p]; [|reflexivity].
    cbn [enc_u] in He. rewrite !normv_tuple. f_equal.
    eapply enc_record_norm_ext; [|exact He]. intros; eapply IH'; eassumption.
  - destruct v as [| | |tag vs]; try reflexivity.
    destruct tag as [|p]; [|reflexivity].
    rewrite !normv_seq. cbn [enc_u] in He. destruct (byte_path k e); [reflexivity|].
    f_equal. apply map_ext_in. intros x Hx.
    destruct (enc_seq_unknown_each _ _ _ _ _ He x Hx) as (st1 & r1 & H1). eapply IH'; exact H1.
  - destruct v as [| | |tag vs]; try reflexivity.
    destruct tag as [|p]; [|reflexivity].
    rewrite !normv_map. cbn [enc_u] in He.
    f_equal. apply map_ext_in. intros x Hx.
    destruct (enc_seq_unknown_each _ _ _ _ _ He x Hx) as (st1 & r1 & H1). eapply IH'; exact H1.
  - rewrite !normv_wrap. cbn [enc_u] in He. eapply IH'; exact He.
  - destruct v; reflexivity.
  - destruct v as [| | |tag vs]; try reflexivity.
    rewrite !normv_named. cbn [enc_u] in He.
    destruct (lookup_decl E n) as [d|]; [|reflexivity].
    destruct (d_body d) as [m|m].
    + destruct tag as [|p]; [|discriminate]. f_equal.
      eapply enc_record_norm_ext; [|exact He]. intros; eapply IH'; eassumption.
    + unfold enc_enum in He.
      destruct (case_index (cases_of m) tag 0) as [[idx var]|] eqn:Eci; [|discriminate].
      destruct (v_transient var); [discriminate|].
      destruct (2 ^ 32 <=? idx); [discriminate|].
      destruct (enc_record (enc_u g E) (v_rec var) vs st) as [[b1 st1]| | |] eqn:Er; try discriminate.
      rewrite (case_index_nth _ _ _ _ Eci). f_equal.
      eapply enc_record_norm_ext; [|exact Er]. intros; eapply IH'; eassumption.
Qed.

(* ================================================================== *)
(* the fuel induction, with the decoder one unit ahead of the encoder *)
Section RTU.
  Variable E : env.
  Hypothesis HE : wf_env E = true.
  Hypothesis HErt : wf_env_rt E = true.

  Definition RTU (g : nat) : Prop := forall f t v st b st' s k,
    (g <= f)%nat -> wf_ty E t = true -> wf_val f E t v = true ->
    enc_u g E t v st = Ok (b, st') ->
    dec a_ops (S g) E t (mkA (b ++ s) k st) = Ok (normv g E t v, mkA s k st').

  Lemma FOU g f : (g <= f)%nat -> (forall g0, (g0 <= g)%nat -> RTU g0) ->
    RecordRt.fields_ok E (enc_u g E) (dec a_ops (S g) E) (wf_val f E) (normv g E).
  Proof.
    intros Hle HRT. split.
    - intros t Ht v st b st' s k Hw He. eapply (HRT g (le_n _)); eassumption.
    - intros t' Ht' v st b st' s k Hw He.
      destruct g as [|g]; [cbn [enc_u] in He; discriminate|].
      destruct f as [|f]; [cbn [wf_val] in Hw; discriminate|].
      cbn [enc_u] in He. cbn [wf_val] in Hw.
      destruct v as [| | |tag vs]; try discriminate.
      destruct tag as [|[p|p|]]; try discriminate; destruct vs as [|x [|y vs]]; try discriminate.
      + left. apply ok_pair_inj in He as [<- <-]. split; [reflexivity|]. split; [reflexivity|].
        split; reflexivity.
      + right. destruct (enc_u g E t' x st) as [[b1 st1]| | |] eqn:E1; try discriminate.
        cbn [bind] in He. apply ok_pair_inj in He as [<- <-]. exists x, b1.
        assert (Hn: normv (S g) E t' x = normv g E t' x)
          by (eapply norm_stable_u; [|exact E1]; lia).
        split; [reflexivity|]. split; [reflexivity|]. split.
        * change (normv (S g) E (TOption t') (VNode 1 [x])) with (VSome (normv g E t' x)).
          rewrite Hn. reflexivity.
        * rewrite Hn. apply dec_mono_ok with (f := S g); [lia|].
          assert (Hg : (g <= S g)%nat) by lia.
          apply (HRT g Hg f t' x st b1 st1 s k); [lia | exact Ht' | exact Hw | exact E1].
  Qed.

  Lemma decl_wf_u n d : lookup_decl E n = Some d ->
    wf_decl E d = true /\
    match d_body d with
    | DRecord m => wf_rmeta_rt m
    | DEnum m => forallb (fun v => wf_rmeta_rt (v_rec v)) (e_variants m)
    end = true.
  Proof.
    unfold lookup_decl. intros H. apply nth_error_In in H. split.
    - unfold wf_env in HE. rewrite forallb_forall in HE. apply HE. exact H.
    - unfold wf_env_rt in HErt. rewrite forallb_forall in HErt. apply (HErt d H).
  Qed.

  Lemma rt_record_any_u g f m vs st b st' s k :
    (g <= f)%nat -> (forall g0, (g0 <= g)%nat -> RTU g0) ->
    wf_rmeta E m = true -> wf_rmeta_rt m = true ->
    wf_fields (wf_val f E) (r_fields m) vs = true ->
    enc_record (enc_u g E) m vs st = Ok (b, st') ->
    dec_record a_ops (dec a_ops (S g) E) m (mkA (b ++ s) k st)
    = Ok (VNode 0 (norm_fields (normv g E) (r_fields m) vs), mkA s k st').
  Proof.
    intros Hle HRT Hm Hmrt Hw He. pose proof (FOU g f Hle HRT) as HFO.
    destruct (r_steps m) as [|s0 ss] eqn:Es.
    - eapply rt_record_v0; [exact HFO | exact Es | exact Hm | exact Hw | exact He].
    - eapply rt_record_chunked;
        [exact HFO | rewrite Es; discriminate | exact Hm | exact Hmrt | exact Hw | exact He].
  Qed.

  Lemma RTU_all : forall n g, (g <= n)%nat -> RTU g.
  Proof.
    induction n as [|n IHn]; intros g Hg.
    - assert (g = 0%nat) as -> by lia. intros f t v st b st' s k _ _ _ He.
      cbn [enc_u] in He. discriminate.
    - destruct (Nat.eq_dec g (S n)) as [->|Hne]; [|apply IHn; lia].
      intros f t v st b st' s k Hle Hty Hwf He.
      destruct f as [|f]; [lia|]. assert (Hle' : (n <= f)%nat) by lia.
      pose proof (FOU n f Hle' IHn) as HFO.
      assert (RTn : RTU n) by (apply IHn; lia).
      destruct t as [p|t'|tr te|ts|sk e|mk kt vt|wk t'| |nn].
      + (* prim *)
        cbn [enc_u] in He. cbn [wf_val] in Hwf. rewrite decA_S_prim.
        replace (normv (S n) E (TPrim p) v) with v by (destruct v; reflexivity).
        apply rt_prim; assumption.
      + (* option *)
        cbn [wf_ty] in Hty. cbn [enc_u] in He. cbn [wf_val] in Hwf.
        destruct v as [| | |tag vs]; try discriminate.
        destruct tag as [|[p|p|]]; try discriminate; destruct vs as [|x [|y vs]]; try discriminate.
        * apply ok_pair_inj in He as [<- <-]. rewrite decA_S_option. cbn [app]. rewrite a_r_u8.
          cbn [bind N.eqb]. reflexivity.
        * destruct (enc_u n E t' x st) as [[b1 st1]| | |] eqn:E1; try discriminate.
          cbn [bind] in He. apply ok_pair_inj in He as [<- <-].
          rewrite decA_S_option. cbn [app]. rewrite a_r_u8.
          cbn [bind N.eqb Pos.eqb].
          rewrite (RTn f t' x st b1 st1 s k Hle' Hty Hwf E1). cbn [bind]. reflexivity.
      + (* result *)
        cbn [wf_ty] in Hty. apply andb_true_iff in Hty as [Htr Hte].
        cbn [enc_u] in He. cbn [wf_val] in Hwf.
        destruct v as [| | |tag vs]; try discriminate.
        destruct tag as [|[p|p|]]; try discriminate; destruct vs as [|x [|y vs]]; try discriminate.
        * destruct (enc_u n E te x st) as [[b1 st1]| | |] eqn:E1; try discriminate.
          cbn [bind] in He. apply ok_pair_inj in He as [<- <-].
          rewrite decA_S_result. cbn [app]. rewrite a_r_u8.
          cbn [bind N.eqb].
          rewrite (RTn f te x st b1 st1 s k Hle' Hte Hwf E1). cbn [bind]. reflexivity.
        * destruct (enc_u n E tr x st) as [[b1 st1]| | |] eqn:E1; try discriminate.
          cbn [bind] in He. apply ok_pair_inj in He as [<- <-].
          rewrite decA_S_result. cbn [app]. rewrite a_r_u8.
          cbn [bind N.eqb Pos.eqb].
          rewrite (RTn f tr x st b1 st1 s k Hle' Htr Hwf E1). cbn [bind]. reflexivity.
      + (* tuple *)
        cbn [enc_u] in He. cbn [wf_val] in Hwf.
        destruct v as [| | |tag vs]; try discriminate. destruct tag as [|p]; [|discriminate].
        rewrite decA_S_tuple. rewrite normv_tuple.
        eapply rt_record_v0;
          [exact HFO | reflexivity | apply tuple_meta_wf; exact Hty | exact Hwf | exact He].
      + (* sequences *)
        cbn [wf_ty] in Hty. cbn [enc_u] in He. cbn [wf_val] in Hwf. rewrite decA_S_seq.
        destruct (byte_path sk e) eqn:Ebp.
        * destruct v as [| |bs|]; try discriminate.
          rewrite (rt_bytes _ _ _ _ s k He). cbn [bind].
          change (normv (S n) E (TSeq sk e) (VB bs)) with (VB bs).
          destruct sk; try reflexivity. rewrite Hwf. reflexivity.
        * destruct v as [| | |tag vs]; try discriminate. destruct tag as [|p]; [|discriminate].
          apply andb_true_iff in Hwf as [Hall Hk]. rewrite normv_seq, Ebp.
          assert (Hrt : rt_pair (enc_u n E e) (dec a_ops (S n) E e) (wf_val f E e) (normv n E e)).
          { intros v0 st0 b0 st0' s0 k0 Hw0 He0. eapply (RTn f); eassumption. }
          rewrite (C12_unknown_form _ _ _ _ Hrt n vs st b st' s k Hall He). cbn [bind].
          assert (Hm: map (normv n E e) vs = map (normv f E e) vs).
          { apply map_ext_in. intros x Hx.
            destruct (enc_seq_unknown_each _ _ _ _ _ He x Hx) as (st1 & r1 & H1).
            symmetry. eapply norm_stable_u; [exact Hle' | exact H1]. }
          destruct sk; cbn [collect bind]; try reflexivity.
          -- rewrite dedup_vals_nodup; [reflexivity | rewrite Hm; exact Hk | intros; reflexivity].
          -- rewrite dedup_vals_nodup; [reflexivity | rewrite Hm; exact Hk | intros; reflexivity].
          -- rewrite nlen_map, Hk. reflexivity.
      + (* maps *)
        cbn [wf_ty] in Hty. cbn [enc_u] in He. cbn [wf_val] in Hwf. rewrite decA_S_map.
        destruct v as [| | |tag vs]; try discriminate. destruct tag as [|p]; [|discriminate].
        apply andb_true_iff in Hwf as [Hall Hk]. rewrite normv_map.
        assert (Htt : wf_ty E (TTuple [kt; vt]) = true).
        { apply andb_true_iff in Hty as [H1 H2]. cbn [wf_ty forallb]. rewrite H1, H2. reflexivity. }
        assert (Hrt : rt_pair (enc_u n E (TTuple [kt; vt])) (dec a_ops (S n) E (TTuple [kt; vt]))
                              (wf_val (S f) E (TTuple [kt; vt])) (normv n E (TTuple [kt; vt]))).
        { intros v0 st0 b0 st0' s0 k0 Hw0 He0. eapply (RTn (S f)); try eassumption. lia. }
        assert (Hshape : forall kv, In kv vs -> exists k0 x0, kv = VNode 0 [k0; x0]).
        { rewrite forallb_forall in Hall. intros kv Hkv. specialize (Hall kv Hkv).
          destruct kv as [| | |tag l]; try discriminate. destruct tag as [|p]; [|discriminate].
          destruct l as [|k0 [|x0 [|z l]]]; try discriminate. eauto. }
        assert (Hall' : forallb (wf_val (S f) E (TTuple [kt; vt])) vs = true).
        { apply forallb_forall. intros kv Hkv. destruct (Hshape kv Hkv) as (k0 & x0 & ->).
          rewrite forallb_forall in Hall. specialize (Hall _ Hkv). cbv beta iota in Hall.
          apply andb_true_iff in Hall as [H1 H2].
          cbn [wf_val tuple_meta tuple_fields r_fields wf_fields f_ty]. rewrite H1, H2. reflexivity. }
        rewrite (C12_unknown_form _ _ _ _ Hrt n vs st b st' s k Hall' He). cbn [bind].
        rewrite map_collect_nodup; [reflexivity | | | intros; reflexivity].
        * intros y Hy. apply in_map_iff in Hy as (kv & <- & Hkv).
          destruct (Hshape kv Hkv) as (k0 & x0 & ->).
          destruct n as [|n']; [cbn [normv]; eauto|].
          rewrite normv_tuple. cbn [tuple_meta tuple_fields r_fields norm_fields f_transient f_ty]. eauto.
        * rewrite map_map.
          rewrite (map_ext_in _ (fun kv => key_of (normv f E (TTuple [kt; vt]) kv))); [exact Hk|].
          intros kv Hkv. destruct (enc_seq_unknown_each _ _ _ _ _ He kv Hkv) as (st1 & r1 & H1).
          f_equal. symmetry. eapply norm_stable_u; [exact Hle' | exact H1].
      + (* wrappers *)
        cbn [wf_ty] in Hty. cbn [enc_u] in He. cbn [wf_val] in Hwf.
        rewrite decA_S_wrap. rewrite normv_wrap.
        eapply (RTn f); eassumption.
      + (* PhantomData *)
        cbn [enc_u] in He. destruct v as [| | |tag vs]; try discriminate.
        destruct tag as [|p]; [|discriminate]. destruct vs; [|discriminate].
        apply ok_pair_inj in He as [<- <-]. reflexivity.
      + (* declared types *)
        cbn [enc_u] in He. cbn [wf_val] in Hwf. rewrite decA_S_named.
        destruct (lookup_decl E nn) as [d|] eqn:El; [|discriminate].
        destruct (decl_wf_u nn d El) as [Hd Hdrt]. unfold wf_decl in Hd.
        destruct (d_body d) as [m|m] eqn:Eb.
        * destruct v as [| | |tag vs]; try discriminate. destruct tag as [|p]; [|discriminate].
          rewrite normv_named, El, Eb.
          eapply rt_record_any_u; [exact Hle' | exact IHn | exact Hd | exact Hdrt | exact Hwf | exact He].
        * destruct v as [| | |tag vs]; try discriminate.
          unfold enc_enum in He.
          destruct (case_index (cases_of m) tag 0) as [[idx var]|] eqn:Eci; [|discriminate].
          destruct (v_transient var) eqn:Etr; [discriminate|].
          destruct (2 ^ 32 <=? idx) eqn:Eidx; [discriminate|].
          destruct (enc_record (enc_u n E) (v_rec var) vs st) as [[b1 st1]| | |] eqn:Er; try discriminate.
          cbn [bind] in He. apply ok_pair_inj in He as [<- <-].
          pose proof (case_index_nth _ _ _ _ Eci) as Hnth. rewrite Hnth in Hwf.
          pose proof (nth_error_In _ _ Hnth) as Hin.
          rewrite forallb_forall in Hd. specialize (Hd var Hin).
          rewrite forallb_forall in Hdrt. specialize (Hdrt var Hin).
          pose proof (rt_record_any_u n f (v_rec var) vs st b1 st1 s k Hle' IHn Hd Hdrt Hwf Er) as Hdr.
          unfold dec_enum, ad_open.
          change ((0 :: write_var_u32 idx ++ b1) ++ s) with (0 :: (write_var_u32 idx ++ b1) ++ s).
          change (d_rd a_ops) with a_reader. rewrite a_r_u8. cbn [bind N.eqb]. rewrite <- app_assoc.
          erewrite read_cases_rt;
            [ | | exact Etr | exact Hdr | exact Eci | reflexivity | left; split; reflexivity ]; [|lia].
          rewrite normv_named, El, Eb, Hnth. reflexivity.
  Qed.
End RTU.

(* ================================================================== *)
(* the statements *)

(* decoder fuel exactly one more than the encoder's *)
Theorem roundtrip_U_S : forall f E t v st b st' s k,
  wf_env E = true -> wf_env_rt E = true -> wf_ty E t = true -> wf_val f E t v = true ->
  enc_u f E t v st = Ok (b, st') ->
  dec a_ops (S f) E t (mkA (b ++ s) k st) = Ok (normv f E t v, mkA s k st').
Proof.
  intros f E t v st b st' s k HE HErt Hty Hwf He.
  eapply (RTU_all E HE HErt f f (le_n _) f); try eassumption. lia.
Qed.

(* any larger decoder fuel *)
Theorem roundtrip_U_fuel : forall f f' E t v st b st' s k,
  wf_env E = true -> wf_env_rt E = true -> wf_ty E t = true -> wf_val f E t v = true ->
  enc_u f E t v st = Ok (b, st') -> (f < f')%nat ->
  dec a_ops f' E t (mkA (b ++ s) k st) = Ok (normv f E t v, mkA s k st').
Proof.
  intros f f' E t v st b st' s k HE HErt Hty Hwf He Hlt.
  apply dec_mono_ok with (f := S f); [lia|]. apply roundtrip_U_S; assumption.
Qed.

Theorem roundtrip_U : forall f E t v st b st' s k,
  wf_env E = true -> wf_env_rt E = true -> wf_ty E t = true -> wf_val f E t v = true ->
  enc_u f E t v st = Ok (b, st') ->
  exists f', dec a_ops f' E t (mkA (b ++ s) k st) = Ok (normv f E t v, mkA s k st').
Proof.
  intros f E t v st b st' s k HE HErt Hty Hwf He. exists (S f). apply roundtrip_U_S; assumption.
Qed.

(* the same at the top-level entry point of layer A *)
Corollary roundtrip_U_decodeA : forall f f' E t v st b st' s,
  wf_env E = true -> wf_env_rt E = true -> wf_ty E t = true -> wf_val f E t v = true ->
  enc_u f E t v st = Ok (b, st') -> (f < f')%nat ->
  decodeA f' E t (b ++ s) st = Ok (normv f E t v, s, st').
Proof.
  intros f f' E t v st b st' s HE HErt Hty Hwf He Hlt. unfold decodeA.
  rewrite (roundtrip_U_fuel f f' E t v st b st' s [] HE HErt Hty Hwf He Hlt). reflexivity.
Qed.

Print Assumptions roundtrip_U_S.
Print Assumptions roundtrip_U_fuel.
Print Assumptions roundtrip_U.
Print Assumptions roundtrip_U_decodeA.
