(* EvolutionTop.v — C03 at the real codecs: the abstract theorem `Evolution.c03` instantiated at
   `enc` / `dec a_ops`, for records whose field types leave the string table alone. *)
From Coq Require Import NArith ZArith List Lia Bool.
From Coq Require Import ZifyBool ZifyN ZifyNat.
From Desert Require Import Bits Outcome IO IOProofs VarintProofs Types Codec CodecWf CodecLemmas
  CodecRt History RecordRt RecordChunkedSpec RecordChunked EvolutionSpec Evolution
  MonoProofs CodecRt2 PropLemmas.
Import ListNotations.
Open Scope N_scope.

(* ================================================================== *)
(* 0. definitions                                                       *)

(* types whose codecs leave the string table alone: no DeduplicatedString, no declarations *)
Fixpoint neutral_ty (t : ty) : bool :=
  match t with
  | TPrim p => match p with PDedupString => false | _ => true end
  | TOption t' => neutral_ty t'
  | TWrap _ t' => neutral_ty t'
  | TSeq _ t' => neutral_ty t'
  | TResult a b => neutral_ty a && neutral_ty b
  | TMap _ a b => neutral_ty a && neutral_ty b
  | TTuple ts => forallb neutral_ty ts
  | TPhantom => true
  | TNamed _ => false
  end.

Definition history_neutral (H : history) : bool :=
  forallb (fun f => neutral_ty (f_ty f) && wf_ty [] (f_ty f)) (h_init H) &&
  forallb (fun h => match h with
                    | HAdd f _ => neutral_ty (f_ty f) && wf_ty [] (f_ty f)
                    | _ => true end) (h_steps H).

Definition nty (t : ty) : Prop := neutral_ty t = true.

Lemma nty_opt t : nty (TOption t) -> nty t.
Proof. exact (fun H => H). Qed.

Lemma nty_tuple_fields ts : forall i,
  forallb neutral_ty ts = true -> Forall (fun fl => nty (f_ty fl)) (tuple_fields ts i).
Proof.
  induction ts as [|t ts IH]; intros i H; cbn [tuple_fields]; [constructor|].
  cbn [forallb] in H. apply andb_true_iff in H as [Ht H].
  constructor; [exact Ht | apply IH; exact H].
Qed.

Lemma nty_pair kt vt : nty kt -> nty vt -> nty (TTuple [kt; vt]).
Proof. unfold nty. intros A B. cbn [neutral_ty forallb]. rewrite A, B. reflexivity. Qed.

(* ================================================================== *)
(* 1. monotonicity / extensionality of the record helpers, restricted   *)
(*    to the field types of the record                                  *)

Lemma ole_antisym {A} (x y : outcome A) : ole x y -> ole y x -> x = y.
Proof.
  unfold ole. intros H1 H2. destruct x as [a|e|p|].
  - symmetry. apply H1. discriminate.
  - symmetry. apply H1. discriminate.
  - symmetry. apply H1. discriminate.
  - destruct y as [a|e|p|]; try reflexivity; apply H2; discriminate.
Qed.

Section On.
  Variable P : ty -> Prop.
  Hypothesis Popt : forall t, P (TOption t) -> P t.

  Lemma enc_fields_v0_mono_on (encf encf' : ty -> encoder) fs :
    (forall t, P t -> extends2 (encf t) (encf' t)) ->
    Forall (fun fl => P (f_ty fl)) fs ->
    forall vs st, ole (enc_fields_v0 encf fs vs st) (enc_fields_v0 encf' fs vs st).
  Proof.
    intros He. induction fs as [|fl fs IH]; intros HP vs st.
    - destruct vs; cbn [enc_fields_v0]; apply ole_refl.
    - inversion HP as [|? ? Hfl HP']; subst.
      destruct vs as [|v vs]; cbn [enc_fields_v0]; [apply ole_refl|].
      destruct (f_transient fl); [apply IH; exact HP'|].
      apply ole_bind; [apply He; exact Hfl|]. intros [b1 st1].
      apply ole_bind; [apply IH; exact HP'|]. intros a. apply ole_refl.
  Qed.

  Lemma enc_fields_chunked_mono_on (encf encf' : ty -> encoder) steps fs :
    (forall t, P t -> extends2 (encf t) (encf' t)) ->
    Forall (fun fl => P (f_ty fl)) fs ->
    forall vs ss st,
      ole (enc_fields_chunked encf steps fs vs ss st) (enc_fields_chunked encf' steps fs vs ss st).
  Proof.
    intros He. induction fs as [|fl fs IH]; intros HP vs ss st.
    - destruct vs; cbn [enc_fields_chunked]; apply ole_refl.
    - inversion HP as [|? ? Hfl HP']; subst.
      destruct vs as [|v vs]; cbn [enc_fields_chunked]; [apply ole_refl|].
      destruct (f_transient fl); [apply IH; exact HP'|]. cbv zeta.
      apply ole_bind; [apply He; exact Hfl|]. intros [b1 st1].
      destruct (app_nth _ _ b1); [|apply ole_refl].
      apply ole_bind; [apply ole_refl|]. intros ss1. apply IH. exact HP'.
  Qed.

  Lemma enc_record_mono_on (encf encf' : ty -> encoder) m vs st :
    (forall t, P t -> extends2 (encf t) (encf' t)) ->
    Forall (fun fl => P (f_ty fl)) (r_fields m) ->
    ole (enc_record encf m vs st) (enc_record encf' m vs st).
  Proof.
    intros He HP. unfold enc_record. cbv zeta.
    destruct (r_steps m) as [|s0 steps].
    - apply ole_bind; [apply enc_fields_v0_mono_on; assumption|]. intros a. apply ole_refl.
    - destruct (255 <=? _); [apply ole_refl|].
      apply ole_bind; [apply ole_refl|]. intros [pre st1].
      apply ole_bind; [apply enc_fields_chunked_mono_on; assumption|]. intros a. apply ole_refl.
  Qed.

  Section DecOn.
    Context {St Rg : Type} (D : dops St Rg).

    Lemma read_fields_mono_on (decf decf' : ty -> @decoder St) steps fs :
      (forall t, P t -> extends (decf t) (decf' t)) ->
      Forall (fun fl => P (f_ty fl)) fs ->
      forall ad s, ole (read_fields D decf steps fs ad s) (read_fields D decf' steps fs ad s).
    Proof.
      intros Hd. induction fs as [|fl fs IH]; intros HP ad s.
      - cbn [read_fields]. apply ole_refl.
      - inversion HP as [|? ? Hfl HP']; subst.
        cbn [read_fields]. apply ole_bind.
        + destruct (f_transient fl); [apply ole_refl|]. cbv zeta.
          destruct (f_opt fl).
          * destruct (f_ty fl) eqn:Ety; try apply ole_refl.
            apply read_optional_field_mono. apply Hd. apply Popt. exact Hfl.
          * apply read_field_mono. apply Hd. exact Hfl.
        + intros [[v ad1] s1]. apply ole_bind; [apply IH; exact HP'|].
          intros a. apply ole_refl.
    Qed.

    Lemma dec_record_mono_on (decf decf' : ty -> @decoder St) m :
      (forall t, P t -> extends (decf t) (decf' t)) ->
      Forall (fun fl => P (f_ty fl)) (r_fields m) ->
      extends (dec_record D decf m) (dec_record D decf' m).
    Proof.
      intros Hd HP s. unfold dec_record.
      destruct (255 <=? version_of (r_steps m)); [apply ole_refl|].
      apply ole_bind; [apply ole_refl|]. intros [ad s1].
      apply ole_bind; [apply read_fields_mono_on; assumption|]. intros a. apply ole_refl.
    Qed.
  End DecOn.
End On.

(* ================================================================== *)
(* 2. neutral types: more fuel and another environment change nothing   *)

Lemma enc_ole_neutral : forall f f' E1 E2 t v st,
  (f <= f')%nat -> nty t -> ole (enc f E1 t v st) (enc f' E2 t v st).
Proof.
  induction f as [|f IH]; intros f' E1 E2 t v st Hle Hn.
  - cbn [enc]. apply ole_fuel.
  - destruct f' as [|f']; [lia|].
    assert (Hff : (f <= f')%nat) by lia.
    assert (Hext : forall t, nty t -> extends2 (enc f E1 t) (enc f' E2 t)).
    { intros t0 Ht0 v0 st0. apply IH; assumption. }
    unfold nty in Hn.
    cbn [enc]. destruct t as [p|t'|tr te|ts|k e|mk kt vt|w t'| |n]; cbn [neutral_ty] in Hn.
    + apply ole_refl.
    + specialize (Hext t' Hn). mono.
    + apply andb_true_iff in Hn as [Hr He].
      pose proof (Hext tr Hr). pose proof (Hext te He). mono.
    + destruct v; try apply ole_refl. mono.
      apply (enc_record_mono_on nty); [exact Hext|].
      cbn [tuple_meta r_fields]. apply nty_tuple_fields. exact Hn.
    + destruct (byte_path k e); [apply ole_refl|].
      destruct v; try apply ole_refl. mono. apply enc_seq_mono; [exact Hff | apply Hext; exact Hn].
    + apply andb_true_iff in Hn as [Hk Hv].
      destruct v; try apply ole_refl. mono.
      apply enc_seq_mono; [exact Hff | apply Hext; apply nty_pair; assumption].
    + apply Hext. exact Hn.
    + apply ole_refl.
    + discriminate.
Qed.

Lemma dec_ole_neutral {St Rg} (D : dops St Rg) : forall f f' E1 E2 t s,
  (f <= f')%nat -> nty t -> ole (dec D f E1 t s) (dec D f' E2 t s).
Proof.
  induction f as [|f IH]; intros f' E1 E2 t s Hle Hn.
  - cbn [dec]. apply ole_fuel.
  - destruct f' as [|f']; [lia|].
    assert (Hff : (f <= f')%nat) by lia.
    assert (Hext : forall t, nty t -> extends (dec D f E1 t) (dec D f' E2 t)).
    { intros t0 Ht0 s0. apply IH; assumption. }
    unfold nty in Hn.
    cbn [dec]. destruct t as [p|t'|tr te|ts|k e|mk kt vt|w t'| |n]; cbn [neutral_ty] in Hn.
    + apply ole_refl.
    + apply ole_bind; [apply ole_refl|]. intros [tag s1].
      destruct (tag =? 0); [apply ole_refl|].
      destruct (tag =? 1); [|apply ole_refl].
      apply ole_bind; [apply Hext; exact Hn|]. intros a. apply ole_refl.
    + apply andb_true_iff in Hn as [Hr He].
      apply ole_bind; [apply ole_refl|]. intros [tag s1].
      destruct (tag =? 0).
      { apply ole_bind; [apply Hext; exact He|]. intros a. apply ole_refl. }
      destruct (tag =? 1); [|apply ole_refl].
      apply ole_bind; [apply Hext; exact Hr|]. intros a. apply ole_refl.
    + apply (dec_record_mono_on nty nty_opt); [exact Hext|].
      cbn [tuple_meta r_fields]. apply nty_tuple_fields. exact Hn.
    + destruct (byte_path k e); [apply ole_refl|].
      apply ole_bind; [|intros a; apply ole_refl].
      apply dec_seq_items_mono; [exact Hff | apply Hext; exact Hn].
    + apply andb_true_iff in Hn as [Hk Hv].
      apply ole_bind; [|intros a; apply ole_refl].
      apply dec_seq_items_mono; [exact Hff | apply Hext; apply nty_pair; assumption].
    + apply Hext. exact Hn.
    + apply ole_refl.
    + discriminate.
Qed.

(* neutral types do not look at the environment *)
Theorem enc_neutral_env : forall f E1 E2 t v st,
  neutral_ty t = true -> enc f E1 t v st = enc f E2 t v st.
Proof.
  intros f E1 E2 t v st Hn. apply ole_antisym; apply enc_ole_neutral; auto.
Qed.

Theorem dec_neutral_env : forall {St Rg} (D : dops St Rg) f E1 E2 t s,
  neutral_ty t = true -> dec D f E1 t s = dec D f E2 t s.
Proof.
  intros St Rg D f E1 E2 t s Hn. apply ole_antisym; apply dec_ole_neutral; auto.
Qed.

(* ================================================================== *)
(* 3. neutral types leave the string table alone                        *)

(* the encoder is a function of the value only; the table is passed through *)
Definition pure_enc (e : encoder) : Prop :=
  forall v st1 st2, e v st2 = bind (e v st1) (fun p => Ok (fst p, st2)).

Lemma pure_enc_st e v st b st' : pure_enc e -> e v st = Ok (b, st') -> st' = st.
Proof.
  intros He H. pose proof (He v st st) as H1. rewrite H in H1. cbn [bind fst] in H1.
  apply ok_pair_inj in H1 as [_ H1]. exact H1.
Qed.

Lemma pure_enc_bytes e v st1 st2 : pure_enc e -> omap fst (e v st1) = omap fst (e v st2).
Proof.
  intros He. rewrite (He v st1 st2). destruct (e v st1) as [[b s]| | |]; reflexivity.
Qed.

Lemma pure_items e : pure_enc e -> forall fuel vs st1 st2,
  enc_items fuel e vs st2 = bind (enc_items fuel e vs st1) (fun p => Ok (fst p, st2)).
Proof.
  intros He. induction fuel as [|fl IH]; intros vs st1 st2.
  - destruct vs; reflexivity.
  - destruct vs as [|v vs]; [reflexivity|]. cbn [enc_items].
    rewrite (He v st1 st2). destruct (e v st1) as [[b1 s1]| | |] eqn:E1; try reflexivity.
    apply (pure_enc_st _ _ _ _ _ He) in E1. subst s1. cbn [bind fst].
    rewrite (IH vs st1 st2). destruct (enc_items fl e vs st1) as [[b2 s2]| | |]; reflexivity.
Qed.

Lemma pure_seq e fuel : pure_enc e -> forall vs st1 st2,
  enc_seq fuel e vs st2 = bind (enc_seq fuel e vs st1) (fun p => Ok (fst p, st2)).
Proof.
  intros He vs st1 st2. unfold enc_seq. destruct (nlen vs <? 2 ^ 31); [|reflexivity].
  rewrite (pure_items e He fuel vs st1 st2).
  destruct (enc_items fuel e vs st1) as [[b s]| | |]; reflexivity.
Qed.

Lemma pure_fields_v0 (encf : ty -> encoder) fs :
  Forall (fun fl => pure_enc (encf (f_ty fl))) fs -> forall vs st1 st2,
  enc_fields_v0 encf fs vs st2 = bind (enc_fields_v0 encf fs vs st1) (fun p => Ok (fst p, st2)).
Proof.
  induction fs as [|fl fs IH]; intros HP vs st1 st2.
  - destruct vs; reflexivity.
  - inversion HP as [|? ? Hfl HP']; subst.
    destruct vs as [|v vs]; [reflexivity|]. cbn [enc_fields_v0].
    destruct (f_transient fl); [apply IH; exact HP'|].
    rewrite (Hfl v st1 st2). destruct (encf (f_ty fl) v st1) as [[b1 s1]| | |] eqn:E1; try reflexivity.
    apply (pure_enc_st _ _ _ _ _ Hfl) in E1. subst s1. cbn [bind fst].
    rewrite (IH HP' vs st1 st2). destruct (enc_fields_v0 encf fs vs st1) as [[b2 s2]| | |]; reflexivity.
Qed.

Lemma pure_bytes bs st1 st2 : enc_bytes bs st2 = bind (enc_bytes bs st1) (fun p => Ok (fst p, st2)).
Proof. unfold enc_bytes. destruct (nlen bs <? 2 ^ 32); reflexivity. Qed.

Lemma pure_string bs st1 st2 : enc_string bs st2 = bind (enc_string bs st1) (fun p => Ok (fst p, st2)).
Proof. unfold enc_string. destruct (nlen bs <? 2 ^ 31); reflexivity. Qed.

Lemma pure_prim p : p <> PDedupString -> pure_enc (enc_prim p).
Proof.
  intros Hp v st1 st2.
  destruct p; try congruence; cbn [enc_prim];
    try (destruct v as [n|z|bs|tag vs]; try reflexivity;
         try apply pure_bytes; try apply pure_string).
  all: unfold of_opt, enc_string;
       repeat match goal with
       | |- context [match ?x with _ => _ end] => is_var x; destruct x
       end;
       repeat match goal with
       | |- context [match enc_ndt ?d with _ => _ end] => destruct (enc_ndt d)
       | |- context [match enc_ndate ?d with _ => _ end] => destruct (enc_ndate d)
       | |- context [match enc_ntime ?d with _ => _ end] => destruct (enc_ntime d)
       | |- context [if ?c then _ else _] => destruct c
       end; reflexivity.
Qed.

Lemma enc_pure : forall f E t, neutral_ty t = true -> pure_enc (enc f E t).
Proof.
  induction f as [|f IH]; intros E t Hn v st1 st2; [reflexivity|].
  cbn [enc]. destruct t as [p|t'|tr te|ts|k e|mk kt vt|w t'| |n]; cbn [neutral_ty] in Hn.
  - apply pure_prim. intros ->. discriminate.
  - destruct v as [| | |tag vs]; try reflexivity.
    destruct tag as [|[q|q|]]; try reflexivity.
    + destruct vs; reflexivity.
    + destruct vs as [|x [|y vs]]; try reflexivity.
      rewrite (IH E t' Hn x st1 st2). destruct (enc f E t' x st1) as [[b s]| | |]; reflexivity.
  - apply andb_true_iff in Hn as [Hr He].
    destruct v as [| | |tag vs]; try reflexivity.
    destruct tag as [|[q|q|]]; try reflexivity;
      destruct vs as [|x [|y vs]]; try reflexivity.
    + rewrite (IH E te He x st1 st2). destruct (enc f E te x st1) as [[b s]| | |]; reflexivity.
    + rewrite (IH E tr Hr x st1 st2). destruct (enc f E tr x st1) as [[b s]| | |]; reflexivity.
  - destruct v as [| | |tag vs]; try reflexivity. destruct tag; try reflexivity.
    unfold enc_record. cbn [tuple_meta r_steps r_fields].
    rewrite (pure_fields_v0 (enc f E) (tuple_fields ts 0)) with (st1 := st1).
    + destruct (enc_fields_v0 (enc f E) (tuple_fields ts 0) vs st1) as [[b s]| | |]; reflexivity.
    + eapply Forall_impl; [|apply nty_tuple_fields; exact Hn]. intros fl Hfl. apply IH. exact Hfl.
  - destruct (byte_path k e).
    + destruct v; try reflexivity. apply pure_bytes.
    + destruct v as [| | |tag vs]; try reflexivity. destruct tag; try reflexivity.
      apply pure_seq. apply IH. exact Hn.
  - apply andb_true_iff in Hn as [Hk Hv].
    destruct v as [| | |tag vs]; try reflexivity. destruct tag; try reflexivity.
    apply pure_seq. apply IH. apply nty_pair; assumption.
  - apply IH. exact Hn.
  - destruct v as [| | |tag vs]; try reflexivity. destruct tag; try reflexivity.
    destruct vs; reflexivity.
  - discriminate.
Qed.

Theorem enc_neutral : forall f E t v st b st',
  neutral_ty t = true -> enc f E t v st = Ok (b, st') -> st' = st.
Proof. intros f E t v st b st' Hn H. eapply pure_enc_st; [apply enc_pure; exact Hn | exact H]. Qed.

Theorem enc_neutral_bytes : forall f E t v st1 st2,
  neutral_ty t = true -> omap fst (enc f E t v st1) = omap fst (enc f E t v st2).
Proof. intros f E t v st1 st2 Hn. apply pure_enc_bytes. apply enc_pure. exact Hn. Qed.

(* ================================================================== *)
(* 4. values of neutral types: nothing to normalise, well-formedness    *)
(*    independent of environment and (once true) of fuel                *)

Lemma norm_fields_tuple_nty nv ts : forall i vs,
  forallb neutral_ty ts = true -> (forall t v, nty t -> nv t v = v) ->
  norm_fields nv (tuple_fields ts i) vs = vs.
Proof.
  induction ts as [|t ts IH]; intros i vs Hn H; cbn [tuple_fields norm_fields]; [destruct vs; reflexivity|].
  cbn [forallb] in Hn. apply andb_true_iff in Hn as [Ht Hn].
  destruct vs as [|x vs]; [reflexivity|]. cbn [f_transient f_ty].
  rewrite H, IH by assumption. reflexivity.
Qed.

Theorem normv_neutral : forall f E t v, neutral_ty t = true -> normv f E t v = v.
Proof.
  induction f as [|f IH]; intros E t v Hn; [reflexivity|].
  destruct t as [p|t'|r e|ts|k e|mk kt vt|wk t'| |n]; cbn [normv]; cbn [neutral_ty] in Hn.
  - destruct v; reflexivity.
  - destruct v as [| | |tag vs]; try reflexivity.
    destruct tag as [|[| |]]; try reflexivity. destruct vs as [|x [|? ?]]; try reflexivity.
    rewrite IH by exact Hn. reflexivity.
  - apply andb_true_iff in Hn as [Hr He].
    destruct v as [| | |tag vs]; try reflexivity.
    destruct tag as [|[| |]]; try reflexivity; destruct vs as [|x [|? ?]]; try reflexivity;
      rewrite IH by assumption; reflexivity.
  - destruct v as [| | |tag vs]; try reflexivity. destruct tag; try reflexivity.
    cbn [tuple_meta r_fields]. rewrite norm_fields_tuple_nty; [reflexivity | exact Hn |].
    intros t v Ht. apply IH. exact Ht.
  - destruct v as [| | |tag vs]; try reflexivity. destruct tag; try reflexivity.
    destruct (byte_path k e); [reflexivity|].
    rewrite map_id_ext by (intros; apply IH; exact Hn). reflexivity.
  - apply andb_true_iff in Hn as [Hk Hv].
    destruct v as [| | |tag vs]; try reflexivity. destruct tag; try reflexivity.
    rewrite map_id_ext by (intros; apply IH; apply nty_pair; assumption). reflexivity.
  - apply IH. exact Hn.
  - destruct v; reflexivity.
  - discriminate.
Qed.

Lemma wf_fields_impl_on (P : ty -> Prop) (w w' : ty -> val -> bool) fs :
  (forall t v, P t -> w t v = true -> w' t v = true) ->
  Forall (fun fl => P (f_ty fl)) fs ->
  forall vs, wf_fields w fs vs = true -> wf_fields w' fs vs = true.
Proof.
  intros Hw. induction fs as [|fl fs IH]; intros HP vs Hv.
  - destruct vs; [reflexivity | discriminate].
  - inversion HP as [|? ? Hfl HP']; subst.
    destruct vs as [|x vs]; [discriminate|]. cbn [wf_fields] in *.
    apply andb_true_iff in Hv as [Hx Hv]. rewrite (Hw _ _ Hfl Hx), (IH HP' vs Hv). reflexivity.
Qed.

Lemma wf_val_neutral_mono : forall f f' E1 E2 t v,
  (f <= f')%nat -> neutral_ty t = true -> wf_val f E1 t v = true -> wf_val f' E2 t v = true.
Proof.
  induction f as [|f IH]; intros f' E1 E2 t v Hle Hn Hv; [discriminate|].
  destruct f' as [|f']; [lia|]. assert (Hff : (f <= f')%nat) by lia.
  assert (IH' : forall t v, neutral_ty t = true -> wf_val f E1 t v = true -> wf_val f' E2 t v = true).
  { intros t0 v0 A B. exact (IH f' E1 E2 t0 v0 Hff A B). }
  cbn [wf_val] in Hv |- *.
  destruct t as [p|t'|r e|ts|k e|mk kt vt|wk t'| |n]; cbn [neutral_ty] in Hn.
  - exact Hv.
  - destruct v as [| | |tag vs]; try discriminate.
    destruct tag as [|[q|q|]]; try discriminate.
    + exact Hv.
    + destruct vs as [|x [|y vs]]; try discriminate. apply IH'; assumption.
  - apply andb_true_iff in Hn as [Hr He].
    destruct v as [| | |tag vs]; try discriminate.
    destruct tag as [|[q|q|]]; try discriminate;
      destruct vs as [|x [|y vs]]; try discriminate; apply IH'; assumption.
  - destruct v as [| | |tag vs]; try discriminate. destruct tag; try discriminate.
    cbn [tuple_meta r_fields] in *.
    eapply (wf_fields_impl_on nty); [|apply nty_tuple_fields; exact Hn|exact Hv].
    intros t0 v0 A B. apply IH'; assumption.
  - destruct (byte_path k e); [exact Hv|].
    destruct v as [| | |tag vs]; try discriminate. destruct tag; try discriminate.
    apply andb_true_iff in Hv as [Ha Hb]. apply andb_true_iff. split.
    + eapply forallb_impl; [exact Ha|]. intros x Hx. apply IH'; assumption.
    + destruct k; try exact Hb.
      * rewrite map_id_ext in Hb by (intros; apply normv_neutral; exact Hn).
        rewrite map_id_ext by (intros; apply normv_neutral; exact Hn). exact Hb.
      * rewrite map_id_ext in Hb by (intros; apply normv_neutral; exact Hn).
        rewrite map_id_ext by (intros; apply normv_neutral; exact Hn). exact Hb.
  - apply andb_true_iff in Hn as [Hk Hvt].
    destruct v as [| | |tag vs]; try discriminate. destruct tag; try discriminate.
    apply andb_true_iff in Hv as [Ha Hb]. apply andb_true_iff. split.
    + eapply forallb_impl; [exact Ha|]. intros x Hx. cbv beta in Hx |- *.
      destruct x as [| | |tag xs]; try discriminate. destruct tag; try discriminate.
      destruct xs as [|a [|b [|c xs]]]; try discriminate.
      apply andb_true_iff in Hx as [Hx1 Hx2]. rewrite (IH' _ _ Hk Hx1), (IH' _ _ Hvt Hx2). reflexivity.
    + erewrite map_ext in Hb
        by (intros; rewrite normv_neutral by (apply nty_pair; assumption); reflexivity).
      erewrite map_ext
        by (intros; rewrite normv_neutral by (apply nty_pair; assumption); reflexivity).
      exact Hb.
  - apply IH'; assumption.
  - exact Hv.
  - discriminate.
Qed.

Theorem wf_val_neutral_env : forall f E1 E2 t v,
  neutral_ty t = true -> wf_val f E1 t v = wf_val f E2 t v.
Proof.
  intros f E1 E2 t v Hn.
  destruct (wf_val f E1 t v) eqn:A, (wf_val f E2 t v) eqn:B; try reflexivity.
  - rewrite (wf_val_neutral_mono f f E1 E2 t v (le_n _) Hn A) in B. discriminate.
  - rewrite (wf_val_neutral_mono f f E2 E1 t v (le_n _) Hn B) in A. discriminate.
Qed.

(* ================================================================== *)
(* 5. the real codecs, restricted to neutral types, are `fields_neutral` *)

(* `Option<T>` spends one unit of fuel before reaching T: give every type the fuel `f` below its
   leading `Option`s, so that the codec of `Option<T>` is literally a tag and then the codec of T *)
Fixpoint optd (t : ty) : nat := match t with TOption t' => S (optd t') | _ => O end.

Definition encN (f : nat) (t : ty) : encoder :=
  fun v st => if neutral_ty t then enc (optd t + f) [] t v st else Err EIllTyped.
Definition decN (f : nat) (t : ty) : adecoder := fun s => dec a_ops (optd t + f) [] t s.
Definition wN (f : nat) (t : ty) (v : val) : bool := neutral_ty t && wf_val (optd t + f) [] t v.
Definition nvN (t : ty) (v : val) : val := v.

Lemma encN_fields_ok f : fields_ok [] (encN f) (decN f) (wN f) nvN.
Proof.
  constructor.
  - intros t Ht v st b st' s k Hw He. unfold wN in Hw. apply andb_true_iff in Hw as [Hn Hw].
    unfold encN in He. rewrite Hn in He. unfold decN, nvN.
    apply roundtrip_builtin; assumption.
  - intros t' Ht v st b st' s k Hw He. unfold wN in Hw. apply andb_true_iff in Hw as [Hn Hw].
    unfold encN in He. rewrite Hn in He. cbn [neutral_ty] in Hn.
    cbn [optd Nat.add] in Hw, He. cbn [wf_val] in Hw. cbn [enc] in He.
    destruct v as [| | |tag vs]; try discriminate.
    destruct tag as [|[q|q|]]; try discriminate.
    + destruct vs; [|discriminate]. left. apply ok_pair_inj in He as [<- <-].
      repeat split; reflexivity.
    + destruct vs as [|x [|y vs]]; try discriminate.
      destruct (enc (optd t' + f) [] t' x st) as [[b1 st1]| | |] eqn:E1; try discriminate.
      cbn [bind] in He. apply ok_pair_inj in He as [<- <-].
      right. exists x, b1. repeat split; try reflexivity.
      unfold decN, nvN. apply roundtrip_builtin; assumption.
Qed.

Theorem encN_fields_neutral f : fields_neutral [] (encN f) (decN f) (wN f) nvN.
Proof.
  constructor.
  - apply encN_fields_ok.
  - intros t v st b st' He. unfold encN in He. destruct (neutral_ty t) eqn:Hn; [|discriminate].
    eapply enc_neutral; eassumption.
  - intros t v st1 st2. unfold encN. destruct (neutral_ty t) eqn:Hn; [|reflexivity].
    apply enc_neutral_bytes. exact Hn.
  - intros t x st. unfold encN. cbn [neutral_ty optd Nat.add].
    destruct (neutral_ty t); [|reflexivity]. reflexivity.
Qed.

(* ================================================================== *)
(* 6. the field types of every version of a neutral history             *)

Definition good_ty (t : ty) : Prop := neutral_ty t = true /\ wf_ty [] t = true.

Lemma good_ty_b t : neutral_ty t && wf_ty [] t = true -> good_ty t.
Proof. intros H. apply andb_true_iff in H. exact H. Qed.

Lemma apply_hstep_good m h :
  Forall (fun fl => good_ty (f_ty fl)) (r_fields m) ->
  match h with HAdd fl _ => good_ty (f_ty fl) | _ => True end ->
  Forall (fun fl => good_ty (f_ty fl)) (r_fields (apply_hstep m h)).
Proof.
  intros Hm Hh. destruct h as [fl d|n|n|n d]; cbn [apply_hstep r_fields].
  - apply Forall_app. split; [exact Hm|]. constructor; [exact Hh | constructor].
  - apply Forall_map. eapply Forall_impl; [|exact Hm]. intros fl Hfl.
    unfold set_optional. destruct (bytes_eqb (f_name fl) n); [|exact Hfl].
    cbn [f_ty]. exact Hfl.
  - rewrite Forall_forall in *. intros fl Hin. apply filter_In in Hin as [Hin _]. apply Hm. exact Hin.
  - apply Forall_map. eapply Forall_impl; [|exact Hm]. intros fl Hfl.
    unfold set_transient. destruct (bytes_eqb (f_name fl) n); exact Hfl.
Qed.

Lemma fold_hsteps_good hs : forall m,
  Forall (fun fl => good_ty (f_ty fl)) (r_fields m) ->
  Forall (fun h => match h with HAdd fl _ => good_ty (f_ty fl) | _ => True end) hs ->
  Forall (fun fl => good_ty (f_ty fl)) (r_fields (fold_left apply_hstep hs m)).
Proof.
  induction hs as [|h hs IH]; intros m Hm Hhs; cbn [fold_left]; [exact Hm|].
  inversion Hhs as [|? ? Hh Hhs']; subst.
  apply IH; [apply apply_hstep_good; assumption | exact Hhs'].
Qed.

Lemma Forall_firstn {A} (Q : A -> Prop) l : forall k, Forall Q l -> Forall Q (firstn k l).
Proof.
  induction l as [|x l IH]; intros k H; [rewrite firstn_nil; constructor|].
  destruct k as [|k]; cbn [firstn]; [constructor|].
  inversion H; subst. constructor; [assumption | apply IH; assumption].
Qed.

Lemma decl_at_good H k :
  history_neutral H = true -> Forall (fun fl => good_ty (f_ty fl)) (r_fields (decl_at H k)).
Proof.
  intros Hn. unfold history_neutral in Hn. apply andb_true_iff in Hn as [Hi Hs].
  unfold decl_at. apply fold_hsteps_good.
  - cbn [r_fields]. apply Forall_forall. intros fl Hin. apply good_ty_b.
    rewrite forallb_forall in Hi. apply Hi. exact Hin.
  - apply Forall_firstn. apply Forall_forall. intros h Hin.
    rewrite forallb_forall in Hs. specialize (Hs h Hin).
    destruct h; try exact I. apply good_ty_b. exact Hs.
Qed.

Lemma history_neutral_wf H : history_neutral H = true -> all_field_types_wf [] H = true.
Proof.
  intros Hn. unfold history_neutral in Hn. apply andb_true_iff in Hn as [Hi Hs].
  unfold all_field_types_wf. apply andb_true_iff. split.
  - eapply forallb_impl; [exact Hi|]. intros fl Hfl. apply andb_true_iff in Hfl as [_ Hfl]. exact Hfl.
  - eapply forallb_impl; [exact Hs|]. intros h Hh. destruct h; try reflexivity.
    apply andb_true_iff in Hh as [_ Hh]. exact Hh.
Qed.

Lemma norm_written_id fs : forall vs, norm_written nvN fs vs = vs.
Proof.
  induction fs as [|fl fs IH]; intros vs; cbn [norm_written]; [destruct vs; reflexivity|].
  destruct vs as [|x vs]; [reflexivity|]. rewrite IH. reflexivity.
Qed.

(* ================================================================== *)
(* 7. C03 at the real codecs                                            *)

Lemma enc_named_record f nm m vs st :
  enc (S f) [mkD nm (DRecord m)] (TNamed 0) (VNode 0 vs) st
  = enc_record (enc f [mkD nm (DRecord m)]) m vs st.
Proof. reflexivity. Qed.

Lemma dec_named_record f nm m s :
  dec a_ops (S f) [mkD nm (DRecord m)] (TNamed 0) s
  = dec_record a_ops (dec a_ops f [mkD nm (DRecord m)]) m s.
Proof. reflexivity. Qed.

Lemma wf_named_record f nm m vs :
  wf_val (S f) [mkD nm (DRecord m)] (TNamed 0) (VNode 0 vs)
  = wf_fields (wf_val f [mkD nm (DRecord m)]) (r_fields m) vs.
Proof. reflexivity. Qed.

(* fuel the reader needs above the writer's: the deepest nest of leading `Option`s among the field
   types of the reading version (each `Option` spends one unit before the inner codec runs) *)
Definition opt_depth (m : rmeta) : nat := list_max (map (fun fl => optd (f_ty fl)) (r_fields m)).

Lemma opt_depth_le m : Forall (fun fl => (optd (f_ty fl) <= opt_depth m)%nat) (r_fields m).
Proof.
  unfold opt_depth.
  pose proof (proj1 (list_max_le (map (fun fl => optd (f_ty fl)) (r_fields m)) _) (le_n _)) as H.
  rewrite Forall_map in H. exact H.
Qed.

(* with the reader's fuel made explicit: anything above the writer's fuel plus `opt_depth` *)
Theorem c03_top_fuel : forall f H kw kr nm vw st b st' s k f',
  legal H = true -> history_neutral H = true ->
  (kw <= length (h_steps H))%nat -> (kr <= length (h_steps H))%nat ->
  let Ew := [mkD nm (DRecord (decl_at H kw))] in
  let Er := [mkD nm (DRecord (decl_at H kr))] in
  wf_val (S f) Ew (TNamed 0) (VNode 0 vw) = true ->
  enc (S f) Ew (TNamed 0) (VNode 0 vw) st = Ok (b, st') ->
  (S f + opt_depth (decl_at H kr) <= f')%nat ->
  match expected H kw kr vw with
  | Ok vs => exists rest st'',
      dec a_ops f' Er (TNamed 0) (mkA (b ++ s) k st) = Ok (VNode 0 vs, mkA rest k st'') /\
      (framed H kw kr = true -> rest = s)
  | Err e => dec a_ops f' Er (TNamed 0) (mkA (b ++ s) k st) = Err e
  | _ => False
  end.
Proof.
  intros f H kw kr nm vw st b st' s k f' Hl Hn Hkw Hkr Ew Er Hv He Hf'.
  subst Ew Er. rewrite wf_named_record in Hv. rewrite enc_named_record in He.
  pose proof (decl_at_good H kw Hn) as Gw. pose proof (decl_at_good H kr Hn) as Gr.
  set (M := opt_depth (decl_at H kr)) in *.
  destruct f' as [|g]; [lia|]. rewrite dec_named_record.
  (* the written values are well-formed for, and encoded by, the restricted codecs *)
  assert (Hv' : wf_fields (wN f) (r_fields (decl_at H kw)) vw = true).
  { eapply (wf_fields_impl_on good_ty); [|exact Gw|exact Hv].
    intros t v [Ht _] Hw. unfold wN. rewrite Ht. cbn [andb].
    eapply wf_val_neutral_mono; [|exact Ht|exact Hw]. lia. }
  assert (He' : enc_record (encN f) (decl_at H kw) vw st = Ok (b, st')).
  { rewrite <- He. apply (enc_record_mono_on good_ty); [|exact Gw|rewrite He; discriminate].
    intros t [Ht _] v0 st0. unfold encN. rewrite Ht. apply enc_ole_neutral; [lia | exact Ht]. }
  pose proof (c03 [] (encN f) (decN f) (wN f) nvN (encN_fields_neutral f)
                H kw kr vw st b st' s k Hl (history_neutral_wf H Hn) Hkw Hkr Hv' He') as C.
  rewrite norm_written_id in C.
  (* the reader at fuel g >= M + f extends the restricted decoders on the field types of version kr *)
  assert (Hext : extends (dec_record a_ops (decN f) (decl_at H kr))
                         (dec_record a_ops (dec a_ops g [mkD nm (DRecord (decl_at H kr))])
                                     (decl_at H kr))).
  { apply (dec_record_mono_on (fun t => neutral_ty t = true /\ (optd t <= M)%nat)).
    - intros t [A B]. split; [exact A | cbn [optd] in B; lia].
    - intros t [A B] s0. unfold decN. apply dec_ole_neutral; [lia | exact A].
    - pose proof (opt_depth_le (decl_at H kr)) as HM. fold M in HM.
      rewrite Forall_forall in *. intros fl Hin. split; [apply (Gr fl Hin) | apply (HM fl Hin)]. }
  destruct (expected H kw kr vw) as [vs|e|p|]; try contradiction.
  - destruct C as (rest & st'' & Hd & Hrest). exists rest, st''. split; [|exact Hrest].
    rewrite <- Hd. apply Hext. rewrite Hd. discriminate.
  - rewrite <- C. apply Hext. rewrite C. discriminate.
Qed.

Theorem c03_top : forall f H kw kr nm vw st b st' s k,
  legal H = true -> history_neutral H = true ->
  (kw <= length (h_steps H))%nat -> (kr <= length (h_steps H))%nat ->
  let Ew := [mkD nm (DRecord (decl_at H kw))] in
  let Er := [mkD nm (DRecord (decl_at H kr))] in
  wf_val (S f) Ew (TNamed 0) (VNode 0 vw) = true ->
  enc (S f) Ew (TNamed 0) (VNode 0 vw) st = Ok (b, st') ->
  exists f',   (* enough decoder fuel; more never hurts (dec_mono) *)
  match expected H kw kr vw with
  | Ok vs => exists rest st'',
      dec a_ops f' Er (TNamed 0) (mkA (b ++ s) k st) = Ok (VNode 0 vs, mkA rest k st'') /\
      (framed H kw kr = true -> rest = s)
  | Err e => dec a_ops f' Er (TNamed 0) (mkA (b ++ s) k st) = Err e
  | _ => False
  end.
Proof.
  intros f H kw kr nm vw st b st' s k Hl Hn Hkw Hkr Ew Er Hv He.
  exists (S f + opt_depth (decl_at H kr))%nat.
  exact (c03_top_fuel f H kw kr nm vw st b st' s k _ Hl Hn Hkw Hkr Hv He (le_n _)).
Qed.

Print Assumptions c03_top.
Print Assumptions c03_top_fuel.
Print Assumptions encN_fields_neutral.
