(* RecordChunkedSpec.v — statement of the round trip of records with an evolution header
   (definitions only; proved in RecordChunked.v). *)
From Coq Require Import NArith ZArith List Bool.
From Desert Require Import Outcome IO Types Codec CodecWf RecordRt.
Import ListNotations.
Open Scope N_scope.

(* limits of the header format itself (DESIGN section 9.3): a FieldMadeOptional entry names a
   chunk by one signed byte, so at most 127 steps; field names are UTF-8 (Rust identifiers) *)
Definition wf_rmeta_rt (m : rmeta) : bool :=
  (version_of (r_steps m) <=? 127) &&
  forallb (fun s => utf8_valid (step_name s)) (r_steps m).

Definition rt_record_chunked_stmt : Prop :=
  forall (E : env) (encf : ty -> encoder) (decf : ty -> adecoder)
         (w : ty -> val -> bool) (nv : ty -> val -> val),
    fields_ok E encf decf w nv ->
    forall m vs st b st' s k,
      r_steps m <> [] -> wf_rmeta E m = true -> wf_rmeta_rt m = true ->
      wf_fields w (r_fields m) vs = true ->
      enc_record encf m vs st = Ok (b, st') ->
      dec_record a_ops decf m (mkA (b ++ s) k st)
      = Ok (VNode 0 (norm_fields nv (r_fields m) vs), mkA s k st').
