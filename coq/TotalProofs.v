(* TotalProofs.v — decoding untrusted bytes is total on layer A: for every input state the
   decoder of a well-formed type never panics, and a successful decode leaves the region
   stack as it found it and consumes a prefix of the current bytes. *)
From Coq Require Import NArith ZArith List Lia Bool.
From Coq Require Import ZifyBool ZifyN ZifyNat.
From Desert Require Import Bits Outcome IO IOProofs Types Calendar Codec CodecWf.
Import ListNotations.
Open Scope N_scope.

Ltac Zify.zify_post_hook ::= Z.div_mod_to_equations.

(* ------------------------------------------------------------------ *)
(* the combined statement: no panic, and on success a frame condition  *)

Definition frame (s s' : astate) : Prop :=
  a_stack s' = a_stack s /\ exists c, a_cur s = c ++ a_cur s'.

Definition goodP {A} (P : A -> Prop) (m : outcome (A * astate)) (s : astate) : Prop :=
  match m with
  | Ok (a, s') => P a /\ frame s s'
  | Panic _ => False
  | _ => True
  end.

Definition good {A} (m : outcome (A * astate)) (s : astate) : Prop := goodP (fun _ => True) m s.

Definition gdec (d : astate -> outcome (val * astate)) : Prop := forall s, good (d s) s.

Lemma frame_refl s : frame s s.
Proof. split; [reflexivity | exists []; reflexivity]. Qed.

Lemma frame_trans s1 s2 s3 : frame s1 s2 -> frame s2 s3 -> frame s1 s3.
Proof.
  intros [H1 [c1 E1]] [H2 [c2 E2]]. split.
  - congruence.
  - exists (c1 ++ c2). rewrite E1, E2, app_assoc. reflexivity.
Qed.

Lemma goodP_bind {A B} (P : A -> Prop) (Q : B -> Prop) (m : outcome (A * astate))
    (k : A * astate -> outcome (B * astate)) s :
  goodP P m s ->
  (forall a s', P a -> frame s s' -> goodP Q (k (a, s')) s') ->
  goodP Q (bind m k) s.
Proof.
  intros Hm Hk. destruct m as [[a s'] | e | p | ]; cbn in *; auto.
  destruct Hm as [Pa Fr]. specialize (Hk a s' Pa Fr).
  destruct (k (a, s')) as [[b s''] | e | p | ]; cbn in *; auto.
  destruct Hk as [Qb Fr']. split; auto. eapply frame_trans; eauto.
Qed.

Lemma good_bind {A B} (Q : B -> Prop) (m : outcome (A * astate))
    (k : A * astate -> outcome (B * astate)) s :
  good m s ->
  (forall a s', frame s s' -> goodP Q (k (a, s')) s') ->
  goodP Q (bind m k) s.
Proof. intros Hm Hk. eapply goodP_bind; [exact Hm | intros; auto]. Qed.

Lemma goodP_weaken {A} (P Q : A -> Prop) m s :
  goodP P m s -> (forall a, P a -> Q a) -> goodP Q m s.
Proof. destruct m as [[a s'] | e | p | ]; cbn; auto. intros [H1 H2] H; auto. Qed.

Lemma goodP_good {A} (P : A -> Prop) m s : goodP P m s -> good m s.
Proof. intros H. eapply goodP_weaken; eauto. Qed.

Lemma goodP_ok {A} (P : A -> Prop) a s : P a -> goodP P (Ok (a, s)) s.
Proof. intros H. cbn. split; auto using frame_refl. Qed.

Lemma good_ok {A} (a : A) s : good (Ok (a, s)) s.
Proof. apply goodP_ok. exact I. Qed.

Lemma goodP_err {A} (P : A -> Prop) e s : goodP P (Err e) s.
Proof. exact I. Qed.

Lemma goodP_fuel {A} (P : A -> Prop) s : goodP P Fuel s.
Proof. exact I. Qed.

(* a computation that is good from a later state is good from an earlier one *)
Lemma goodP_frame {A} (P : A -> Prop) m s s' : frame s s' -> goodP P m s' -> goodP P m s.
Proof.
  intros Fr. destruct m as [[a s''] | e | p | ]; cbn; auto.
  intros [H1 H2]. split; auto. eapply frame_trans; eauto.
Qed.

Ltac aops :=
  cbn [a_ops d_rd d_take d_push d_pop d_empty d_str_get d_str_store a_reader
       r_u8 r_bytes r_skip list_reader].

(* ------------------------------------------------------------------ *)
(* primitive reads                                                      *)

Lemma r_u8_good s : good (r_u8 a_reader s) s.
Proof.
  aops. destruct s as [cur st strs]. cbn [a_cur]. destruct cur as [| b r]; cbn; auto.
  split; auto. split; cbn; auto. exists [b]. reflexivity.
Qed.

Lemma r_bytes_good n s : good (r_bytes a_reader n s) s.
Proof.
  aops. destruct s as [cur st strs]. cbn [a_cur].
  destruct (n <=? nlen cur) eqn:Hn; cbn; auto.
  split; auto. split; cbn; auto. exists (ntake n cur). symmetry. apply ntake_ndrop_app.
Qed.

Lemma read_be_good k s : good (read_be a_reader k s) s.
Proof.
  unfold read_be. eapply good_bind; [apply r_bytes_good|]. intros bs s' Fr. apply good_ok.
Qed.

Lemma read_i8_good s : good (read_i8 a_reader s) s.
Proof.
  unfold read_i8. eapply good_bind; [apply r_u8_good|]. intros b s' Fr. apply good_ok.
Qed.

Lemma read_signed_good k bits s : good (read_signed a_reader k bits s) s.
Proof.
  unfold read_signed. eapply good_bind; [apply read_be_good|]. intros b s' Fr. apply good_ok.
Qed.

Lemma read_var_u32_good s : good (read_var_u32 a_reader s) s.
Proof.
  unfold read_var_u32.
  eapply good_bind; [apply r_u8_good|]. intros b1 s1 Fr1. cbv beta iota zeta.
  destruct (N.land b1 128 =? 0); [apply good_ok|].
  eapply good_bind; [apply r_u8_good|]. intros b2 s2 Fr2. cbv beta iota zeta.
  destruct (N.land b2 128 =? 0); [apply good_ok|].
  eapply good_bind; [apply r_u8_good|]. intros b3 s3 Fr3. cbv beta iota zeta.
  destruct (N.land b3 128 =? 0); [apply good_ok|].
  eapply good_bind; [apply r_u8_good|]. intros b4 s4 Fr4. cbv beta iota zeta.
  destruct (N.land b4 128 =? 0); [apply good_ok|].
  eapply good_bind; [apply r_u8_good|]. intros b5 s5 Fr5. cbv beta iota zeta.
  apply good_ok.
Qed.

Lemma read_var_i32_good s : good (read_var_i32 a_reader s) s.
Proof.
  unfold read_var_i32. eapply good_bind; [apply read_var_u32_good|]. intros b s' Fr. apply good_ok.
Qed.

Lemma dec_utf8_good bs s : good (dec_utf8 bs s) s.
Proof. unfold dec_utf8. destruct (utf8_valid bs); [apply good_ok | exact I]. Qed.

Lemma dec_string_good s : good (dec_string a_ops s) s.
Proof.
  unfold dec_string. aops.
  eapply good_bind; [apply read_var_i32_good|]. intros id s1 Fr1. cbv beta iota.
  eapply good_bind; [apply r_bytes_good|]. intros bs s2 Fr2. cbv beta iota.
  apply dec_utf8_good.
Qed.

Lemma dec_dedup_good s : good (dec_dedup a_ops s) s.
Proof.
  unfold dec_dedup.
  eapply good_bind; [apply read_var_i32_good|]. intros c s1 Fr1. cbv beta iota.
  destruct (c <? 0)%Z.
  - destruct (c =? - 2 ^ 31)%Z; [exact I|].
    destruct (d_str_get a_ops s1 (- c)); [apply good_ok | exact I].
  - eapply good_bind; [apply r_bytes_good|]. intros bs s2 Fr2. cbv beta iota.
    eapply good_bind; [apply dec_utf8_good|]. intros v s3 Fr3. cbv beta iota.
    aops. cbn. split; auto. split; cbn; auto. exists []. reflexivity.
Qed.

Lemma dec_bytes_good s : good (dec_bytes a_ops s) s.
Proof.
  unfold dec_bytes.
  eapply good_bind; [apply read_var_u32_good|]. intros len s1 Fr1. cbv beta iota.
  eapply good_bind; [apply r_bytes_good|]. intros bs s2 Fr2. cbv beta iota.
  apply good_ok.
Qed.

(* --- features/chrono.rs helpers --- *)
Lemma dec_small_good lo hi s : good (dec_small a_ops lo hi s) s.
Proof.
  unfold dec_small.
  eapply good_bind; [apply read_i8_good|]. intros z s1 Fr1. cbv beta iota.
  destruct (_ && _); [apply good_ok | exact I].
Qed.

Lemma dec_offset_good s : good (dec_offset a_ops s) s.
Proof.
  unfold dec_offset.
  eapply good_bind; [apply r_u8_good|]. intros t s1 Fr1. cbv beta iota.
  destruct (t =? 0); [|exact I].
  eapply good_bind; [apply read_var_i32_good|]. intros z s2 Fr2. cbv beta iota.
  destruct (valid_offset z); [apply good_ok | exact I].
Qed.

Lemma dec_tz_good s : good (dec_tz a_ops s) s.
Proof.
  unfold dec_tz.
  eapply good_bind; [apply r_u8_good|]. intros t s1 Fr1. cbv beta iota.
  destruct (t =? 1); [|exact I].
  eapply good_bind; [apply dec_string_good|]. intros v s2 Fr2. cbv beta iota.
  destruct v; try exact I. destruct (tz_known bs); [apply good_ok | exact I].
Qed.

Lemma dec_ndate_good s : good (dec_ndate a_ops s) s.
Proof.
  unfold dec_ndate.
  eapply good_bind; [apply read_var_u32_good|]. intros y s1 Fr1. cbv beta iota.
  eapply good_bind; [apply r_u8_good|]. intros m s2 Fr2. cbv beta iota.
  eapply good_bind; [apply r_u8_good|]. intros d s3 Fr3. cbv beta iota zeta.
  destruct (valid_ymd _ m d); [apply good_ok | exact I].
Qed.

Lemma dec_ntime_good s : good (dec_ntime a_ops s) s.
Proof.
  unfold dec_ntime.
  eapply good_bind; [apply r_u8_good|]. intros h s1 Fr1. cbv beta iota.
  eapply good_bind; [apply r_u8_good|]. intros mi s2 Fr2. cbv beta iota.
  eapply good_bind; [apply r_u8_good|]. intros sec s3 Fr3. cbv beta iota.
  eapply good_bind; [apply read_var_u32_good|]. intros ns s4 Fr4. cbv beta iota.
  destruct (valid_hmsn h mi sec ns); [apply good_ok | exact I].
Qed.

Lemma dec_ndt_good s : good (dec_ndt a_ops s) s.
Proof.
  unfold dec_ndt.
  eapply good_bind; [apply dec_ndate_good|]. intros d s1 Fr1. cbv beta iota.
  eapply good_bind; [apply dec_ntime_good|]. intros t s2 Fr2. cbv beta iota.
  apply good_ok.
Qed.

Lemma dec_prim_good p s : supported_prim p = true -> good (dec_prim a_ops p s) s.
Proof.
  intros Hp. destruct p; try discriminate Hp; unfold dec_prim.
  all: try first [ apply dec_small_good | apply dec_offset_good | apply dec_tz_good
                 | apply dec_ndate_good | apply dec_ntime_good | apply dec_ndt_good ].
  all: try (eapply good_bind; [ first [ apply r_u8_good | apply read_i8_good | apply read_be_good
                                     | apply read_signed_good | apply r_bytes_good ] |];
            intros x s1 Fr1; cbv beta iota; try apply good_ok).
  - apply good_ok.
  - destruct (in_range 55296 57343 x); [exact I | apply good_ok].
  - apply dec_string_good.
  - apply dec_dedup_good.
  - eapply good_bind; [apply read_be_good|]. intros y s2 Fr2. cbv beta iota zeta.
    destruct (_ <? _); [apply good_ok | exact I].
  - apply dec_bytes_good.
  - eapply good_bind; [apply dec_bytes_good|]. intros v s1 Fr1. cbv beta iota.
    destruct v; try exact I. apply good_ok.
  - (* BigDecimal *)
    eapply good_bind; [apply dec_string_good|]. intros v s1 Fr1. cbv beta iota.
    destruct v; try exact I. destruct (BigDec.bd_parse bs); [apply good_ok | exact I].
  - (* DateTime<Utc> *)
    eapply good_bind; [apply read_be_good|]. intros y s2 Fr2. cbv beta iota.
    destruct (valid_ts x y); [apply good_ok | exact I].
  - (* DateTime<FixedOffset> *)
    eapply good_bind; [apply dec_ndt_good|]. intros dt s1 Fr1. cbv beta iota.
    eapply good_bind; [apply dec_offset_good|]. intros off s2 Fr2. cbv beta iota.
    destruct off; try exact I.
    destruct (valid_local_with_offset _ z); [apply good_ok | exact I].
  - (* DateTime<Tz> *)
    eapply good_bind; [apply dec_ndt_good|]. intros dt s1 Fr1. cbv beta iota.
    eapply good_bind; [apply dec_tz_good|]. intros tz s2 Fr2. cbv beta iota.
    apply good_ok.
  - (* var_u32 *)
    eapply good_bind; [apply read_var_u32_good|]. intros n s1 Fr1. cbv beta iota. apply good_ok.
  - (* var_i32 *)
    eapply good_bind; [apply read_var_i32_good|]. intros n s1 Fr1. cbv beta iota. apply good_ok.
Qed.

(* ------------------------------------------------------------------ *)
(* sequences                                                            *)

Lemma dec_known_good fuel d : gdec d -> forall n s, good (dec_known fuel d n s) s.
Proof.
  intros Hd. induction fuel as [| fl IH]; intros n s; cbn [dec_known].
  - destruct (n =? 0); [apply good_ok | exact I].
  - destruct (n =? 0); [apply good_ok|].
    eapply good_bind; [apply Hd|]. intros x s1 Fr1. cbv beta iota.
    eapply good_bind; [apply IH|]. intros xs s2 Fr2. cbv beta iota. apply good_ok.
Qed.

Lemma dec_unknown_good fuel d : gdec d -> forall s, good (dec_unknown a_ops fuel d s) s.
Proof.
  intros Hd. induction fuel as [| fl IH]; intros s; cbn [dec_unknown].
  - exact I.
  - eapply good_bind; [apply r_u8_good|]. intros tag s1 Fr1. cbv beta iota.
    destruct (tag =? 0); [apply good_ok|].
    destruct (tag =? 1); [| exact I].
    eapply good_bind; [apply Hd|]. intros x s2 Fr2. cbv beta iota.
    eapply good_bind; [apply IH|]. intros xs s3 Fr3. cbv beta iota. apply good_ok.
Qed.

Lemma dec_seq_items_good fuel d s : gdec d -> good (dec_seq_items a_ops fuel d s) s.
Proof.
  intros Hd. unfold dec_seq_items.
  pose proof (read_var_i32_good s) as H.
  change (d_rd a_ops) with a_reader.
  destruct (read_var_i32 a_reader s) as [[n s1] | e | p | ];
    unfold good, goodP in H; try exact I.
  - destruct H as [_ Fr]. eapply goodP_frame; [exact Fr|].
    destruct (n =? -1)%Z; [apply dec_unknown_good; assumption |].
    destruct (n <? 0)%Z; [exact I | apply dec_known_good; assumption].
  - destruct H.
Qed.

(* ------------------------------------------------------------------ *)
(* list helpers                                                         *)

Lemma set_nth_length {A} (l : list A) i x : length (set_nth l i x) = length l.
Proof.
  revert i. induction l as [| y r IH]; intros i; cbn [set_nth]; [reflexivity|].
  destruct i; cbn [length]; [reflexivity | rewrite IH; reflexivity].
Qed.

Lemma set_nth_Forall {A} (P : A -> Prop) (l : list A) i x :
  Forall P l -> P x -> Forall P (set_nth l i x).
Proof.
  intros Hl Hx. revert i. induction Hl as [| y r Hy Hr IH]; intros i; cbn [set_nth]; [constructor|].
  destruct i; constructor; auto.
Qed.

Lemma last_index_where_bound p steps : forall i acc c,
  last_index_where p steps i acc = Some c ->
  acc = Some c \/ (i <= c /\ c < i + N.of_nat (length steps)).
Proof.
  induction steps as [| st r IH]; intros i acc c H; cbn [last_index_where] in H.
  - left. exact H.
  - apply IH in H. cbn [length]. destruct H as [H | H].
    + destruct (p st).
      * right. injection H as H. lia.
      * left. exact H.
    + right. lia.
Qed.

Lemma field_generation_bound steps n :
  (N.to_nat (match field_generation steps n with Some c => c | None => 0 end) <= length steps)%nat.
Proof.
  unfold field_generation.
  destruct (last_index_where _ steps 1 None) as [c |] eqn:H; [| lia].
  apply last_index_where_bound in H. destruct H as [H | H]; [discriminate | lia].
Qed.

(* ------------------------------------------------------------------ *)
(* the AdtDeserializer invariant                                        *)

Definition ad_inv (steps : list step) (k : Z) (ad : @adt_de bytes) : Prop :=
  length (ad_last ad) = S (length steps) /\
  Forall (fun z => (z <= k)%Z) (ad_last ad) /\
  (length (ad_inputs ad) = 0%nat \/ length (ad_inputs ad) = S (N.to_nat (ad_stored ad))).

Lemma ad_inv_mono steps k k' ad : (k <= k')%Z -> ad_inv steps k ad -> ad_inv steps k' ad.
Proof.
  intros Hk (H1 & H2 & H3). split; [| split]; auto.
  eapply Forall_impl; [| exact H2]. cbv beta. intros; lia.
Qed.

Lemma ad_new_v0_inv steps : ad_inv steps (-1) (@ad_new_v0 bytes steps).
Proof.
  unfold ad_new_v0, ad_inv. cbn [ad_last ad_inputs ad_stored]. split; [| split].
  - apply repeat_length.
  - apply Forall_forall. intros z Hz. apply repeat_spec in Hz. lia.
  - left. reflexivity.
Qed.

Lemma d_take_good n s : good (d_take a_ops n s) s.
Proof.
  aops. destruct s as [cur st strs]. cbn [a_cur].
  destruct (n <=? nlen cur); [| exact I]. cbn.
  split; auto. split; auto. exists (ntake n cur). symmetry. apply ntake_ndrop_app.
Qed.

Lemma dec_sstep_good s : good (dec_sstep a_ops s) s.
Proof.
  unfold dec_sstep.
  eapply good_bind; [apply read_var_i32_good|]. intros code s1 Fr1. cbv beta iota.
  destruct (code =? 0)%Z; [apply good_ok|].
  destruct (code =? -1)%Z.
  - eapply good_bind; [apply read_i8_good|]. intros b s2 Fr2. cbv beta iota.
    destruct (b <? 0)%Z; [| apply good_ok].
    destruct (b =? -128)%Z; [exact I | apply good_ok].
  - destruct (code =? -2)%Z; [| apply good_ok].
    eapply good_bind; [apply dec_dedup_good|]. intros v s2 Fr2. cbv beta iota.
    destruct v; try exact I. apply good_ok.
Qed.

Lemma dec_ssteps_good n : forall s,
  goodP (fun xs => length xs = n) (dec_ssteps a_ops n s) s.
Proof.
  induction n as [| n IH]; intros s; cbn [dec_ssteps].
  - apply goodP_ok. reflexivity.
  - eapply good_bind; [apply dec_sstep_good|]. intros x s1 Fr1. cbv beta iota.
    eapply goodP_bind; [apply IH|]. intros xs s2 Hxs Fr2. cbv beta iota.
    apply goodP_ok. cbn [length]. congruence.
Qed.

Lemma take_chunks_good ss : forall idx s,
  goodP (fun r => length (fst (fst r)) = length ss) (take_chunks a_ops ss idx s) s.
Proof.
  induction ss as [| x r IH]; intros idx s; cbn [take_chunks].
  - apply goodP_ok. reflexivity.
  - destruct x.
    + eapply good_bind; [apply d_take_good|]. intros rg s1 Fr1. cbv beta iota.
      eapply goodP_bind; [apply IH|]. intros [[inputs mo] rem] s2 Hl Fr2. cbv beta iota.
      apply goodP_ok. cbn [fst length] in *. congruence.
    + eapply goodP_bind; [apply IH|]. intros [[inputs mo] rem] s2 Hl Fr2. cbv beta iota.
      apply goodP_ok. cbn [fst length] in *. congruence.
    + eapply goodP_bind; [apply IH|]. intros [[inputs mo] rem] s2 Hl Fr2. cbv beta iota.
      apply goodP_ok. cbn [fst length] in *. congruence.
    + eapply goodP_bind; [apply IH|]. intros [[inputs mo] rem] s2 Hl Fr2. cbv beta iota.
      apply goodP_ok. cbn [fst length] in *. congruence.
Qed.

Lemma ad_new_good steps stored s :
  goodP (ad_inv steps (-1)) (ad_new a_ops steps stored s) s.
Proof.
  unfold ad_new.
  eapply goodP_bind; [apply dec_ssteps_good|]. intros ss s1 Hss Fr1. cbv beta iota.
  eapply goodP_bind; [apply take_chunks_good|]. intros [[inputs mo] rem] s2 Hl Fr2. cbv beta iota.
  apply goodP_ok. cbn [fst] in Hl.
  unfold ad_inv. cbn [ad_last ad_inputs ad_stored]. split; [| split].
  - apply repeat_length.
  - apply Forall_forall. intros z Hz. apply repeat_spec in Hz. lia.
  - right. congruence.
Qed.

Lemma ad_open_good steps s :
  goodP (ad_inv steps (-1)) (ad_open a_ops steps s) s.
Proof.
  unfold ad_open.
  eapply good_bind; [apply r_u8_good|]. intros stored s1 Fr1. cbv beta iota.
  destruct (stored =? 0).
  - apply goodP_ok. apply ad_new_v0_inv.
  - apply ad_new_good.
Qed.

Lemma ad_record_index_ok steps k (ad : @adt_de bytes) chunk :
  ad_inv steps k ad -> (k <= 126)%Z -> (N.to_nat chunk <= length steps)%nat ->
  exists fp ad', ad_record_index ad chunk = Ok (fp, ad') /\
                 ad_inv steps (k + 1) ad' /\ ad_stored ad' = ad_stored ad.
Proof.
  intros (H1 & H2 & H3) Hk Hc. unfold ad_record_index.
  destruct (nth_error (ad_last ad) (N.to_nat chunk)) as [last |] eqn:Hn.
  - assert (Hl : (last <= k)%Z).
    { apply nth_error_In in Hn. rewrite Forall_forall in H2. apply H2. exact Hn. }
    destruct (127 <? last + 1)%Z eqn:Hov; [lia|].
    eexists _, _. split; [reflexivity|]. split; [| reflexivity].
    unfold ad_inv. cbn [ad_last ad_inputs ad_stored]. split; [| split]; auto.
    + rewrite set_nth_length. exact H1.
    + apply set_nth_Forall; [| lia].
      eapply Forall_impl; [| exact H2]. cbv beta. intros; lia.
  - apply nth_error_None in Hn. lia.
Qed.

Lemma in_chunk_good {A} (P : A -> Prop) steps k ad chunk
    (body : astate -> outcome (A * astate)) s :
  ad_inv steps k ad -> chunk <= ad_stored ad ->
  (forall s, goodP P (body s) s) ->
  goodP (fun r => P (fst r) /\ ad_inv steps k (snd r)) (in_chunk a_ops ad chunk body s) s.
Proof.
  intros Hinv Hc Hb. unfold in_chunk.
  destruct (ad_inputs ad) as [| i0 ir] eqn:Hi.
  - eapply goodP_bind; [apply Hb|]. intros a s1 Pa Fr1. cbv beta iota.
    apply goodP_ok. cbn [fst snd]. auto.
  - rewrite <- Hi.
    destruct (nth_error (ad_inputs ad) (N.to_nat chunk)) as [rg |] eqn:Hn.
    + aops. cbn [bind].
      pose proof (Hb (mkA rg (a_cur s :: a_stack s) (a_strs s))) as H.
      destruct (body (mkA rg (a_cur s :: a_stack s) (a_strs s))) as [[a s1] | e | p | ];
        cbn [bind]; try exact I; [| destruct H].
      cbv beta iota. destruct H as [Pa [Hst [c Hcur]]]. cbn [a_stack a_cur] in Hst, Hcur.
      rewrite Hst. cbn [bind]. cbv beta iota. cbn [goodP fst snd].
      split; [split; [exact Pa|] |].
      * destruct Hinv as (H1 & H2 & H3). unfold ad_inv, ad_set_input.
        cbn [ad_last ad_inputs ad_stored]. rewrite set_nth_length. auto.
      * split; cbn [a_stack a_cur]; [reflexivity | exists []; reflexivity].
    + apply nth_error_None in Hn. destruct Hinv as (H1 & H2 & H3).
      rewrite Hi in *. cbn [length] in *. lia.
Qed.

Lemma read_field_good steps d n dflt k ad s :
  gdec d -> ad_inv steps k ad -> (k <= 126)%Z ->
  goodP (fun r => ad_inv steps (k + 1) (snd r)) (read_field a_ops steps d n dflt ad s) s.
Proof.
  intros Hd Hinv Hk. unfold read_field.
  destruct (mem_name n (ad_removed ad)); [exact I|]. cbv zeta.
  destruct (ad_record_index_ok steps k ad _ Hinv Hk (field_generation_bound steps n))
    as (fp & ad' & He & Hinv' & Hst).
  rewrite He. cbn [bind]. cbv beta iota.
  destruct (ad_stored ad' <? _) eqn:Hlt.
  - destruct dflt; [| exact I]. apply goodP_ok. exact Hinv'.
  - eapply goodP_weaken.
    + eapply in_chunk_good with (P := fun _ => True); [exact Hinv' | lia |].
      intros s0. destruct (mem_pos fp (ad_mo ad')); [| apply Hd].
      eapply good_bind; [apply r_u8_good|]. intros b s1 Fr1. cbv beta iota.
      destruct (b =? 0); [exact I | apply Hd].
    + cbv beta. intros a [_ H]. exact H.
Qed.

Lemma read_optional_field_good steps d n dflt k ad s :
  gdec d -> ad_inv steps k ad -> (k <= 126)%Z ->
  goodP (fun r => ad_inv steps (k + 1) (snd r)) (read_optional_field a_ops steps d n dflt ad s) s.
Proof.
  intros Hd Hinv Hk. unfold read_optional_field.
  destruct (mem_name n (ad_removed ad)).
  { apply goodP_ok. cbn [snd]. eapply ad_inv_mono; [| exact Hinv]. lia. }
  cbv zeta.
  destruct (ad_record_index_ok steps k ad _ Hinv Hk (field_generation_bound steps n))
    as (fp & ad' & He & Hinv' & Hst).
  rewrite He. cbn [bind]. cbv beta iota.
  destruct (ad_stored ad' <? match field_generation steps n with Some c => c | None => 0 end) eqn:Hlt.
  - destruct dflt; [| exact I]. apply goodP_ok. exact Hinv'.
  - eapply goodP_weaken.
    + eapply in_chunk_good with (P := fun _ => True); [exact Hinv' | lia |].
      intros s0.
      destruct (ad_stored ad' <? match made_optional_at steps n with Some i => i | None => 0 end).
      * eapply good_bind; [apply Hd|]. intros x s1 Fr1. cbv beta iota. apply good_ok.
      * eapply good_bind; [apply r_u8_good|]. intros tag s1 Fr1. cbv beta iota.
        destruct (tag =? 0); [apply good_ok|].
        destruct (tag =? 1); [| exact I].
        eapply good_bind; [apply Hd|]. intros x s2 Fr2. cbv beta iota. apply good_ok.
    + cbv beta. intros a [_ H]. exact H.
Qed.

(* ------------------------------------------------------------------ *)
(* records                                                              *)

Definition fields_ok (E : env) (fs : list field) : bool := forallb (fun f => wf_ty E (f_ty f)) fs.

Lemma read_fields_good decf E steps :
  (forall t, wf_ty E t = true -> gdec (decf t)) ->
  forall fs k ad s,
    fields_ok E fs = true -> ad_inv steps k ad -> (k + Z.of_nat (length fs) <= 126)%Z ->
    good (read_fields a_ops decf steps fs ad s) s.
Proof.
  intros Hdec. induction fs as [| f r IH]; intros k ad s Hfs Hinv Hk; cbn [read_fields].
  - apply good_ok.
  - cbn [fields_ok forallb] in Hfs. apply andb_true_iff in Hfs. destruct Hfs as [Hf Hr].
    cbn [length] in Hk.
    eapply goodP_bind with (P := fun r => ad_inv steps (k + 1) (snd r)).
    + destruct (f_transient f) as [dflt |].
      * apply goodP_ok. cbn [snd]. eapply ad_inv_mono; [| exact Hinv]. lia.
      * cbv zeta. destruct (f_opt f).
        -- destruct (f_ty f) as [ | t' | | | | | | | ] eqn:Ht; try exact I.
           apply read_optional_field_good; [| exact Hinv | lia].
           apply Hdec. cbn [wf_ty] in Hf. exact Hf.
        -- apply read_field_good; [| exact Hinv | lia]. apply Hdec. exact Hf.
    + intros [v ad1] s1 Hinv1 Fr1. cbn [snd] in Hinv1. cbv beta iota.
      eapply good_bind; [eapply IH; [exact Hr | exact Hinv1 | lia] |].
      intros [vs ad2] s2 Fr2. cbv beta iota. apply good_ok.
Qed.

Definition rmeta_ok (E : env) (m : rmeta) : Prop :=
  version_of (r_steps m) < 255 /\ (length (r_fields m) <= 127)%nat /\
  fields_ok E (r_fields m) = true.

Lemma dec_record_good decf E m :
  (forall t, wf_ty E t = true -> gdec (decf t)) ->
  rmeta_ok E m -> gdec (dec_record a_ops decf m).
Proof.
  intros Hdec (Hv & Hl & Hf) s. unfold dec_record.
  destruct (255 <=? version_of (r_steps m)) eqn:Hver; [lia|].
  eapply goodP_bind; [apply ad_open_good|]. intros ad s1 Hinv Fr1. cbv beta iota.
  eapply good_bind; [eapply read_fields_good; [exact Hdec | exact Hf | exact Hinv | lia] |].
  intros [vs ad2] s2 Fr2. cbv beta iota. apply good_ok.
Qed.

Lemma wf_rmeta_ok E m : wf_rmeta E m = true -> rmeta_ok E m.
Proof.
  unfold wf_rmeta, rmeta_ok. intros H.
  apply andb_true_iff in H. destruct H as [H H4].
  apply andb_true_iff in H. destruct H as [H H3].
  apply andb_true_iff in H. destruct H as [H1 H2].
  split; [lia | split].
  - rewrite nlen_length in H2. lia.
  - unfold fields_ok. apply forallb_forall. intros f Hin.
    rewrite forallb_forall in H4. specialize (H4 f Hin). unfold wf_field in H4.
    apply andb_true_iff in H4. destruct H4 as [H4 _].
    apply andb_true_iff in H4. destruct H4 as [H4 _]. exact H4.
Qed.

Lemma tuple_fields_length ts : forall i, length (tuple_fields ts i) = length ts.
Proof. induction ts as [| t r IH]; intros i; cbn [tuple_fields length]; [| rewrite IH]; reflexivity. Qed.

Lemma tuple_fields_ok E ts : forall i, forallb (wf_ty E) ts = true -> fields_ok E (tuple_fields ts i) = true.
Proof.
  induction ts as [| t r IH]; intros i H; cbn [tuple_fields fields_ok forallb] in *; [reflexivity|].
  apply andb_true_iff in H. destruct H as [H1 H2]. cbn [f_ty]. rewrite H1. cbn [andb].
  apply IH. exact H2.
Qed.

Lemma tuple_meta_ok E ts : wf_ty E (TTuple ts) = true -> rmeta_ok E (tuple_meta ts).
Proof.
  cbn [wf_ty]. intros H.
  apply andb_true_iff in H. destruct H as [H H3].
  apply andb_true_iff in H. destruct H as [H1 H2].
  unfold rmeta_ok, tuple_meta. cbn [r_steps r_fields]. split; [| split].
  - unfold version_of. cbn [length]. lia.
  - rewrite tuple_fields_length. rewrite nlen_length in H2. lia.
  - apply tuple_fields_ok. exact H3.
Qed.

(* ------------------------------------------------------------------ *)
(* enums                                                                *)

Lemma read_ctor_idx_good steps k ad s :
  ad_inv steps k ad ->
  goodP (fun r => ad_inv steps k (snd r)) (read_ctor_idx a_ops ad s) s.
Proof.
  intros Hinv. unfold read_ctor_idx. destruct (ad_ctor ad) as [i |].
  - apply goodP_ok. exact Hinv.
  - eapply goodP_bind.
    + eapply in_chunk_good with (P := fun _ => True); [exact Hinv | lia |].
      intros s0. apply read_var_u32_good.
    + intros [i ad1] s1 [_ Hinv1] Fr1. cbv beta iota. apply goodP_ok.
      cbn [snd] in *. destruct Hinv1 as (H1 & H2 & H3).
      unfold ad_inv. cbn [ad_last ad_inputs ad_stored]. auto.
Qed.

Lemma read_cases_good decf E tyname :
  (forall t, wf_ty E t = true -> gdec (decf t)) ->
  forall cs idx k ad s,
    Forall (fun c => rmeta_ok E (v_rec (snd c))) cs -> ad_inv [] k ad ->
    good (read_cases a_ops decf tyname cs idx ad s) s.
Proof.
  intros Hdec. induction cs as [| [decl_idx var] r IH]; intros idx k ad s Hcs Hinv; cbn [read_cases].
  - eapply goodP_bind; [apply read_ctor_idx_good; exact Hinv |].
    intros [i ad1] s1 _ Fr1. cbv beta iota. exact I.
  - inversion Hcs as [| c0 r0 Hc Hr]; subst. cbn [snd] in Hc.
    eapply goodP_bind; [apply read_ctor_idx_good; exact Hinv |].
    intros [i ad1] s1 Hinv1 Fr1. cbn [snd] in Hinv1. cbv beta iota.
    destruct (i =? idx).
    + destruct (v_transient var); [exact I|].
      eapply goodP_bind.
      * eapply in_chunk_good with (P := fun _ => True); [exact Hinv1 | lia |].
        intros s0. apply dec_record_good with (E := E); assumption.
      * intros [v ad2] s2 _ Fr2. cbv beta iota. destruct v; try exact I. apply good_ok.
    + eapply IH; eassumption.
Qed.

Lemma insert_variant_In x l y : In y (insert_variant x l) -> y = x \/ In y l.
Proof.
  induction l as [| z r IH]; cbn [insert_variant]; intros H.
  - destruct H as [H | []]. left. congruence.
  - destruct (bytes_leb _ _).
    + destruct H as [H | H]; [right; left; exact H|].
      apply IH in H. destruct H; [left | right; right]; assumption.
    + destruct H as [H | H]; [left; congruence | right; exact H].
Qed.

Lemma sort_variants_In l : forall y, In y (sort_variants l) -> In y l.
Proof.
  unfold sort_variants.
  assert (H : forall acc y, In y (fold_left (fun acc x => insert_variant x acc) l acc) ->
                            In y acc \/ In y l).
  { induction l as [| x r IH]; intros acc y Hy; cbn [fold_left] in Hy.
    - left. exact Hy.
    - apply IH in Hy. destruct Hy as [Hy | Hy].
      + apply insert_variant_In in Hy. destruct Hy as [Hy | Hy]; [right; left; congruence | left; exact Hy].
      + right. right. exact Hy. }
  intros y Hy. apply H in Hy. destruct Hy as [[] | Hy]. exact Hy.
Qed.

Lemma number_from_In {A} (l : list A) : forall i c, In c (number_from i l) -> In (snd c) l.
Proof.
  induction l as [| x r IH]; intros i c H; cbn [number_from] in H; [destruct H|].
  destruct H as [H | H]; [left; subst c; reflexivity | right; eapply IH; exact H].
Qed.

Lemma cases_of_In m c : In c (cases_of m) -> In (snd c) (e_variants m).
Proof.
  unfold cases_of. destruct (e_sorted m); intros H.
  - apply sort_variants_In in H. eapply number_from_In; exact H.
  - eapply number_from_In; exact H.
Qed.

Lemma dec_enum_good decf E tyname m :
  (forall t, wf_ty E t = true -> gdec (decf t)) ->
  forallb (fun v => wf_rmeta E (v_rec v)) (e_variants m) = true ->
  gdec (dec_enum a_ops decf tyname m).
Proof.
  intros Hdec Hm s. unfold dec_enum.
  eapply goodP_bind; [apply ad_open_good|]. intros ad s1 Hinv Fr1. cbv beta iota.
  eapply read_cases_good; [exact Hdec | | exact Hinv].
  apply Forall_forall. intros c Hc. apply cases_of_In in Hc.
  rewrite forallb_forall in Hm. apply wf_rmeta_ok. apply Hm. exact Hc.
Qed.

(* ------------------------------------------------------------------ *)
(* the decoder                                                          *)

Lemma collect_no_panic k items : is_panic (collect k items) = false.
Proof. destruct k; cbn [collect]; try reflexivity. destruct (_ =? _); reflexivity. Qed.

Theorem decA_good : forall f E,
  wf_env E = true -> forall t, wf_ty E t = true -> gdec (dec a_ops f E t).
Proof.
  intros f E HE. induction f as [| f IH]; intros t Ht s; cbn [dec]; [exact I|].
  destruct t as [p | t' | r e | ts | k e | k kt vt | w t' | | n].
  - apply dec_prim_good. exact Ht.
  - cbn [wf_ty] in Ht.
    eapply good_bind; [apply r_u8_good|]. intros tag s1 Fr1. cbv beta iota.
    destruct (tag =? 0); [apply good_ok|]. destruct (tag =? 1); [| exact I].
    eapply good_bind; [apply IH; exact Ht|]. intros x s2 Fr2. cbv beta iota. apply good_ok.
  - cbn [wf_ty] in Ht. apply andb_true_iff in Ht. destruct Ht as [Hr He].
    eapply good_bind; [apply r_u8_good|]. intros tag s1 Fr1. cbv beta iota.
    destruct (tag =? 0).
    { eapply good_bind; [apply IH; exact He|]. intros x s2 Fr2. cbv beta iota. apply good_ok. }
    destruct (tag =? 1); [| exact I].
    eapply good_bind; [apply IH; exact Hr|]. intros x s2 Fr2. cbv beta iota. apply good_ok.
  - apply dec_record_good with (E := E); [exact IH | apply tuple_meta_ok; exact Ht].
  - cbn [wf_ty] in Ht. destruct (byte_path k e).
    + eapply good_bind; [apply dec_bytes_good|]. intros v s1 Fr1. cbv beta iota.
      destruct k; try apply good_ok. destruct v; try apply good_ok.
      destruct (_ =? _); [apply good_ok | exact I].
    + eapply good_bind; [apply dec_seq_items_good; apply IH; exact Ht|].
      intros items s1 Fr1. cbv beta iota.
      pose proof (collect_no_panic k items) as Hc.
      destruct (collect k items) as [v | er | p | ]; cbn [bind]; try exact I; [apply good_ok | discriminate Hc].
  - cbn [wf_ty] in Ht.
    eapply good_bind.
    + apply dec_seq_items_good. apply IH. cbn [wf_ty nlen forallb].
      apply andb_true_iff in Ht. destruct Ht as [H1 H2]. rewrite H1, H2. reflexivity.
    + intros items s1 Fr1. cbv beta iota. apply good_ok.
  - cbn [wf_ty] in Ht. apply IH. exact Ht.
  - apply good_ok.
  - cbn [wf_ty] in Ht. destruct (lookup_decl E n) as [d |] eqn:Hd; [| discriminate Ht].
    unfold lookup_decl in Hd. apply nth_error_In in Hd.
    unfold wf_env in HE. rewrite forallb_forall in HE. specialize (HE d Hd).
    unfold wf_decl in HE. destruct (d_body d) as [m | m].
    + apply dec_record_good with (E := E); [exact IH | apply wf_rmeta_ok; exact HE].
    + apply dec_enum_good with (E := E); [exact IH | exact HE].
Qed.

Theorem decA_no_panic : forall f E t s,
  wf_env E = true -> wf_ty E t = true -> is_panic (dec a_ops f E t s) = false.
Proof.
  intros f E t s HE Ht. pose proof (decA_good f E HE t Ht s) as H.
  unfold good, goodP in H. destruct (dec a_ops f E t s) as [[v s'] | e | p | ]; try reflexivity.
  destruct H.
Qed.

Theorem decA_frame : forall f E t s v s',
  wf_env E = true -> wf_ty E t = true -> dec a_ops f E t s = Ok (v, s') ->
  a_stack s' = a_stack s /\ exists c, a_cur s = c ++ a_cur s'.
Proof.
  intros f E t s v s' HE Ht Hd. pose proof (decA_good f E HE t Ht s) as H.
  unfold good, goodP in H. rewrite Hd in H. destruct H as [_ H]. exact H.
Qed.

Print Assumptions decA_no_panic.
Print Assumptions decA_frame.
