(* Evolution.v — C03: data written by version kw of a record is read by version kr of the same
   history with exactly the documented outcome (proof of EvolutionSpec.c03_stmt). *)
From Coq Require Import NArith ZArith List Lia Bool.
From Coq Require Import ZifyBool ZifyN ZifyNat.
From Desert Require Import Bits Outcome IO IOProofs VarintProofs Types Codec CodecWf CodecLemmas
  CodecRt History RecordRt RecordChunkedSpec RecordChunked EvolutionSpec.
Import ListNotations.
Open Scope N_scope.

Ltac Zify.zify_post_hook ::= Z.div_mod_to_equations.

(* ================================================================== *)
(* 1. the tables derived from the steps                                *)

Definition is_add (n : name) (s : step) : bool :=
  match s with SAdded m _ => bytes_eqb m n | _ => false end.
Definition is_opt (n : name) (s : step) : bool :=
  match s with SMadeOptional m => bytes_eqb m n | _ => false end.
Definition is_rem (n : name) (s : step) : bool :=
  match s with SRemoved m | SMadeTransient m => bytes_eqb m n | _ => false end.
Definition has_opt (steps : list step) (n : name) : bool := existsb (is_opt n) steps.
Definition opt_since (steps : list step) (n : name) : N :=
  match made_optional_at steps n with Some i => i | None => 0 end.

Lemma fg_unfold steps n : field_generation steps n = last_index_where (is_add n) steps 1 None.
Proof. reflexivity. Qed.
Lemma mo_unfold steps n : made_optional_at steps n = last_index_where (is_opt n) steps 1 None.
Proof. reflexivity. Qed.
Lemma rem_unfold steps n : in_removed steps n = existsb (is_rem n) steps.
Proof. reflexivity. Qed.

Lemma bytes_eqb_sym a b : bytes_eqb a b = bytes_eqb b a.
Proof.
  destruct (bytes_eqb a b) eqn:E1, (bytes_eqb b a) eqn:E2; try reflexivity.
  - apply bytes_eqb_eq in E1. subst. rewrite bytes_eqb_refl in E2. discriminate.
  - apply bytes_eqb_eq in E2. subst. rewrite bytes_eqb_refl in E1. discriminate.
Qed.

Lemma liw_app p a : forall b i acc,
  last_index_where p (a ++ b) i acc = last_index_where p b (i + nlen a) (last_index_where p a i acc).
Proof.
  induction a as [|x a IH]; intros b i acc; cbn [app last_index_where nlen].
  - rewrite N.add_0_r. reflexivity.
  - rewrite IH. f_equal. lia.
Qed.

Lemma liw_map p (g : step -> step) l : (forall a, p (g a) = p a) ->
  forall i acc, last_index_where p (map g l) i acc = last_index_where p l i acc.
Proof.
  intros Hg. induction l as [|x l IH]; intros i acc; cbn [map last_index_where]; [reflexivity|].
  rewrite Hg. apply IH.
Qed.

Lemma liw_none_iff p l : forall i acc,
  last_index_where p l i acc = None <-> acc = None /\ existsb p l = false.
Proof.
  induction l as [|x l IH]; intros i acc; cbn [last_index_where existsb].
  - tauto.
  - rewrite IH. destruct (p x); cbn [orb]; split; intros [H1 H2]; try discriminate; auto.
Qed.

Lemma nlen_map {A B} (g : A -> B) l : nlen (map g l) = nlen l.
Proof. rewrite !nlen_length, map_length. reflexivity. Qed.

Lemma is_add_wrap n x s : is_add n (wrap_default x s) = is_add n s.
Proof. destruct s; cbn [wrap_default is_add]; try reflexivity. destruct (bytes_eqb n0 x); reflexivity. Qed.
Lemma is_opt_wrap n x s : is_opt n (wrap_default x s) = is_opt n s.
Proof. destruct s; cbn [wrap_default is_opt]; try reflexivity. destruct (bytes_eqb n0 x); reflexivity. Qed.
Lemma is_rem_wrap n x s : is_rem n (wrap_default x s) = is_rem n s.
Proof. destruct s; cbn [wrap_default is_rem]; try reflexivity. destruct (bytes_eqb n0 x); reflexivity. Qed.
Lemma step_name_wrap x s : step_name (wrap_default x s) = step_name s.
Proof. destruct s; cbn [wrap_default step_name]; try reflexivity. destruct (bytes_eqb n x); reflexivity. Qed.

Lemma existsb_map_ext {A} (p : A -> bool) (g : A -> A) l :
  (forall a, p (g a) = p a) -> existsb p (map g l) = existsb p l.
Proof. intros Hg. induction l as [|x l IH]; cbn [map existsb]; [reflexivity|]. rewrite Hg, IH. reflexivity. Qed.

Lemma fg_wrap x s n : field_generation (map (wrap_default x) s) n = field_generation s n.
Proof. rewrite !fg_unfold. apply liw_map. intros a. apply is_add_wrap. Qed.
Lemma mo_wrap x s n : made_optional_at (map (wrap_default x) s) n = made_optional_at s n.
Proof. rewrite !mo_unfold. apply liw_map. intros a. apply is_opt_wrap. Qed.
Lemma rem_wrap x s n : in_removed (map (wrap_default x) s) n = in_removed s n.
Proof. rewrite !rem_unfold. apply existsb_map_ext. intros a. apply is_rem_wrap. Qed.
Lemma has_opt_wrap x s n : has_opt (map (wrap_default x) s) n = has_opt s n.
Proof. unfold has_opt. apply existsb_map_ext. intros a. apply is_opt_wrap. Qed.

Lemma fg_snoc s a n :
  field_generation (s ++ [a]) n = if is_add n a then Some (nlen s + 1) else field_generation s n.
Proof.
  rewrite !fg_unfold, liw_app. cbn [last_index_where]. rewrite (N.add_comm 1). reflexivity.
Qed.
Lemma mo_snoc s a n :
  made_optional_at (s ++ [a]) n = if is_opt n a then Some (nlen s + 1) else made_optional_at s n.
Proof.
  rewrite !mo_unfold, liw_app. cbn [last_index_where]. rewrite (N.add_comm 1). reflexivity.
Qed.
Lemma rem_snoc s a n : in_removed (s ++ [a]) n = in_removed s n || is_rem n a.
Proof. rewrite !rem_unfold, existsb_app. cbn [existsb]. rewrite orb_false_r. reflexivity. Qed.
Lemma has_opt_snoc s a n : has_opt (s ++ [a]) n = has_opt s n || is_opt n a.
Proof. unfold has_opt. rewrite existsb_app. cbn [existsb]. rewrite orb_false_r. reflexivity. Qed.

Lemma mo_none_iff s n : made_optional_at s n = None <-> has_opt s n = false.
Proof. rewrite mo_unfold, liw_none_iff. unfold has_opt. tauto. Qed.

Lemma fg_none_iff s n : field_generation s n = None <-> existsb (is_add n) s = false.
Proof. rewrite fg_unfold, liw_none_iff. tauto. Qed.

Lemma opt_since_le s n : opt_since s n <= nlen s.
Proof.
  unfold opt_since. destruct (made_optional_at s n) eqn:E; [|lia]. apply mo_bound in E. exact E.
Qed.

Lemma has_opt_in s n : has_opt s n = true <-> In (SMadeOptional n) s.
Proof.
  unfold has_opt. rewrite existsb_exists. split.
  - intros (a & Hin & Ha). destruct a; try discriminate. cbn [is_opt] in Ha.
    apply bytes_eqb_eq in Ha. subst. exact Hin.
  - intros Hin. exists (SMadeOptional n). split; [exact Hin | apply bytes_eqb_refl].
Qed.

Lemma fd_some n : forall s acc,
  acc <> None \/ existsb (is_add n) s = true -> field_default s n acc <> None.
Proof.
  induction s as [|a s IH]; intros acc H; cbn [field_default].
  - destruct H as [H | H]; [exact H | discriminate].
  - cbn [existsb] in H. destruct a as [m d | m | m | m]; cbn [is_add] in H.
    + apply IH. destruct (bytes_eqb m n); [left; discriminate|]. cbn [orb] in H. exact H.
    + apply IH. exact H.
    + apply IH. exact H.
    + apply IH. exact H.
Qed.

Lemma fd_of_fg s n c : field_generation s n = Some c -> exists d, field_default s n None = Some d.
Proof.
  intros H. destruct (field_default s n None) as [d|] eqn:E; [eexists; reflexivity|].
  exfalso. revert E. apply fd_some. right.
  destruct (existsb (is_add n) s) eqn:Ex; [reflexivity|]. apply fg_none_iff in Ex. congruence.
Qed.

Lemma chunk_of_0_iff s n : chunk_of s n = 0 <-> field_generation s n = None.
Proof.
  unfold chunk_of. destruct (field_generation s n) as [c|] eqn:E.
  - apply fg_spec in E. split; [lia | discriminate].
  - tauto.
Qed.

(* ================================================================== *)
(* 2. lists of names                                                   *)

Lemma names_nodup_iff l : names_nodup l = true <-> NoDup l.
Proof.
  induction l as [|x l IH]; cbn [names_nodup].
  - split; [constructor | reflexivity].
  - rewrite andb_true_iff, IH, negb_true_iff. split.
    + intros [H1 H2]. constructor; [|exact H2]. intros Hin.
      assert (existsb (bytes_eqb x) l = true) as Hx; [|congruence].
      apply existsb_exists. exists x. split; [exact Hin | apply bytes_eqb_refl].
    + intros H. inversion H as [|? ? H1 H2]; subst. split; [|exact H2].
      destruct (existsb (bytes_eqb x) l) eqn:Ex; [|reflexivity].
      apply existsb_exists in Ex as (y & Hin & Hy). apply bytes_eqb_eq in Hy. subst. contradiction.
Qed.

Lemma NoDup_snoc {A} (l : list A) x : NoDup l -> ~ In x l -> NoDup (l ++ [x]).
Proof.
  induction l as [|y l IH]; intros Hnd Hx; cbn [app].
  - constructor; [intros [] | constructor].
  - inversion Hnd as [|? ? H1 H2]; subst. constructor.
    + intros Hin. apply in_app_or in Hin as [Hin | [<- | []]]; [contradiction|].
      apply Hx. left. reflexivity.
    + apply IH; [exact H2|]. intros Hin. apply Hx. right. exact Hin.
Qed.

Lemma NoDup_map_filter (p : field -> bool) fs :
  NoDup (map f_name fs) -> NoDup (map f_name (filter p fs)).
Proof.
  induction fs as [|f fs IH]; intros H; cbn [filter map] in *; [constructor|].
  inversion H as [|? ? H1 H2]; subst. destruct (p f); cbn [map]; [|auto].
  constructor; [|auto]. intros Hin. apply H1. apply in_map_iff in Hin as (g & Hg & Hin).
  apply filter_In in Hin as [Hin _]. apply in_map_iff. exists g. split; assumption.
Qed.

Lemma nodup_field_eq fs f g :
  NoDup (map f_name fs) -> In f fs -> In g fs -> f_name f = f_name g -> f = g.
Proof.
  induction fs as [|h fs IH]; intros Hnd Hf Hg Hn; [destruct Hf|].
  cbn [map] in Hnd. inversion Hnd as [|? ? H1 H2]; subst.
  destruct Hf as [<- | Hf], Hg as [<- | Hg]; auto.
  - exfalso. apply H1. rewrite Hn. apply in_map. exact Hg.
  - exfalso. apply H1. rewrite <- Hn. apply in_map. exact Hf.
Qed.

Lemma find_field_some n fs f : find_field n fs = Some f -> In f fs /\ f_name f = n.
Proof.
  unfold find_field. intros H. apply find_some in H as [H1 H2].
  apply bytes_eqb_eq in H2. split; assumption.
Qed.

Lemma find_field_in n fs f :
  NoDup (map f_name fs) -> In f fs -> f_name f = n -> find_field n fs = Some f.
Proof.
  intros Hnd Hin Hn. destruct (find_field n fs) as [g|] eqn:E.
  - apply find_field_some in E as [E1 E2]. f_equal. eapply nodup_field_eq; eauto. congruence.
  - exfalso. unfold find_field in E. eapply find_none in E; [|exact Hin]. cbn beta in E.
    rewrite Hn, bytes_eqb_refl in E. discriminate.
Qed.

(* ---------- name_used ---------- *)
Lemma name_used_false m n : name_used m n = false ->
  (forall f, In f (r_fields m) -> f_name f <> n) /\ (forall s, In s (r_steps m) -> step_name s <> n).
Proof.
  unfold name_used. intros H. apply orb_false_iff in H as [H1 H2]. split.
  - intros f Hin Hn. assert (existsb (fun f => bytes_eqb (f_name f) n) (r_fields m) = true); [|congruence].
    apply existsb_exists. exists f. split; [exact Hin|]. apply bytes_eqb_eq. exact Hn.
  - intros s Hin Hn. assert (existsb (fun s => bytes_eqb (step_name s) n) (r_steps m) = true); [|congruence].
    apply existsb_exists. exists s. split; [exact Hin|]. apply bytes_eqb_eq. exact Hn.
Qed.

Lemma name_used_field m f : In f (r_fields m) -> name_used m (f_name f) = true.
Proof.
  intros Hin. unfold name_used. apply orb_true_iff. left. apply existsb_exists.
  exists f. split; [exact Hin | apply bytes_eqb_refl].
Qed.

Lemma name_used_step m s : In s (r_steps m) -> name_used m (step_name s) = true.
Proof.
  intros Hin. unfold name_used. apply orb_true_iff. right. apply existsb_exists.
  exists s. split; [exact Hin | apply bytes_eqb_refl].
Qed.

Lemma unused_steps s n : (forall a, In a s -> step_name a <> n) ->
  in_removed s n = false /\ has_opt s n = false /\ field_generation s n = None.
Proof.
  intros H. split; [|split].
  - rewrite rem_unfold. destruct (existsb (is_rem n) s) eqn:E; [|reflexivity].
    apply existsb_exists in E as (a & Hin & Ha). exfalso. apply (H a Hin).
    destruct a; try discriminate; cbn [is_rem] in Ha; apply bytes_eqb_eq in Ha; exact Ha.
  - unfold has_opt. destruct (existsb (is_opt n) s) eqn:E; [|reflexivity].
    apply existsb_exists in E as (a & Hin & Ha). exfalso. apply (H a Hin).
    destruct a; try discriminate; cbn [is_opt] in Ha; apply bytes_eqb_eq in Ha; exact Ha.
  - apply fg_none_iff. destruct (existsb (is_add n) s) eqn:E; [|reflexivity].
    apply existsb_exists in E as (a & Hin & Ha). exfalso. apply (H a Hin).
    destruct a; try discriminate; cbn [is_add] in Ha; apply bytes_eqb_eq in Ha; exact Ha.
Qed.

(* ---------- set_optional / set_transient ---------- *)
Lemma set_optional_name x f : f_name (set_optional x f) = f_name f.
Proof. unfold set_optional. destruct (bytes_eqb (f_name f) x); reflexivity. Qed.
Lemma set_optional_written x f : written (set_optional x f) = written f.
Proof. unfold set_optional, written. destruct (bytes_eqb (f_name f) x); reflexivity. Qed.
Lemma set_transient_name x d f : f_name (set_transient x d f) = f_name f.
Proof. unfold set_transient. destruct (bytes_eqb (f_name f) x); reflexivity. Qed.
Lemma set_transient_opt x d f : f_opt (set_transient x d f) = f_opt f.
Proof. unfold set_transient. destruct (bytes_eqb (f_name f) x); reflexivity. Qed.
Lemma set_transient_ty x d f : f_ty (set_transient x d f) = f_ty f.
Proof. unfold set_transient. destruct (bytes_eqb (f_name f) x); reflexivity. Qed.
Lemma set_transient_written x d f :
  written (set_transient x d f) = true -> f_name f <> x /\ set_transient x d f = f /\ written f = true.
Proof.
  unfold set_transient. destruct (bytes_eqb (f_name f) x) eqn:E.
  - cbn. discriminate.
  - intros H. apply bytes_eqb_neq in E. auto.
Qed.

Lemma map_names_opt x fs : map f_name (map (set_optional x) fs) = map f_name fs.
Proof. rewrite map_map. apply map_ext. intros f. apply set_optional_name. Qed.
Lemma map_names_tra x d fs : map f_name (map (set_transient x d) fs) = map f_name fs.
Proof. rewrite map_map. apply map_ext. intros f. apply set_transient_name. Qed.

Definition is_option (t : ty) : bool := match t with TOption _ => true | _ => false end.

Lemma optty_cond f :
  (if f_opt f then match f_ty f with TOption _ => true | _ => false end
   else match f_ty f with TOption _ => false | _ => true end) = true <->
  f_opt f = is_option (f_ty f).
Proof. destruct (f_opt f), (f_ty f); cbn [is_option]; split; congruence. Qed.

(* ================================================================== *)
(* 3. the invariant of declarations reachable by legal steps           *)

Record hinv (m : rmeta) : Prop := {
  hi_nd : NoDup (map f_name (r_fields m));
  hi_nrem : forall f, In f (r_fields m) -> written f = true -> in_removed (r_steps m) (f_name f) = false;
  hi_optty : forall f, In f (r_fields m) -> f_opt f = is_option (f_ty f);
  hi_nopt : forall f, In f (r_fields m) -> f_opt f = false -> has_opt (r_steps m) (f_name f) = false;
  hi_utf_f : forall f, In f (r_fields m) -> utf8_valid (f_name f) = true;
  hi_utf_s : forallb (fun s => utf8_valid (step_name s)) (r_steps m) = true }.

Lemma removable_some m x : removable m x = true ->
  exists f, find_field x (r_fields m) = Some f /\ written f = true /\
    (field_generation (r_steps m) x <> None \/
     (field_generation (r_steps m) x = None /\ exists l, last_written_chunk0 m = Some l /\ l = x)).
Proof.
  unfold removable. destruct (find_field x (r_fields m)) as [f|]; [|discriminate].
  intros H. apply andb_true_iff in H as [H1 H2]. exists f. split; [reflexivity|]. split; [exact H1|].
  destruct (field_generation (r_steps m) x); [left; discriminate|]. right. split; [reflexivity|].
  destruct (last_written_chunk0 m) as [l|]; [|discriminate]. exists l. split; [reflexivity|].
  apply bytes_eqb_eq. exact H2.
Qed.

Lemma hinv_step m h : hinv m -> legal_step m h = true -> hinv (apply_hstep m h).
Proof.
  intros [Hnd Hnrem Hoptty Hnopt Hutf Huts] Hl. destruct h as [f d | x | x | x d]; cbn [legal_step] in Hl.
  - (* HAdd *)
    apply andb_true_iff in Hl as [Hl Hot]. apply andb_true_iff in Hl as [Hl Hu].
    apply andb_true_iff in Hl as [Hun Hw]. apply negb_true_iff in Hun.
    apply optty_cond in Hot. destruct (name_used_false _ _ Hun) as [Hf Hs].
    destruct (unused_steps _ _ Hs) as (Ur & Uo & Ug).
    constructor; cbn [apply_hstep r_fields r_steps].
    + rewrite map_app. cbn [map]. apply NoDup_snoc; [exact Hnd|].
      intros Hin. apply in_map_iff in Hin as (g & Hg & Hin). exact (Hf g Hin Hg).
    + intros g Hin Hwg. rewrite rem_snoc. cbn [is_rem]. rewrite orb_false_r.
      apply in_app_or in Hin as [Hin | [<- | []]]; auto.
    + intros g Hin. apply in_app_or in Hin as [Hin | [<- | []]]; auto.
    + intros g Hin Hog. rewrite has_opt_snoc. cbn [is_opt]. rewrite orb_false_r.
      apply in_app_or in Hin as [Hin | [<- | []]]; auto.
    + intros g Hin. apply in_app_or in Hin as [Hin | [<- | []]]; auto.
    + rewrite forallb_app, Huts. cbn [forallb step_name]. rewrite Hu. reflexivity.
  - (* HOpt *)
    destruct (find_field x (r_fields m)) as [f0|] eqn:Ef; [|discriminate].
    apply find_field_some in Ef as [Hin0 Hn0].
    constructor; cbn [apply_hstep r_fields r_steps].
    + rewrite map_names_opt. exact Hnd.
    + intros g' Hin Hwg. apply in_map_iff in Hin as (g & <- & Hin).
      rewrite set_optional_name, rem_snoc, rem_wrap. cbn [is_rem]. rewrite orb_false_r.
      rewrite set_optional_written in Hwg. auto.
    + intros g' Hin. apply in_map_iff in Hin as (g & <- & Hin). unfold set_optional.
      destruct (bytes_eqb (f_name g) x); [reflexivity | auto].
    + intros g' Hin Hog. apply in_map_iff in Hin as (g & <- & Hin).
      rewrite set_optional_name, has_opt_snoc, has_opt_wrap. cbn [is_opt].
      unfold set_optional in Hog. destruct (bytes_eqb (f_name g) x) eqn:Ex; [discriminate|].
      rewrite bytes_eqb_sym, Ex, orb_false_r. auto.
    + intros g' Hin. apply in_map_iff in Hin as (g & <- & Hin). rewrite set_optional_name. auto.
    + rewrite forallb_app. cbn [forallb step_name]. rewrite <- Hn0, (Hutf _ Hin0). cbn [andb].
      rewrite andb_true_r. rewrite forallb_forall in *. intros s' Hin. apply in_map_iff in Hin as (s & <- & Hin).
      rewrite step_name_wrap. auto.
  - (* HRem *)
    apply removable_some in Hl as (f0 & Ef & Hw0 & _).
    apply find_field_some in Ef as [Hin0 Hn0].
    constructor; cbn [apply_hstep r_fields r_steps].
    + apply NoDup_map_filter. exact Hnd.
    + intros g Hin Hwg. apply filter_In in Hin as [Hin Hne]. apply negb_true_iff in Hne.
      rewrite rem_snoc. cbn [is_rem]. rewrite bytes_eqb_sym, Hne, orb_false_r. auto.
    + intros g Hin. apply filter_In in Hin as [Hin _]. auto.
    + intros g Hin Hog. apply filter_In in Hin as [Hin _].
      rewrite has_opt_snoc. cbn [is_opt]. rewrite orb_false_r. auto.
    + intros g Hin. apply filter_In in Hin as [Hin _]. auto.
    + rewrite forallb_app, Huts. cbn [forallb step_name]. rewrite <- Hn0, (Hutf _ Hin0). reflexivity.
  - (* HTra *)
    apply removable_some in Hl as (f0 & Ef & Hw0 & _).
    apply find_field_some in Ef as [Hin0 Hn0].
    constructor; cbn [apply_hstep r_fields r_steps].
    + rewrite map_names_tra. exact Hnd.
    + intros g' Hin Hwg. apply in_map_iff in Hin as (g & <- & Hin).
      apply set_transient_written in Hwg as (Hne & -> & Hwg).
      rewrite rem_snoc. cbn [is_rem]. apply bytes_eqb_neq in Hne.
      rewrite bytes_eqb_sym, Hne, orb_false_r. auto.
    + intros g' Hin. apply in_map_iff in Hin as (g & <- & Hin).
      rewrite set_transient_opt, set_transient_ty. auto.
    + intros g' Hin Hog. apply in_map_iff in Hin as (g & <- & Hin).
      rewrite set_transient_opt in Hog. rewrite set_transient_name.
      rewrite has_opt_snoc. cbn [is_opt]. rewrite orb_false_r. auto.
    + intros g' Hin. apply in_map_iff in Hin as (g & <- & Hin). rewrite set_transient_name. auto.
    + rewrite forallb_app, Huts. cbn [forallb step_name]. rewrite <- Hn0, (Hutf _ Hin0). reflexivity.
Qed.

(* ================================================================== *)
(* 4. the declaration of each version                                  *)

Lemma firstn_S_snoc {A} (l : list A) : forall k x,
  nth_error l k = Some x -> firstn (S k) l = firstn k l ++ [x].
Proof.
  induction l as [|y l IH]; intros k x H; [destruct k; discriminate|].
  destruct k as [|k]; cbn [nth_error] in H.
  - injection H as ->. reflexivity.
  - cbn [firstn app]. f_equal. apply IH. exact H.
Qed.

Lemma decl_at_S H k h :
  nth_error (h_steps H) k = Some h -> decl_at H (S k) = apply_hstep (decl_at H k) h.
Proof.
  intros Hn. unfold decl_at. rewrite (firstn_S_snoc _ _ _ Hn), fold_left_app. reflexivity.
Qed.

Lemma legal_from_app a : forall m b,
  legal_from m (a ++ b) = legal_from m a && legal_from (fold_left apply_hstep a m) b.
Proof.
  induction a as [|h a IH]; intros m b; cbn [app legal_from fold_left]; [reflexivity|].
  rewrite IH, andb_assoc. reflexivity.
Qed.

Lemma legal_step_at H k h :
  legal_from (mkR (h_init H) []) (h_steps H) = true ->
  nth_error (h_steps H) k = Some h -> legal_step (decl_at H k) h = true.
Proof.
  intros Hl Hn. apply nth_error_split in Hn as (l1 & l2 & Hs & Hk).
  unfold decl_at. rewrite Hs in *. rewrite legal_from_app in Hl.
  apply andb_true_iff in Hl as [_ Hl]. cbn [legal_from] in Hl. apply andb_true_iff in Hl as [Hl _].
  rewrite <- Hk, firstn_app, Nat.sub_diag, firstn_all. cbn [firstn]. rewrite app_nil_r. exact Hl.
Qed.

Lemma legal_parts H : legal H = true ->
  NoDup (map f_name (h_init H)) /\
  (forall f, In f (h_init H) -> utf8_valid (f_name f) = true /\ f_opt f = is_option (f_ty f)) /\
  (length (h_steps H) <= 127)%nat /\ (length (h_init H) + length (h_steps H) <= 127)%nat /\
  legal_from (mkR (h_init H) []) (h_steps H) = true.
Proof.
  unfold legal. intros Hl. apply andb_true_iff in Hl as [Hl H5]. apply andb_true_iff in Hl as [Hl H4].
  apply andb_true_iff in Hl as [Hl H3]. apply andb_true_iff in Hl as [H1 H2].
  split; [apply names_nodup_iff; exact H1|]. split.
  - intros f Hin. rewrite forallb_forall in H2. specialize (H2 f Hin).
    apply andb_true_iff in H2 as [Ha Hb]. split; [exact Ha | apply optty_cond; exact Hb].
  - rewrite nlen_length in H4. split; [lia|]. split; [lia | exact H5].
Qed.

Lemma hinv_decl H k : legal H = true -> (k <= length (h_steps H))%nat -> hinv (decl_at H k).
Proof.
  intros Hl. destruct (legal_parts H Hl) as (L1 & L2 & _ & _ & L5).
  induction k as [|k IH]; intros Hk.
  - unfold decl_at. cbn [firstn fold_left]. constructor; cbn [r_fields r_steps]; auto.
    + intros f Hin. apply L2. exact Hin.
    + intros f Hin. apply L2. exact Hin.
  - destruct (nth_error (h_steps H) k) as [h|] eqn:En.
    + rewrite (decl_at_S _ _ _ En). apply hinv_step; [apply IH; lia|].
      apply legal_step_at; assumption.
    + apply nth_error_None in En. lia.
Qed.

Lemma apply_hstep_steps_len m h : length (r_steps (apply_hstep m h)) = S (length (r_steps m)).
Proof.
  destruct h; cbn [apply_hstep r_steps]; rewrite app_length, ?map_length; cbn [length]; lia.
Qed.

Lemma filter_len_le {A} (p : A -> bool) l : (length (filter p l) <= length l)%nat.
Proof. induction l as [|x l IH]; cbn [filter length]; [lia|]. destruct (p x); cbn [length]; lia. Qed.

Lemma apply_hstep_fields_len m h :
  (length (r_fields (apply_hstep m h)) <= S (length (r_fields m)))%nat.
Proof.
  destruct h; cbn [apply_hstep r_fields]; rewrite ?app_length, ?map_length; cbn [length]; try lia.
  pose proof (filter_len_le (fun f => negb (bytes_eqb (f_name f) n)) (r_fields m)). lia.
Qed.

Lemma decl_lens H k : (k <= length (h_steps H))%nat ->
  length (r_steps (decl_at H k)) = k /\
  (length (r_fields (decl_at H k)) <= length (h_init H) + k)%nat.
Proof.
  induction k as [|k IH]; intros Hk.
  - unfold decl_at. cbn. lia.
  - destruct (nth_error (h_steps H) k) as [h|] eqn:En.
    + rewrite (decl_at_S _ _ _ En). destruct (IH ltac:(lia)) as [I1 I2].
      rewrite apply_hstep_steps_len, I1. split; [reflexivity|].
      pose proof (apply_hstep_fields_len (decl_at H k) h). lia.
    + apply nth_error_None in En. lia.
Qed.

Lemma decl_types E H k : all_field_types_wf E H = true ->
  forall f, In f (r_fields (decl_at H k)) -> wf_ty E (f_ty f) = true.
Proof.
  unfold all_field_types_wf. intros Hw. apply andb_true_iff in Hw as [W1 W2].
  rewrite forallb_forall in W1, W2. unfold decl_at.
  assert (Hsub: forall h, In h (firstn k (h_steps H)) -> In h (h_steps H)).
  { intros h Hin. rewrite <- (firstn_skipn k (h_steps H)). apply in_or_app. left. exact Hin. }
  revert Hsub. generalize (firstn k (h_steps H)) as hs.
  assert (W0: forall f, In f (r_fields (mkR (h_init H) [])) -> wf_ty E (f_ty f) = true) by exact W1.
  revert W0. generalize (mkR (h_init H) []) as m.
  intros m W0 hs. revert m W0. induction hs as [|h hs IH]; intros m W0 Hsub; cbn [fold_left]; [exact W0|].
  apply IH; [|intros h' Hin; apply Hsub; right; exact Hin].
  specialize (W2 h (Hsub h (or_introl eq_refl))). destruct h as [f d | x | x | x d]; cbn [apply_hstep r_fields].
  - intros g Hin. apply in_app_or in Hin as [Hin | [<- | []]]; auto.
  - intros g' Hin. apply in_map_iff in Hin as (g & <- & Hin). unfold set_optional.
    destruct (bytes_eqb (f_name g) x); cbn [f_ty wf_ty]; auto.
  - intros g Hin. apply filter_In in Hin as [Hin _]. auto.
  - intros g' Hin. apply in_map_iff in Hin as (g & <- & Hin). rewrite set_transient_ty. auto.
Qed.

Lemma written_transient f : written f = true <-> f_transient f = None.
Proof. unfold written. destruct (f_transient f); split; congruence. Qed.

Lemma decl_wf E H k : legal H = true -> all_field_types_wf E H = true ->
  (k <= length (h_steps H))%nat ->
  wf_rmeta E (decl_at H k) = true /\ wf_rmeta_rt (decl_at H k) = true.
Proof.
  intros Hl Ht Hk. destruct (legal_parts H Hl) as (_ & _ & L3 & L4 & _).
  destruct (decl_lens H k Hk) as [D1 D2]. pose proof (hinv_decl H k Hl Hk) as Hi.
  pose proof (decl_types E H k Ht) as Hty. split.
  - unfold wf_rmeta, version_of. rewrite nlen_length, D1.
    apply andb_true_iff. split; [apply andb_true_iff; split; [lia|]|].
    + apply names_nodup_iff. apply hi_nd. exact Hi.
    + apply forallb_forall. intros f Hin. unfold wf_field. rewrite (Hty f Hin). cbn [andb].
      apply andb_true_iff. split.
      * rewrite (hi_optty _ Hi f Hin). destruct (f_ty f); reflexivity.
      * destruct (f_transient f) eqn:Etr; [reflexivity|].
        rewrite (hi_nrem _ Hi f Hin) by (apply written_transient; exact Etr). cbn [negb andb].
        destruct (f_opt f) eqn:Eo; [reflexivity|]. cbn [orb].
        pose proof (hi_nopt _ Hi f Hin Eo) as Hn. apply mo_none_iff in Hn. rewrite Hn. reflexivity.
  - unfold wf_rmeta_rt, version_of. rewrite D1. apply andb_true_iff. split; [lia|].
    apply hi_utf_s. exact Hi.
Qed.

(* ================================================================== *)
(* 5. one step: the tables, the chunk-0 fields                         *)

Definition new_step (h : hstep) : step :=
  match h with
  | HAdd f d => SAdded (f_name f) d
  | HOpt x => SMadeOptional x
  | HRem x => SRemoved x
  | HTra x _ => SMadeTransient x
  end.

Lemma tables_step m h n :
  let s := r_steps m in let s' := r_steps (apply_hstep m h) in let a := new_step h in
  in_removed s' n = in_removed s n || is_rem n a /\
  has_opt s' n = has_opt s n || is_opt n a /\
  field_generation s' n = (if is_add n a then Some (nlen s + 1) else field_generation s n) /\
  made_optional_at s' n = (if is_opt n a then Some (nlen s + 1) else made_optional_at s n) /\
  nlen s' = nlen s + 1.
Proof.
  destruct h as [f d | x | x | x d]; cbn [apply_hstep r_steps new_step]; cbv zeta;
    rewrite rem_snoc, has_opt_snoc, fg_snoc, mo_snoc, nlen_app;
    rewrite ?rem_wrap, ?has_opt_wrap, ?fg_wrap, ?mo_wrap, ?nlen_map; cbn [nlen];
    repeat split; lia.
Qed.

Lemma name_used_iff m n : name_used m n = true <->
  (exists f, In f (r_fields m) /\ f_name f = n) \/ (exists s, In s (r_steps m) /\ step_name s = n).
Proof.
  unfold name_used. rewrite orb_true_iff, !existsb_exists. split.
  - intros [(f & Hin & Hf) | (s & Hin & Hs)]; [left; exists f | right; exists s];
      (split; [exact Hin | apply bytes_eqb_eq; assumption]).
  - intros [(f & Hin & Hf) | (s & Hin & Hs)]; [left; exists f | right; exists s];
      (split; [exact Hin | apply bytes_eqb_eq; assumption]).
Qed.

Lemma name_used_mono m h n : name_used m n = true -> name_used (apply_hstep m h) n = true.
Proof.
  rewrite !name_used_iff. intros [(f & Hin & Hf) | (s & Hin & Hs)].
  - destruct h as [f0 d | x | x | x d]; cbn [apply_hstep r_fields r_steps].
    + left. exists f. split; [apply in_or_app; left; exact Hin | exact Hf].
    + left. exists (set_optional x f). split; [apply in_map; exact Hin | rewrite set_optional_name; exact Hf].
    + destruct (bytes_eqb (f_name f) x) eqn:Ex.
      * right. exists (SRemoved x). split; [apply in_or_app; right; left; reflexivity|].
        apply bytes_eqb_eq in Ex. cbn [step_name]. congruence.
      * left. exists f. split; [|exact Hf]. apply filter_In. split; [exact Hin|]. rewrite Ex. reflexivity.
    + left. exists (set_transient x d f). split; [apply in_map; exact Hin | rewrite set_transient_name; exact Hf].
  - right. destruct h as [f0 d | x | x | x d]; cbn [apply_hstep r_fields r_steps].
    + exists s. split; [apply in_or_app; left; exact Hin | exact Hs].
    + exists (wrap_default x s). split; [apply in_or_app; left; apply in_map; exact Hin|].
      rewrite step_name_wrap. exact Hs.
    + exists s. split; [apply in_or_app; left; exact Hin | exact Hs].
    + exists s. split; [apply in_or_app; left; exact Hin | exact Hs].
Qed.

Definition c0p (s : list step) (f : field) : bool :=
  written f && match field_generation s (f_name f) with None => true | Some _ => false end.
Definition C0 (m : rmeta) : list name := map f_name (filter (c0p (r_steps m)) (r_fields m)).
Definition ne (x : name) (f : field) : bool := negb (bytes_eqb (f_name f) x).

Lemma filter_comm {A} (p q : A -> bool) l : filter p (filter q l) = filter q (filter p l).
Proof.
  induction l as [|x l IH]; cbn [filter]; [reflexivity|].
  destruct (q x) eqn:Eq, (p x) eqn:Ep; cbn [filter]; rewrite ?Eq, ?Ep, IH; reflexivity.
Qed.

Lemma filter_id {A} (p : A -> bool) l : (forall x, In x l -> p x = true) -> filter p l = l.
Proof.
  induction l as [|x l IH]; intros H; cbn [filter]; [reflexivity|].
  rewrite (H x (or_introl eq_refl)), IH; [reflexivity|]. intros y Hy. apply H. right. exact Hy.
Qed.

Lemma map_filter_map (p p' : field -> bool) (h : field -> field) fs :
  (forall g, In g fs -> p' (h g) = p g) -> (forall g, f_name (h g) = f_name g) ->
  map f_name (filter p' (map h fs)) = map f_name (filter p fs).
Proof.
  intros Hp Hn. induction fs as [|g fs IH]; cbn [map filter]; [reflexivity|].
  rewrite (Hp g (or_introl eq_refl)). destruct (p g); cbn [map]; rewrite IH, ?Hn; auto;
    intros g' Hg'; apply Hp; right; exact Hg'.
Qed.

Lemma c0_add m f d : (forall g, In g (r_fields m) -> f_name g <> f_name f) ->
  C0 (apply_hstep m (HAdd f d)) = C0 m.
Proof.
  intros Hf. unfold C0. cbn [apply_hstep r_fields r_steps]. rewrite filter_app. cbn [filter].
  assert (c0p (r_steps m ++ [SAdded (f_name f) d]) f = false) as ->.
  { unfold c0p. rewrite fg_snoc. cbn [is_add]. rewrite bytes_eqb_refl. apply andb_false_r. }
  rewrite app_nil_r. f_equal. apply filter_ext_in. intros g Hin. unfold c0p. rewrite fg_snoc.
  cbn [is_add]. assert (bytes_eqb (f_name f) (f_name g) = false) as ->; [|reflexivity].
  apply bytes_eqb_neq. intros Heq. apply (Hf g Hin). congruence.
Qed.

Lemma c0_opt m x : C0 (apply_hstep m (HOpt x)) = C0 m.
Proof.
  unfold C0. cbn [apply_hstep r_fields r_steps]. apply map_filter_map; [|apply set_optional_name].
  intros g _. unfold c0p. rewrite set_optional_written, set_optional_name, fg_snoc, fg_wrap.
  reflexivity.
Qed.

Lemma c0_rem_form m x :
  C0 (apply_hstep m (HRem x)) = map f_name (filter (c0p (r_steps m)) (filter (ne x) (r_fields m))).
Proof.
  unfold C0. cbn [apply_hstep r_fields r_steps]. f_equal. apply filter_ext. intros g.
  unfold c0p. rewrite fg_snoc. reflexivity.
Qed.

Lemma c0_tra_form m x d :
  C0 (apply_hstep m (HTra x d)) = map f_name (filter (c0p (r_steps m)) (filter (ne x) (r_fields m))).
Proof.
  unfold C0. cbn [apply_hstep r_fields r_steps].
  induction (r_fields m) as [|g fs IH]; cbn [map filter]; [reflexivity|].
  unfold ne at 1. destruct (bytes_eqb (f_name g) x) eqn:Ex; cbn [negb].
  - assert (c0p (r_steps m ++ [SMadeTransient x]) (set_transient x d g) = false) as ->; [|exact IH].
    unfold c0p, set_transient, written. rewrite Ex. reflexivity.
  - assert (set_transient x d g = g) as -> by (unfold set_transient; rewrite Ex; reflexivity).
    cbn [filter]. assert (c0p (r_steps m ++ [SMadeTransient x]) g = c0p (r_steps m) g) as ->.
    { unfold c0p. rewrite fg_snoc. reflexivity. }
    destruct (c0p (r_steps m) g); cbn [map]; rewrite IH; reflexivity.
Qed.

Lemma c0_removed m x : hinv m -> removable m x = true ->
  exists X, C0 m = map f_name (filter (c0p (r_steps m)) (filter (ne x) (r_fields m))) ++ X /\
            forall n, In n X -> n = x.
Proof.
  intros Hi Hr. apply removable_some in Hr as (f0 & Ef & Hw0 & Hcase).
  rewrite filter_comm. unfold C0. set (L := filter (c0p (r_steps m)) (r_fields m)).
  assert (Hnd: NoDup (map f_name L)) by (apply NoDup_map_filter, hi_nd; exact Hi).
  assert (HL: forall g, In g L -> field_generation (r_steps m) (f_name g) = None).
  { intros g Hin. apply filter_In in Hin as [_ Hc]. unfold c0p in Hc.
    apply andb_true_iff in Hc as [_ Hc]. destruct (field_generation (r_steps m) (f_name g)); [discriminate | reflexivity]. }
  destruct Hcase as [Hg | (Hg & l & Hl & ->)].
  - exists []. split; [|intros n []]. rewrite app_nil_r, filter_id; [reflexivity|].
    intros g Hin. unfold ne. apply negb_true_iff, bytes_eqb_neq. intros Heq. apply HL in Hin. congruence.
  - unfold last_written_chunk0 in Hl. change (filter _ (r_fields m)) with L in Hl.
    destruct (rev L) as [|g r'] eqn:Er; [discriminate|]. injection Hl as Hgx.
    assert (EL: L = rev r' ++ [g]).
    { rewrite <- (rev_involutive L), Er. reflexivity. }
    exists [x]. split; [|intros n [<- | []]; reflexivity].
    rewrite EL in *. rewrite filter_app, !map_app. cbn [filter map]. unfold ne at 2.
    rewrite Hgx, bytes_eqb_refl. cbn [negb map]. rewrite app_nil_r. f_equal.
    rewrite filter_id; [reflexivity|]. intros g' Hin. unfold ne. apply negb_true_iff, bytes_eqb_neq.
    intros Heq. rewrite map_app in Hnd. cbn [map] in Hnd. apply NoDup_remove_2 in Hnd.
    apply Hnd. rewrite app_nil_r, Hgx, <- Heq. apply in_map. exact Hin.
Qed.

(* ================================================================== *)
(* 6. two versions of one history                                      *)

Definition tyrel (s s' : list step) (f f' : field) : Prop :=
  (f_opt f = true -> f_opt f' = true /\ f_ty f' = f_ty f /\ opt_since s' (f_name f) <= nlen s) /\
  (f_opt f = false -> f_opt f' = false -> f_ty f' = f_ty f) /\
  (f_opt f = false -> f_opt f' = true ->
     f_ty f' = TOption (f_ty f) /\ nlen s < opt_since s' (f_name f) /\ has_opt s' (f_name f) = true).

Record rel (m m' : rmeta) : Prop := {
  rl_rem : forall n, in_removed (r_steps m) n = true -> in_removed (r_steps m') n = true;
  rl_used : forall n, name_used m n = true -> name_used m' n = true;
  rl_len : nlen (r_steps m) <= nlen (r_steps m');
  rl_bwd : forall f', In f' (r_fields m') -> written f' = true ->
     (exists f, In f (r_fields m) /\ f_name f = f_name f' /\ written f = true /\
        field_generation (r_steps m') (f_name f') = field_generation (r_steps m) (f_name f') /\
        tyrel (r_steps m) (r_steps m') f f') \/
     (name_used m (f_name f') = false /\
      exists c, field_generation (r_steps m') (f_name f') = Some c /\ nlen (r_steps m) < c);
  rl_fwd : forall f, In f (r_fields m) -> written f = true ->
     in_removed (r_steps m') (f_name f) = false ->
     exists f', In f' (r_fields m') /\ f_name f' = f_name f /\ written f' = true;
  rl_c0 : exists X, C0 m = C0 m' ++ X /\ forall n, In n X -> in_removed (r_steps m') n = true }.

Lemma rel_refl m : hinv m -> rel m m.
Proof.
  intros Hi. constructor; auto.
  - lia.
  - intros f Hin Hw. left. exists f. split; [exact Hin|]. split; [reflexivity|]. split; [exact Hw|].
    split; [reflexivity|]. split; [|split].
    + intros Ho. split; [exact Ho|]. split; [reflexivity|]. apply opt_since_le.
    + reflexivity.
    + congruence.
  - intros f Hin Hw _. exists f. auto.
  - exists []. rewrite app_nil_r. split; [reflexivity | intros n []].
Qed.

Lemma tyrel_ext s s' s'' f f' :
  tyrel s s' f f' -> opt_since s'' (f_name f) = opt_since s' (f_name f) ->
  (has_opt s' (f_name f) = true -> has_opt s'' (f_name f) = true) -> tyrel s s'' f f'.
Proof.
  intros (T1 & T2 & T3) Ho Hh. split; [|split].
  - intros H. destruct (T1 H) as (A & B & C). rewrite Ho. auto.
  - exact T2.
  - intros H H'. destruct (T3 H H') as (A & B & C). rewrite Ho. auto.
Qed.

Lemma rel_step m m' h : rel m m' -> hinv m' -> legal_step m' h = true -> rel m (apply_hstep m' h).
Proof.
  intros [Rrem Rused Rlen Rbwd Rfwd (X & RX & RXrem)] Hi Hl.
  pose proof (tables_step m' h) as Tb. cbv zeta in Tb.
  assert (Hrem': forall n, in_removed (r_steps m') n = true ->
                           in_removed (r_steps (apply_hstep m' h)) n = true).
  { intros n Hn. destruct (Tb n) as (-> & _). rewrite Hn. reflexivity. }
  (* a field of m' whose name is not touched by the step keeps its tables *)
  assert (Hkeep: forall f f', f_name f = f_name f' ->
            is_add (f_name f') (new_step h) = false -> is_opt (f_name f') (new_step h) = false ->
            field_generation (r_steps m') (f_name f') = field_generation (r_steps m) (f_name f') /\
            tyrel (r_steps m) (r_steps m') f f' ->
            field_generation (r_steps (apply_hstep m' h)) (f_name f') = field_generation (r_steps m) (f_name f') /\
            tyrel (r_steps m) (r_steps (apply_hstep m' h)) f f').
  { intros f f' Hn Ha Ho [Hg Ht]. destruct (Tb (f_name f')) as (_ & T2 & T3 & T4 & _).
    rewrite Ha in T3. rewrite Ho in T4. split; [congruence|].
    eapply tyrel_ext; [exact Ht | |].
    - unfold opt_since. rewrite Hn, T4. reflexivity.
    - rewrite Hn, T2. intros ->. reflexivity. }
  assert (Hkeep2: forall n c, is_add n (new_step h) = false ->
            field_generation (r_steps m') n = Some c ->
            field_generation (r_steps (apply_hstep m' h)) n = Some c).
  { intros n c Ha Hg. destruct (Tb n) as (_ & _ & T3 & _). rewrite Ha in T3. congruence. }
  constructor.
  - intros n Hn. auto.
  - intros n Hn. apply name_used_mono. auto.
  - destruct (Tb []) as (_ & _ & _ & _ & ->). lia.
  - (* rl_bwd *)
    destruct h as [f0 d | x | x | x d]; cbn [new_step] in Hkeep, Hkeep2.
    + (* HAdd *)
      cbn [legal_step] in Hl. apply andb_true_iff in Hl as [Hl _]. apply andb_true_iff in Hl as [Hl _].
      apply andb_true_iff in Hl as [Hun _]. apply negb_true_iff in Hun.
      destruct (name_used_false _ _ Hun) as [Hf Hs].
      intros f' Hin Hw. cbn [apply_hstep r_fields] in Hin. apply in_app_or in Hin as [Hin | [<- | []]].
      * assert (Hne: is_add (f_name f') (SAdded (f_name f0) d) = false).
        { cbn [is_add]. apply bytes_eqb_neq. intros Heq. apply (Hf f' Hin). congruence. }
        destruct (Rbwd f' Hin Hw) as [(f & A & B & C & D) | (A & c & B & C)].
        -- left. exists f. split; [exact A|]. split; [exact B|]. split; [exact C|]. apply (Hkeep f f' B Hne eq_refl D).
        -- right. split; [exact A|]. exists c. split; [|exact C]. apply Hkeep2; assumption.
      * right. split.
        -- destruct (name_used m (f_name f0)) eqn:Eu; [|reflexivity]. apply Rused in Eu. congruence.
        -- destruct (Tb (f_name f0)) as (_ & _ & T3 & _). cbn [new_step is_add] in T3.
           rewrite bytes_eqb_refl in T3. eexists. split; [exact T3 | lia].
    + (* HOpt *)
      cbn [legal_step] in Hl. destruct (find_field x (r_fields m')) as [g0|] eqn:Ef; [|discriminate].
      apply andb_true_iff in Hl as [Hl Hnt]. apply andb_true_iff in Hl as [Hw0 Ho0].
      apply negb_true_iff in Ho0. apply find_field_some in Ef as [Hin0 Hn0].
      intros f'' Hin Hw. cbn [apply_hstep r_fields] in Hin. apply in_map_iff in Hin as (f' & <- & Hin).
      rewrite set_optional_written in Hw. rewrite set_optional_name.
      destruct (Rbwd f' Hin Hw) as [(f & A & B & C & D) | (A & c & B & C)].
      * left. exists f. split; [exact A|]. split; [exact B|]. split; [exact C|].
        unfold set_optional. destruct (bytes_eqb (f_name f') x) eqn:Ex.
        -- apply bytes_eqb_eq in Ex.
           assert (f' = g0) by (eapply nodup_field_eq; [apply (hi_nd _ Hi) | | |]; congruence). subst g0.
           destruct D as [Dg (T1 & T2 & T3)].
           destruct (Tb (f_name f')) as (_ & U2 & U3 & U4 & _). cbn [new_step is_add is_opt] in U2, U3, U4.
           rewrite Ex, bytes_eqb_refl in *. split; [congruence|].
           assert (Hof: f_opt f = false).
           { destruct (f_opt f) eqn:E; [|reflexivity]. destruct (T1 eq_refl) as (T & _). congruence. }
           split; [|split]; cbn [f_opt f_ty].
           ++ congruence.
           ++ discriminate.
           ++ intros _ _. rewrite (T2 Hof Ho0). split; [reflexivity|].
              rewrite B. unfold opt_since. rewrite U4. split; [lia|]. rewrite U2. apply orb_true_r.
        -- apply (Hkeep f f' B eq_refl); [|exact D]. cbn [is_opt]. rewrite bytes_eqb_sym. exact Ex.
      * right. split; [exact A|]. exists c. split; [|exact C]. apply Hkeep2; [reflexivity | exact B].
    + (* HRem *)
      intros f' Hin Hw. cbn [apply_hstep r_fields] in Hin. apply filter_In in Hin as [Hin _].
      destruct (Rbwd f' Hin Hw) as [(f & A & B & C & D) | (A & c & B & C)].
      * left. exists f. split; [exact A|]. split; [exact B|]. split; [exact C|]. apply (Hkeep f f' B eq_refl eq_refl D).
      * right. split; [exact A|]. exists c. split; [|exact C]. apply Hkeep2; [reflexivity | exact B].
    + (* HTra *)
      intros f'' Hin Hw. cbn [apply_hstep r_fields] in Hin. apply in_map_iff in Hin as (f' & <- & Hin).
      apply set_transient_written in Hw as (_ & -> & Hw).
      destruct (Rbwd f' Hin Hw) as [(f & A & B & C & D) | (A & c & B & C)].
      * left. exists f. split; [exact A|]. split; [exact B|]. split; [exact C|]. apply (Hkeep f f' B eq_refl eq_refl D).
      * right. split; [exact A|]. exists c. split; [|exact C]. apply Hkeep2; [reflexivity | exact B].
  - (* rl_fwd *)
    intros f Hin Hw Hnr. destruct (Tb (f_name f)) as (T1 & _). rewrite T1 in Hnr.
    apply orb_false_iff in Hnr as [Hnr Hnew].
    destruct (Rfwd f Hin Hw Hnr) as (f' & A & B & C).
    destruct h as [f0 d | x | x | x d]; cbn [apply_hstep r_fields]; cbn [new_step is_rem] in Hnew.
    + exists f'. split; [apply in_or_app; left; exact A | auto].
    + exists (set_optional x f'). split; [apply in_map; exact A|].
      rewrite set_optional_name, set_optional_written. auto.
    + exists f'. split; [|auto]. apply filter_In. split; [exact A|].
      rewrite B, bytes_eqb_sym, Hnew. reflexivity.
    + exists f'. split; [|auto]. apply in_map_iff. exists f'. split; [|exact A].
      unfold set_transient. rewrite B, bytes_eqb_sym, Hnew. reflexivity.
  - (* rl_c0 *)
    destruct h as [f0 d | x | x | x d].
    + cbn [legal_step] in Hl. apply andb_true_iff in Hl as [Hl _]. apply andb_true_iff in Hl as [Hl _].
      apply andb_true_iff in Hl as [Hun _]. apply negb_true_iff in Hun.
      destruct (name_used_false _ _ Hun) as [Hf _].
      rewrite c0_add by exact Hf. exists X. split; [exact RX | auto].
    + rewrite c0_opt. exists X. split; [exact RX | auto].
    + cbn [legal_step] in Hl. destruct (c0_removed m' x Hi Hl) as (Y & HY & HYx).
      rewrite c0_rem_form. exists (Y ++ X). split; [rewrite RX, HY, app_assoc; reflexivity|].
      intros n Hn. apply in_app_or in Hn as [Hn | Hn]; [|auto].
      apply HYx in Hn. subst n. destruct (Tb x) as (-> & _). cbn [new_step is_rem].
      rewrite bytes_eqb_refl. apply orb_true_r.
    + cbn [legal_step] in Hl. destruct (c0_removed m' x Hi Hl) as (Y & HY & HYx).
      rewrite c0_tra_form. exists (Y ++ X). split; [rewrite RX, HY, app_assoc; reflexivity|].
      intros n Hn. apply in_app_or in Hn as [Hn | Hn]; [|auto].
      apply HYx in Hn. subst n. destruct (Tb x) as (-> & _). cbn [new_step is_rem].
      rewrite bytes_eqb_refl. apply orb_true_r.
Qed.

Lemma rel_decl H k k' : legal H = true -> (k <= k')%nat -> (k' <= length (h_steps H))%nat ->
  rel (decl_at H k) (decl_at H k').
Proof.
  intros Hl Hk. destruct (legal_parts H Hl) as (_ & _ & _ & _ & L5).
  induction Hk as [|k' Hk IH]; intros Hk'.
  - apply rel_refl. apply hinv_decl; assumption.
  - destruct (nth_error (h_steps H) k') as [h|] eqn:En.
    + rewrite (decl_at_S _ _ _ En). apply rel_step; [apply IH; lia | apply hinv_decl; [assumption | lia] |].
      apply legal_step_at; assumption.
    + apply nth_error_None in En. lia.
Qed.

(* ================================================================== *)
(* 7. what the reader must obtain, field by field                      *)

Lemma lookup_norm nv n : forall fs vs,
  lookup_value n fs (norm_written nv fs vs) =
  match lookup_value n fs vs with Some (f, x) => Some (f, nv (f_ty f) x) | None => None end.
Proof.
  induction fs as [|f fs IH]; intros [|v vs]; cbn [norm_written lookup_value]; try reflexivity.
  destruct (bytes_eqb (f_name f) n); [reflexivity | apply IH].
Qed.

Lemma lookup_some n : forall fs vs f x,
  lookup_value n fs vs = Some (f, x) -> In f fs /\ f_name f = n.
Proof.
  induction fs as [|g fs IH]; intros [|v vs] f x H; cbn [lookup_value] in H; try discriminate.
  destruct (bytes_eqb (f_name g) n) eqn:E.
  - injection H as <- <-. apply bytes_eqb_eq in E. split; [left; reflexivity | exact E].
  - apply IH in H as [H1 H2]. split; [right; exact H1 | exact H2].
Qed.

Lemma lookup_none n fs vs : (forall f, In f fs -> f_name f <> n) -> lookup_value n fs vs = None.
Proof.
  intros H. destruct (lookup_value n fs vs) as [[f x]|] eqn:E; [|reflexivity].
  apply lookup_some in E as [E1 E2]. exfalso. exact (H f E1 E2).
Qed.

Lemma lookup_in n : forall fs vs f,
  NoDup (map f_name fs) -> length fs = length vs -> In f fs -> f_name f = n ->
  exists x, lookup_value n fs vs = Some (f, x).
Proof.
  induction fs as [|g fs IH]; intros [|v vs] f Hnd Hlen Hin Hn; try discriminate; [destruct Hin|].
  cbn [lookup_value]. cbn [map] in Hnd. inversion Hnd as [|? ? H1 H2]; subst.
  destruct Hin as [<- | Hin].
  - rewrite bytes_eqb_refl. eexists. reflexivity.
  - destruct (bytes_eqb (f_name g) (f_name f)) eqn:E.
    + apply bytes_eqb_eq in E. exfalso. apply H1. rewrite E. apply in_map. exact Hin.
    + apply IH; auto.
Qed.

Lemma wf_fields_len w : forall fs vs, wf_fields w fs vs = true -> length fs = length vs.
Proof.
  induction fs as [|f fs IH]; intros [|v vs] H; cbn [wf_fields] in H; try discriminate; [reflexivity|].
  apply andb_true_iff in H as [_ H]. cbn [length]. f_equal. apply IH. exact H.
Qed.

Definition trel (sw sr : list step) (kw : N) (fw fr : field) : Prop :=
  match f_opt fw, f_opt fr with
  | false, false => f_ty fr = f_ty fw /\ has_opt sw (f_name fr) = false
  | true, true => f_ty fr = f_ty fw /\ (exists t', f_ty fw = TOption t') /\ opt_since sr (f_name fr) <= kw
  | false, true => f_ty fr = TOption (f_ty fw) /\ kw < opt_since sr (f_name fr)
  | true, false => f_ty fw = TOption (f_ty fr) /\ has_opt sw (f_name fr) = true
  end.

Definition fclass (nv : ty -> val -> val) (mw mr : rmeta) (vw : list val) (fr : field) : Prop :=
  let n := f_name fr in let sw := r_steps mw in let sr := r_steps mr in
  let EF := expected_field mw mr (norm_written nv (r_fields mw) vw) fr in
  (in_removed sw n = true /\ EF = (if f_opt fr then Ok VNone else Err (EFieldRemoved n))) \/
  (in_removed sw n = false /\ exists c d, field_generation sr n = Some c /\ nlen sw < c /\
      field_default sr n None = Some d /\ EF = Ok d) \/
  (in_removed sw n = false /\ exists fw x, lookup_value n (r_fields mw) vw = Some (fw, x) /\
      written fw = true /\ chunk_of sr n = chunk_of sw n /\ chunk_of sr n <= nlen sw /\
      trel sw sr (nlen sw) fw fr /\ EF = convert_field fw fr (nv (f_ty fw) x)).

Lemma option_ty f : f_opt f = is_option (f_ty f) -> f_opt f = true -> exists t', f_ty f = TOption t'.
Proof. intros H Ho. rewrite Ho in H. destruct (f_ty f); try discriminate. eexists. reflexivity. Qed.

(* the reader is the later version *)
Lemma fclass_A nv mw mr vw fr :
  rel mw mr -> hinv mw -> hinv mr -> length (r_fields mw) = length vw ->
  In fr (r_fields mr) -> written fr = true -> fclass nv mw mr vw fr.
Proof.
  intros R Hiw Hir Hlen Hin Hw. unfold fclass. cbv zeta.
  pose proof Hw as Htr. apply written_transient in Htr.
  unfold expected_field. rewrite Htr, lookup_norm.
  destruct (rl_bwd _ _ R fr Hin Hw) as [(fw & A & B & C & D & T) | (A & c & B & C)].
  - right. right. split; [rewrite <- B; apply (hi_nrem _ Hiw fw A C)|].
    destruct (lookup_in (f_name fr) _ vw fw (hi_nd _ Hiw) Hlen A B) as [x Hx].
    exists fw, x. rewrite Hx, C. split; [reflexivity|]. split; [reflexivity|].
    assert (Hch: chunk_of (r_steps mr) (f_name fr) = chunk_of (r_steps mw) (f_name fr))
      by (unfold chunk_of; rewrite D; reflexivity).
    split; [exact Hch|]. split; [rewrite Hch; apply chunk_of_le|]. split; [|reflexivity].
    destruct T as (T1 & T2 & T3). unfold trel. rewrite B in *.
    destruct (f_opt fw) eqn:Eow, (f_opt fr) eqn:Eor.
    + destruct (T1 eq_refl) as (_ & T & T'). split; [exact T|]. split; [|exact T'].
      apply option_ty; [apply (hi_optty _ Hiw fw A) | exact Eow].
    + destruct (T1 eq_refl) as (T & _). discriminate.
    + destruct (T3 eq_refl eq_refl) as (T & T' & _). split; assumption.
    + split; [apply T2; reflexivity|]. rewrite <- B. apply (hi_nopt _ Hiw fw A Eow).
  - right. left. destruct (name_used_false _ _ A) as [Hf Hs].
    destruct (unused_steps _ _ Hs) as (Ur & _ & _). split; [exact Ur|].
    destruct (fd_of_fg _ _ _ B) as [d Hd]. exists c, d.
    rewrite (lookup_none _ _ _ Hf), Ur, Hd. auto.
Qed.

(* the reader is the earlier version *)
Lemma fclass_B nv mw mr vw fr :
  rel mr mw -> hinv mw -> hinv mr -> length (r_fields mw) = length vw ->
  In fr (r_fields mr) -> written fr = true -> fclass nv mw mr vw fr.
Proof.
  intros R Hiw Hir Hlen Hin Hw. unfold fclass. cbv zeta.
  pose proof Hw as Htr. apply written_transient in Htr.
  unfold expected_field. rewrite Htr, lookup_norm.
  destruct (in_removed (r_steps mw) (f_name fr)) eqn:Erem.
  - left. split; [reflexivity|].
    destruct (lookup_value (f_name fr) (r_fields mw) vw) as [[fw x]|] eqn:El; [|reflexivity].
    apply lookup_some in El as [E1 E2]. destruct (written fw) eqn:Ewf; [|reflexivity].
    pose proof (hi_nrem _ Hiw fw E1 Ewf). congruence.
  - right. right. split; [reflexivity|].
    destruct (rl_fwd _ _ R fr Hin Hw Erem) as (fw & A & B & C).
    destruct (rl_bwd _ _ R fw A C) as [(f & A' & B' & C' & D & T) | (A' & _)].
    2:{ rewrite B, (name_used_field _ _ Hin) in A'. discriminate. }
    assert (f = fr) by (eapply nodup_field_eq; [apply (hi_nd _ Hir) | | |]; congruence). subst f.
    destruct (lookup_in (f_name fr) _ vw fw (hi_nd _ Hiw) Hlen A B) as [x Hx].
    exists fw, x. rewrite Hx, C. split; [reflexivity|]. split; [reflexivity|].
    rewrite B in D.
    assert (Hch: chunk_of (r_steps mr) (f_name fr) = chunk_of (r_steps mw) (f_name fr))
      by (unfold chunk_of; rewrite D; reflexivity).
    split; [exact Hch|]. pose proof (rl_len _ _ R) as Hlen'.
    split; [pose proof (chunk_of_le (r_steps mr) (f_name fr)); lia|]. split; [|reflexivity].
    destruct T as (T1 & T2 & T3). unfold trel.
    destruct (f_opt fw) eqn:Eow, (f_opt fr) eqn:Eor.
    + destruct (T1 eq_refl) as (_ & T & _). split; [congruence|]. split.
      * apply option_ty; [apply (hi_optty _ Hiw fw A) | exact Eow].
      * pose proof (opt_since_le (r_steps mr) (f_name fr)). lia.
    + destruct (T3 eq_refl eq_refl) as (T & _ & T'). split; assumption.
    + destruct (T1 eq_refl) as (T & _). discriminate.
    + split; [symmetry; apply T2; reflexivity|]. rewrite <- B. apply (hi_nopt _ Hiw fw A Eow).
Qed.

(* chunk 0: the fields the reader reads there are a prefix of those the writer wrote *)
Definition r0p (sw sr : list step) (f : field) : bool :=
  written f && negb (in_removed sw (f_name f)) && (chunk_of sr (f_name f) =? 0).
Definition R0 (sw sr : list step) (frs : list field) : list name := map f_name (filter (r0p sw sr) frs).

Lemma c0p_chunk s f : c0p s f = written f && (chunk_of s (f_name f) =? 0).
Proof.
  unfold c0p. f_equal. destruct (field_generation s (f_name f)) eqn:E.
  - symmetry. apply N.eqb_neq. intros H. apply chunk_of_0_iff in H. congruence.
  - symmetry. apply N.eqb_eq. apply chunk_of_0_iff. exact E.
Qed.

Lemma C0_nrem m : hinv m -> forall n, In n (C0 m) -> in_removed (r_steps m) n = false.
Proof.
  intros Hi n Hin. unfold C0 in Hin. apply in_map_iff in Hin as (f & <- & Hin).
  apply filter_In in Hin as [Hin Hc]. unfold c0p in Hc. apply andb_true_iff in Hc as [Hc _].
  apply (hi_nrem _ Hi f Hin Hc).
Qed.

Lemma R0_filter sw mr :
  R0 sw (r_steps mr) (r_fields mr) = filter (fun n => negb (in_removed sw n)) (C0 mr).
Proof.
  unfold R0, C0. induction (r_fields mr) as [|f fs IH]; cbn [filter map]; [reflexivity|].
  unfold r0p at 1. rewrite c0p_chunk.
  destruct (written f); cbn [andb]; [|exact IH].
  destruct (chunk_of (r_steps mr) (f_name f) =? 0); rewrite ?andb_true_r, ?andb_false_r; cbn [map filter]; [|exact IH].
  destruct (in_removed sw (f_name f)); cbn [negb map]; rewrite IH; reflexivity.
Qed.

Lemma filter_names_id (p : name -> bool) l : (forall n, In n l -> p n = true) -> filter p l = l.
Proof. apply filter_id. Qed.

Lemma filter_none {A} (p : A -> bool) l : (forall x, In x l -> p x = false) -> filter p l = [].
Proof.
  induction l as [|x l IH]; intros H; cbn [filter]; [reflexivity|].
  rewrite (H x (or_introl eq_refl)). apply IH. intros y Hy. apply H. right. exact Hy.
Qed.

Lemma R0_prefix_A mw mr : rel mw mr -> hinv mr ->
  exists Y, C0 mw = R0 (r_steps mw) (r_steps mr) (r_fields mr) ++ Y /\
            forall n, In n Y -> in_removed (r_steps mr) n = true.
Proof.
  intros R Hir. destruct (rl_c0 _ _ R) as (X & HX & HXr). exists X. split; [|exact HXr].
  rewrite R0_filter, filter_id; [exact HX|].
  intros n Hn. apply negb_true_iff. apply (C0_nrem _ Hir) in Hn.
  destruct (in_removed (r_steps mw) n) eqn:E; [|reflexivity]. apply (rl_rem _ _ R) in E. congruence.
Qed.

Lemma R0_prefix_B mw mr : rel mr mw -> hinv mw ->
  C0 mw = R0 (r_steps mw) (r_steps mr) (r_fields mr).
Proof.
  intros R Hiw. destruct (rl_c0 _ _ R) as (X & HX & HXr).
  rewrite R0_filter, HX, filter_app, filter_id, filter_none, app_nil_r; [reflexivity | |].
  - intros n Hn. rewrite (HXr n Hn). reflexivity.
  - intros n Hn. rewrite (C0_nrem _ Hiw n Hn). reflexivity.
Qed.

(* ================================================================== *)
(* 8. the writer, when field codecs leave the string table alone       *)

Lemma nth_error_upd l : forall i j g,
  nth_error (upd l i g) j = if Nat.eqb i j then option_map g (nth_error l j) else nth_error l j.
Proof.
  induction l as [|x l IH]; intros i j g.
  - cbn [upd]. destruct j; cbn [nth_error option_map]; destruct (Nat.eqb i _); reflexivity.
  - destruct i as [|i], j as [|j]; cbn [upd nth_error Nat.eqb option_map]; try reflexivity. apply IH.
Qed.

Definition idxfun (idx : list (name * (N * N))) : Prop :=
  forall n cp cp', In (n, cp) idx -> In (n, cp') idx -> cp = cp'.

Lemma assoc_name_fun n idx cp : idxfun idx -> In (n, cp) idx -> assoc_name n idx = Some cp.
Proof.
  intros Hf Hin. destruct (assoc_name n idx) as [cp'|] eqn:E.
  - apply assoc_name_in in E. f_equal. eapply Hf; eassumption.
  - exfalso. induction idx as [|[a b] idx IH]; [destruct Hin|]. cbn [assoc_name] in E.
    destruct (bytes_eqb a n) eqn:Ea; [discriminate|]. destruct Hin as [Heq | Hin].
    + injection Heq as -> ->. rewrite bytes_eqb_refl in Ea. discriminate.
    + apply IH; auto. intros n' c c' H1 H2. eapply Hf; right; eassumption.
Qed.

Section Neutral.
  Context (E : env) (encf : ty -> encoder) (decf : ty -> adecoder)
          (w : ty -> val -> bool) (nv : ty -> val -> val).
  Hypothesis FN : fields_neutral E encf decf w nv.

  Definition fb (t : ty) (v : val) : bytes :=
    match encf t v [] with Ok (b, _) => b | _ => [] end.
  Definition fb' (p : field * val) : bytes := fb (f_ty (fst p)) (snd p).

  Lemma enc_fb t v st b st' : encf t v st = Ok (b, st') -> st' = st /\ b = fb t v.
  Proof.
    intros H. split; [eapply fn_enc; eassumption|].
    pose proof (fn_bytes _ _ _ _ _ FN t v st []) as Hb. rewrite H in Hb. unfold fb.
    destruct (encf t v []) as [[b0 st0]| | |]; cbn in Hb; try discriminate.
    injection Hb as ->. reflexivity.
  Qed.

  Variable sw : list step.

  Definition wrp (f : field) (c : N) : bool := written f && (chunk_of sw (f_name f) =? c).

  Fixpoint cbytes (c : N) (fs : list field) (vs : list val) : bytes :=
    match fs, vs with
    | f :: fs', v :: vs' => (if wrp f c then fb (f_ty f) v else []) ++ cbytes c fs' vs'
    | _, _ => []
    end.

  Fixpoint w0 (fs : list field) (vs : list val) : list (field * val) :=
    match fs, vs with
    | f :: fs', v :: vs' => if wrp f 0 then (f, v) :: w0 fs' vs' else w0 fs' vs'
    | _, _ => []
    end.

  Lemma cbytes_0 : forall fs vs, cbytes 0 fs vs = concat (map fb' (w0 fs vs)).
  Proof.
    induction fs as [|f fs IH]; intros [|v vs]; cbn [cbytes w0]; try reflexivity.
    destruct (wrp f 0); cbn [map concat app]; rewrite IH; reflexivity.
  Qed.

  Lemma w0_in : forall fs vs f x, In (f, x) (w0 fs vs) -> In f fs /\ written f = true.
  Proof.
    induction fs as [|g fs IH]; intros [|v vs] f x H; cbn [w0] in H; try contradiction.
    destruct (wrp g 0) eqn:Ew.
    - destruct H as [H | H].
      + injection H as <- <-. unfold wrp in Ew. apply andb_true_iff in Ew as [Ew _].
        split; [left; reflexivity | exact Ew].
      + apply IH in H as [H1 H2]. split; [right; exact H1 | exact H2].
    - apply IH in H as [H1 H2]. split; [right; exact H1 | exact H2].
  Qed.

  Lemma w0_lookup : forall fs vs f x, NoDup (map f_name fs) ->
    In (f, x) (w0 fs vs) -> lookup_value (f_name f) fs vs = Some (f, x).
  Proof.
    induction fs as [|g fs IH]; intros [|v vs] f x Hnd H; cbn [w0] in H; try contradiction.
    cbn [map] in Hnd. inversion Hnd as [|? ? H1 H2]; subst. cbn [lookup_value].
    assert (Htl: In (f, x) (w0 fs vs) -> (if bytes_eqb (f_name g) (f_name f) then Some (g, v)
                   else lookup_value (f_name f) fs vs) = Some (f, x)).
    { intros Hin. destruct (bytes_eqb (f_name g) (f_name f)) eqn:Eg.
      - apply bytes_eqb_eq in Eg. apply w0_in in Hin as [Hin _]. exfalso. apply H1.
        rewrite Eg. apply in_map. exact Hin.
      - apply IH; assumption. }
    destruct (wrp g 0); [|auto]. destruct H as [H | H]; [|auto].
    injection H as <- <-. rewrite bytes_eqb_refl. reflexivity.
  Qed.

  Lemma w0_names : forall fs vs, length fs = length vs ->
    map (fun p => f_name (fst p)) (w0 fs vs) = map f_name (filter (c0p sw) fs).
  Proof.
    induction fs as [|f fs IH]; intros [|v vs] Hl; cbn [length] in Hl; try discriminate; [reflexivity|].
    cbn [w0 filter]. rewrite c0p_chunk. change (written f && (chunk_of sw (f_name f) =? 0)) with (wrp f 0).
    destruct (wrp f 0); cbn [map fst]; rewrite IH by lia; reflexivity.
  Qed.

  Lemma cbytes_none c : forall fs vs, (forall f, In f fs -> wrp f c = false) -> cbytes c fs vs = [].
  Proof.
    induction fs as [|f fs IH]; intros [|v vs] H; cbn [cbytes]; try reflexivity.
    rewrite (H f (or_introl eq_refl)), IH; [reflexivity|]. intros g Hg. apply H. right. exact Hg.
  Qed.

  (* a later generation: the field is alone in its chunk *)
  Lemma cbytes_single c n : c <> 0 -> forall fs vs f x, NoDup (map f_name fs) ->
    lookup_value n fs vs = Some (f, x) -> written f = true -> chunk_of sw n = c ->
    cbytes c fs vs = fb (f_ty f) x.
  Proof.
    intros Hc. induction fs as [|g fs IH]; intros [|v vs] f x Hnd Hl Hw Hch; cbn [lookup_value] in Hl;
      try discriminate.
    cbn [map] in Hnd. inversion Hnd as [|? ? H1 H2]; subst. cbn [cbytes].
    destruct (bytes_eqb (f_name g) n) eqn:Eg.
    - injection Hl as <- <-. apply bytes_eqb_eq in Eg. unfold wrp at 1.
      rewrite Hw, Eg, N.eqb_refl. cbn [andb]. rewrite cbytes_none; [apply app_nil_r|].
      intros h Hh. unfold wrp. apply andb_false_iff. right. apply N.eqb_neq. intros Heq.
      apply H1. rewrite <- Eg in Heq. symmetry in Heq.
      apply chunk_of_inj in Heq; [|congruence]. rewrite Heq. apply in_map. exact Hh.
    - assert (wrp g (chunk_of sw n) = false) as ->.
      { unfold wrp. apply andb_false_iff. right. apply N.eqb_neq. intros Heq.
        apply chunk_of_inj in Heq; [|apply bytes_eqb_neq in Eg; rewrite Heq; exact Hc].
        apply bytes_eqb_neq in Eg. contradiction. }
      cbn [app]. eapply IH; eauto.
  Qed.

  Lemma enc_chunked_spec : forall fs vs ss st ss' st',
    enc_fields_chunked encf sw fs vs ss st = Ok (ss', st') ->
    st' = st /\
    (forall c, nth_error (ss_chunks ss') c =
               option_map (fun old => old ++ cbytes (N.of_nat c) fs vs) (nth_error (ss_chunks ss) c)) /\
    (forall n f x, lookup_value n fs vs = Some (f, x) -> written f = true ->
                   encf (f_ty f) x st = Ok (fb (f_ty f) x, st)) /\
    (exists ext, ss_idx ss' = ext ++ ss_idx ss) /\
    (forall j f x, nth_error (w0 fs vs) j = Some (f, x) ->
       In (f_name f, (0, Z.to_N (lastZ (ss_last ss) 0 + 1 + Z.of_nat j))) (ss_idx ss')) /\
    (forall f, In f fs -> written f = true ->
       exists p, In (f_name f, (chunk_of sw (f_name f), p)) (ss_idx ss')).
  Proof.
    induction fs as [|f fs IH]; intros vs ss st ss' st' Henc.
    - destruct vs; [|discriminate]. cbn in Henc. apply ok_pair_inj in Henc as [<- <-].
      split; [reflexivity|]. split.
      { intros c. cbn [cbytes]. destruct (nth_error (ss_chunks ss) c); cbn [option_map];
          rewrite ?app_nil_r; reflexivity. }
      split; [intros n f x H; discriminate|]. split; [exists []; reflexivity|].
      split; [intros [|j] f x H; discriminate | intros f []].
    - destruct vs as [|v vs]; [discriminate|]. cbn [enc_fields_chunked] in Henc.
      destruct (f_transient f) as [dflt|] eqn:Etr.
      + assert (Hnw: written f = false) by (unfold written; rewrite Etr; reflexivity).
        assert (Hwrp: forall c, wrp f c = false) by (intros c; unfold wrp; rewrite Hnw; reflexivity).
        destruct (IH _ _ _ _ _ Henc) as (I1 & I2 & I3 & I4 & I5 & I6).
        split; [exact I1|]. split; [intros c; cbn [cbytes]; rewrite Hwrp; apply I2|].
        split.
        { intros n g x Hl Hw. cbn [lookup_value] in Hl. destruct (bytes_eqb (f_name f) n).
          - injection Hl as <- <-. congruence.
          - eapply I3; eassumption. }
        split; [exact I4|]. split; [cbn [w0]; rewrite Hwrp; exact I5|].
        intros g [<- | Hg] Hw; [congruence | auto].
      + assert (Hwf: written f = true) by (unfold written; rewrite Etr; reflexivity).
        change (match field_generation sw (f_name f) with Some c => c | None => 0 end)
          with (chunk_of sw (f_name f)) in Henc.
        set (c := chunk_of sw (f_name f)) in *.
        destruct (encf (f_ty f) v st) as [[b st1]| | |] eqn:E1; try discriminate.
        cbn [bind] in Henc. destruct (enc_fb _ _ _ _ _ E1) as [-> ->].
        destruct (app_nth (ss_chunks ss) (N.to_nat c) (fb (f_ty f) v)) as [chunks|] eqn:Eapp; [|discriminate].
        destruct (ser_record_index (mkSer chunks (ss_last ss) (ss_idx ss)) (f_name f) c)
          as [ss1| | |] eqn:Eser; try discriminate.
        cbn [bind] in Henc.
        apply ser_record_index_spec in Eser as (p & Hp & ->). cbn [ss_last ss_idx ss_chunks] in *.
        apply app_nth_upd in Eapp as [-> Hclt].
        destruct (IH _ _ _ _ _ Henc) as (I1 & I2 & I3 & (ext & I4) & I5 & I6).
        cbn [ss_last ss_idx ss_chunks] in *.
        assert (Hhead: In (f_name f, (c, p)) (ss_idx ss')).
        { rewrite I4. apply in_or_app. right. left. reflexivity. }
        split; [exact I1|]. split.
        { intros j. rewrite I2, nth_error_upd. cbn [cbytes]. unfold wrp at 1. rewrite Hwf. cbn [andb].
          fold c. destruct (Nat.eqb (N.to_nat c) j) eqn:Ej.
          - assert (c =? N.of_nat j = true) as -> by lia.
            destruct (nth_error (ss_chunks ss) j); cbn [option_map]; [|reflexivity].
            rewrite <- app_assoc. reflexivity.
          - assert (c =? N.of_nat j = false) as -> by lia. reflexivity. }
        split.
        { intros n g x Hl Hw. cbn [lookup_value] in Hl. destruct (bytes_eqb (f_name f) n).
          - injection Hl as <- <-. exact E1.
          - eapply I3; eassumption. }
        split; [exists (ext ++ [(f_name f, (c, p))]); rewrite <- app_assoc; exact I4|].
        split.
        { intros j g x Hj. cbn [w0] in Hj. unfold wrp in Hj. rewrite Hwf in Hj. cbn [andb] in Hj.
          fold c in Hj. destruct (c =? 0) eqn:Ec.
          - assert (c = 0) by lia. pose proof Hp as Hp0. rewrite H in Hp0.
            destruct j as [|j]; cbn [nth_error] in Hj.
            + injection Hj as <- <-. replace (Z.to_N (lastZ (ss_last ss) 0 + 1 + Z.of_nat 0)) with p by lia.
              rewrite <- H. exact Hhead.
            + apply I5 in Hj. rewrite lastZ_cons, Ec in Hj.
              replace (Z.to_N (lastZ (ss_last ss) 0 + 1 + Z.of_nat (S j)))
                with (Z.to_N (Z.of_N p + 1 + Z.of_nat j)) by lia. exact Hj.
          - apply I5 in Hj. rewrite lastZ_cons, Ec in Hj. exact Hj. }
        intros g [<- | Hg] Hw; [exists p; exact Hhead | auto].
  Qed.

  Lemma enc_idx_fun : forall fs vs ss st ss' st',
    NoDup (map f_name fs) ->
    (forall n cp, In (n, cp) (ss_idx ss) -> ~ In n (map f_name fs)) ->
    idxfun (ss_idx ss) ->
    enc_fields_chunked encf sw fs vs ss st = Ok (ss', st') -> idxfun (ss_idx ss').
  Proof.
    induction fs as [|f fs IH]; intros vs ss st ss' st' Hnd Hfr Hfun Henc.
    - destruct vs; [|discriminate]. cbn in Henc. apply ok_pair_inj in Henc as [<- <-]. exact Hfun.
    - destruct vs as [|v vs]; [discriminate|]. cbn [enc_fields_chunked] in Henc.
      cbn [map] in Hnd. inversion Hnd as [|? ? H1 H2]; subst.
      destruct (f_transient f) as [dflt|] eqn:Etr.
      + eapply IH; try eassumption. intros n cp Hin Hn. apply (Hfr n cp Hin). right. exact Hn.
      + destruct (encf (f_ty f) v st) as [[b st1]| | |] eqn:E1; try discriminate.
        cbn [bind] in Henc.
        destruct (app_nth (ss_chunks ss) _ b) as [chunks|] eqn:Eapp; [|discriminate].
        destruct (ser_record_index (mkSer chunks (ss_last ss) (ss_idx ss)) (f_name f) _)
          as [ss1| | |] eqn:Eser; try discriminate.
        cbn [bind] in Henc. apply ser_record_index_spec in Eser as (p & Hp & ->).
        cbn [ss_last ss_idx ss_chunks] in *.
        eapply IH; [exact H2 | | | exact Henc]; cbn [ss_idx].
        * intros n cp [Heq | Hin] Hn.
          -- injection Heq as <- <-. contradiction.
          -- apply (Hfr n cp Hin). right. exact Hn.
        * intros n cp cp' [Heq | Hin] [Heq' | Hin'].
          -- congruence.
          -- injection Heq as <- <-. exfalso. apply (Hfr _ _ Hin'). left. reflexivity.
          -- injection Heq' as <- <-. exfalso. apply (Hfr _ _ Hin). left. reflexivity.
          -- eapply Hfun; eassumption.
  Qed.

  (* version 0: no chunks *)
  Lemma enc_v0_spec : forall fs vs st b st',
    enc_fields_v0 encf fs vs st = Ok (b, st') ->
    st' = st /\
    (forall n f x, lookup_value n fs vs = Some (f, x) -> written f = true ->
                   encf (f_ty f) x st = Ok (fb (f_ty f) x, st)) /\
    b = concat (map (fun p => fb (f_ty (fst p)) (snd p))
                    (filter (fun p => written (fst p)) (combine fs vs))).
  Proof.
    induction fs as [|f fs IH]; intros vs st b st' Henc.
    - destruct vs; [|discriminate]. cbn in Henc. apply ok_pair_inj in Henc as [<- <-].
      split; [reflexivity|]. split; [intros n f x H; discriminate | reflexivity].
    - destruct vs as [|v vs]; [discriminate|]. cbn [enc_fields_v0] in Henc.
      cbn [combine filter fst]. unfold written at 2.
      destruct (f_transient f) as [dflt|] eqn:Etr.
      + destruct (IH _ _ _ _ Henc) as (I1 & I2 & I3). split; [exact I1|]. split; [|exact I3].
        intros n g x Hl Hw. cbn [lookup_value] in Hl. destruct (bytes_eqb (f_name f) n).
        * injection Hl as <- <-. unfold written in Hw. rewrite Etr in Hw. discriminate.
        * eapply I2; eassumption.
      + destruct (encf (f_ty f) v st) as [[b1 st1]| | |] eqn:E1; try discriminate.
        cbn [bind] in Henc. destruct (enc_fb _ _ _ _ _ E1) as [-> ->].
        destruct (enc_fields_v0 encf fs vs st) as [[b2 st2]| | |] eqn:E2; try discriminate.
        cbn [bind] in Henc. apply ok_pair_inj in Henc as [<- <-].
        destruct (IH _ _ _ _ E2) as (I1 & I2 & I3). split; [exact I1|]. split.
        * intros n g x Hl Hw. cbn [lookup_value] in Hl. destruct (bytes_eqb (f_name f) n).
          -- injection Hl as <- <-. exact E1.
          -- eapply I2; eassumption.
        * cbn [map concat fst snd]. rewrite I3. reflexivity.
  Qed.
End Neutral.

(* ================================================================== *)
(* 9. the reader, one field at a time                                  *)

Definition getc (I : list bytes) (cur : bytes) (c : nat) : option bytes :=
  match I with [] => Some cur | _ => nth_error I c end.
Definition putI (I : list bytes) (c : nat) (x : bytes) : list bytes :=
  match I with [] => [] | _ => set_nth I c x end.
Definition putC (I : list bytes) (cur x : bytes) : bytes :=
  match I with [] => x | _ => cur end.

Lemma length_set_nth {A} (l : list A) : forall i x, length (set_nth l i x) = length l.
Proof. induction l as [|y l IH]; intros [|i] x; cbn [set_nth length]; auto. Qed.

Lemma in_chunk_ok {A} last ctor sv mo rem (I : list bytes) c
    (body : astate -> outcome (A * astate)) cur k st inp a inp' st' :
  getc I cur (N.to_nat c) = Some inp ->
  (forall k', body (mkA inp k' st) = Ok (a, mkA inp' k' st')) ->
  in_chunk a_ops (mkAd last ctor sv mo rem I) c body (mkA cur k st) =
    Ok (a, mkAd last ctor sv mo rem (putI I (N.to_nat c) inp'), mkA (putC I cur inp') k st').
Proof.
  unfold in_chunk, getc, putI, putC. cbn [ad_inputs]. destruct I as [|i0 I0]; intros Hg Hb.
  - injection Hg as <-. rewrite Hb. reflexivity.
  - rewrite Hg. cbn [a_ops d_push bind a_cur a_stack a_strs]. rewrite Hb.
    cbn [bind a_ops d_pop a_stack a_cur a_strs]. unfold ad_set_input.
    cbn [ad_last ad_stored ad_ctor ad_mo ad_removed ad_inputs]. reflexivity.
Qed.

Lemma in_chunk_err {A} last ctor sv mo rem (I : list bytes) c
    (body : astate -> outcome (A * astate)) cur k st inp e :
  getc I cur (N.to_nat c) = Some inp ->
  (forall k', body (mkA inp k' st) = Err e) ->
  in_chunk a_ops (mkAd last ctor sv mo rem I) c body (mkA cur k st) = Err e.
Proof.
  unfold in_chunk, getc. cbn [ad_inputs]. destruct I as [|i0 I0]; intros Hg Hb.
  - injection Hg as <-. rewrite Hb. reflexivity.
  - rewrite Hg. cbn [a_ops d_push bind a_cur a_stack a_strs]. rewrite Hb. reflexivity.
Qed.

Definition rf_body (d : adecoder) (n : name) (mp : bool) : adecoder := fun s =>
  if mp then '(b, s) <- r_u8 a_reader s ;; if b =? 0 then Err (ENonOptionalNone n) else d s else d s.
Definition ro_body (d : adecoder) (lt : bool) : adecoder := fun s =>
  if lt then '(x, s) <- d s ;; Ok (VSome x, s)
  else '(tag, s) <- r_u8 a_reader s ;;
       if tag =? 0 then Ok (VNone, s)
       else if tag =? 1 then '(x, s) <- d s ;; Ok (VSome x, s)
       else Err EDeserializationFailure.

Lemma read_field_eq sr (d : adecoder) n dflt last ctor sv mo rem (I : list bytes) s c l :
  mem_name n rem = false -> c = chunk_of sr n ->
  nth_error last (N.to_nat c) = Some l -> (l + 1 <= 127)%Z ->
  read_field a_ops sr d n dflt (mkAd last ctor sv mo rem I) s =
    (if sv <? c then
       match dflt with
       | Some v => Ok (v, mkAd (set_nth last (N.to_nat c) (l + 1)%Z) ctor sv mo rem I, s)
       | None => Err (EFieldMissing n)
       end
     else in_chunk a_ops (mkAd (set_nth last (N.to_nat c) (l + 1)%Z) ctor sv mo rem I) c
            (rf_body d n (mem_pos (c, Z.to_N (l + 1)) mo)) s).
Proof.
  intros Hmem Hc Hl Hl127. unfold read_field. cbn [ad_removed]. rewrite Hmem.
  change (match field_generation sr n with Some c => c | None => 0 end) with (chunk_of sr n).
  rewrite <- Hc. unfold ad_record_index. cbn [ad_last]. rewrite Hl.
  assert ((127 <? l + 1)%Z = false) as -> by lia.
  cbn [bind ad_stored ad_ctor ad_mo ad_removed ad_inputs]. reflexivity.
Qed.

Lemma read_optional_field_eq sr (d : adecoder) n dflt last ctor sv mo rem (I : list bytes) s c l :
  mem_name n rem = false -> c = chunk_of sr n ->
  nth_error last (N.to_nat c) = Some l -> (l + 1 <= 127)%Z ->
  read_optional_field a_ops sr d n dflt (mkAd last ctor sv mo rem I) s =
    (if sv <? c then
       match dflt with
       | Some v => Ok (v, mkAd (set_nth last (N.to_nat c) (l + 1)%Z) ctor sv mo rem I, s)
       | None => Err EDeserializationFailure
       end
     else in_chunk a_ops (mkAd (set_nth last (N.to_nat c) (l + 1)%Z) ctor sv mo rem I) c
            (ro_body d (sv <? opt_since sr n)) s).
Proof.
  intros Hmem Hc Hl Hl127. unfold read_optional_field. cbn [ad_removed]. rewrite Hmem.
  change (match field_generation sr n with Some c => c | None => 0 end) with (chunk_of sr n).
  change (match made_optional_at sr n with Some i => i | None => 0 end) with (opt_since sr n).
  rewrite <- Hc. unfold ad_record_index. cbn [ad_last]. rewrite Hl.
  assert ((127 <? l + 1)%Z = false) as -> by lia.
  cbn [bind ad_stored ad_ctor ad_mo ad_removed ad_inputs]. reflexivity.
Qed.

Section Bodies.
  Context (E : env) (encf : ty -> encoder) (decf : ty -> adecoder)
          (w : ty -> val -> bool) (nv : ty -> val -> val).
  Hypothesis FO : fields_ok E encf decf w nv.

  Lemma body_nonopt sw sr kw fw fr x b st :
    f_opt fr = false -> trel sw sr kw fw fr ->
    encf (f_ty fw) x st = Ok (b, st) -> w (f_ty fw) x = true -> wf_ty E (f_ty fw) = true ->
    match convert_field fw fr (nv (f_ty fw) x) with
    | Ok v => forall rest k', rf_body (decf (f_ty fr)) (f_name fr) (has_opt sw (f_name fr))
                                (mkA (b ++ rest) k' st) = Ok (v, mkA rest k' st)
    | Err e => forall rest k', rf_body (decf (f_ty fr)) (f_name fr) (has_opt sw (f_name fr))
                                 (mkA (b ++ rest) k' st) = Err e
    | _ => False
    end.
  Proof.
    intros Eor T Henc Hw Hty. unfold trel in T. unfold convert_field. rewrite Eor in *.
    destruct (f_opt fw) eqn:Eow.
    - destruct T as [Tty Tho]. rewrite Tho. rewrite Tty in *. cbn [wf_ty] in Hty.
      destruct (fo_opt _ _ _ _ _ FO (f_ty fr) Hty x st b st [] [] Hw Henc)
        as [(-> & -> & _ & Hn) | (y & b' & -> & -> & Hn & _)].
      + rewrite Hn. unfold VNone. intros rest k'. unfold rf_body. cbn [app]. rewrite a_r_u8. reflexivity.
      + rewrite Hn. unfold VSome. intros rest k'. unfold rf_body. cbn [app]. rewrite a_r_u8.
        cbn [bind N.eqb].
        destruct (fo_opt _ _ _ _ _ FO (f_ty fr) Hty (VSome y) st (1 :: b') st rest k' Hw Henc)
          as [(Hc & _) | (y' & b'' & Hy & Hb & _ & Hd)]; [discriminate|].
        injection Hy as <-. injection Hb as <-. exact Hd.
    - destruct T as [Tty Tho]. rewrite Tho, Tty. intros rest k'. unfold rf_body.
      apply (fo_rt _ _ _ _ _ FO (f_ty fw) Hty x st b st rest k' Hw Henc).
  Qed.

  Lemma body_opt sw sr kw fw fr x b st t' :
    f_opt fr = true -> f_ty fr = TOption t' -> trel sw sr kw fw fr ->
    encf (f_ty fw) x st = Ok (b, st) -> w (f_ty fw) x = true -> wf_ty E (f_ty fw) = true ->
    match convert_field fw fr (nv (f_ty fw) x) with
    | Ok v => forall rest k', ro_body (decf t') (kw <? opt_since sr (f_name fr))
                                (mkA (b ++ rest) k' st) = Ok (v, mkA rest k' st)
    | _ => False
    end.
  Proof.
    intros Eor Etr T Henc Hw Hty. unfold trel in T. unfold convert_field. rewrite Eor in *.
    destruct (f_opt fw) eqn:Eow.
    - destruct T as (Tty & _ & Tle). assert (kw <? opt_since sr (f_name fr) = false) as -> by lia.
      rewrite <- Tty, Etr in *. cbn [wf_ty] in Hty. intros rest k'. unfold ro_body.
      destruct (fo_opt _ _ _ _ _ FO t' Hty x st b st rest k' Hw Henc)
        as [(-> & -> & _ & Hn) | (y & b' & -> & -> & Hn & Hd)].
      + rewrite Hn. cbn [app]. rewrite a_r_u8. reflexivity.
      + rewrite Hn. cbn [app]. rewrite a_r_u8. cbn [bind N.eqb Pos.eqb]. rewrite Hd. reflexivity.
    - destruct T as (Tty & Tlt). assert (kw <? opt_since sr (f_name fr) = true) as -> by lia.
      rewrite Etr in Tty. injection Tty as ->. intros rest k'. unfold ro_body.
      rewrite (fo_rt _ _ _ _ _ FO (f_ty fw) Hty x st b st rest k' Hw Henc). reflexivity.
  Qed.
End Bodies.

(* ================================================================== *)
(* 10. the reader's loop                                               *)

Lemma nth_error_set_nth_ne {A} (l : list A) : forall i j x,
  i <> j -> nth_error (set_nth l i x) j = nth_error l j.
Proof.
  induction l as [|y l IH]; intros i j x Hij; [destruct i; reflexivity|].
  destruct i as [|i], j as [|j]; cbn [set_nth nth_error]; try reflexivity; [lia|].
  apply IH. lia.
Qed.

Lemma nth_error_set_nth_eq {A} (l : list A) : forall i x y,
  nth_error l i = Some y -> nth_error (set_nth l i x) i = Some x.
Proof.
  induction l as [|z l IH]; intros i x y H; [destruct i; discriminate|].
  destruct i as [|i]; cbn [set_nth nth_error] in *; [reflexivity|]. eapply IH. exact H.
Qed.

Section Reader.
  Context (E : env) (encf : ty -> encoder) (decf : ty -> adecoder)
          (w : ty -> val -> bool) (nv : ty -> val -> val).
  Hypothesis FN : fields_neutral E encf decf w nv.
  Variables (mw mr : rmeta) (vw : list val) (st : strtab) (mo : list (N * N)) (rem : list name)
            (k : list bytes).
  Notation sw := (r_steps mw).
  Notation sr := (r_steps mr).
  Notation kw := (nlen (r_steps mw)).
  Notation fsw := (r_fields mw).
  Notation fbb := (fb' encf).
  Notation vwn := (norm_written nv (r_fields mw) vw).

  Hypothesis Hrem : forall n, mem_name n rem = in_removed sw n.
  Hypothesis Henc : forall n f x, lookup_value n fsw vw = Some (f, x) -> written f = true ->
      encf (f_ty f) x st = Ok (fb encf (f_ty f) x, st).
  Hypothesis Hwv : forall n f x, lookup_value n fsw vw = Some (f, x) ->
      w (f_ty f) x = true /\ wf_ty E (f_ty f) = true.
  Hypothesis Hmoc : forall n f x, lookup_value n fsw vw = Some (f, x) -> written f = true ->
      chunk_of sw n <> 0 -> mem_pos (chunk_of sw n, 0) mo = has_opt sw n.

  Definition read_one (fr : field) (ad : adt_de) (s : astate) : outcome (val * adt_de * astate) :=
    match f_transient fr with
    | Some dflt => Ok (dflt, ad, s)
    | None =>
        let dflt := field_default sr (f_name fr) None in
        if f_opt fr then
          match f_ty fr with
          | TOption t' => read_optional_field a_ops sr (decf t') (f_name fr) dflt ad s
          | _ => Err EIllTyped
          end
        else read_field a_ops sr (decf (f_ty fr)) (f_name fr) dflt ad s
    end.

  Lemma read_fields_cons fr frs ad s :
    read_fields a_ops decf sr (fr :: frs) ad s =
      ('(v, ad, s) <- read_one fr ad s ;;
       '(vs, ad, s) <- read_fields a_ops decf sr frs ad s ;;
       Ok (v :: vs, ad, s)).
  Proof. reflexivity. Qed.

  Definition loop_post (I : list bytes) (cur G : bytes)
      (r : outcome (list val * adt_de * astate)) (ex : outcome (list val)) : Prop :=
    match ex with
    | Ok vs => exists last' I' cur',
        r = Ok (vs, mkAd last' None kw mo rem I', mkA cur' k st) /\
        getc I' cur' 0 = Some G /\ (I = [] -> I' = []) /\ (I <> [] -> cur' = cur)
    | Err e => r = Err e
    | _ => False
    end.

  Lemma post_cont I cur I1 cur1 G (r : outcome (list val * adt_de * astate)) ex v :
    loop_post I1 cur1 G r ex -> (I = [] -> I1 = []) -> (I <> [] -> I1 <> [] /\ cur1 = cur) ->
    loop_post I cur G ('(vs, ad, s) <- r ;; Ok (v :: vs, ad, s)) (xs <- ex ;; Ok (v :: xs)).
  Proof.
    unfold loop_post. destruct ex as [vs| | |]; cbn [bind]; intros H H0 H1; try contradiction.
    - destruct H as (last' & I' & cur' & -> & Hg & Ha & Hb). cbn [bind].
      exists last', I', cur'. split; [reflexivity|]. split; [exact Hg|]. split.
      + intros HI. auto.
      + intros HI. destruct (H1 HI) as [H2 <-]. auto.
    - rewrite H. reflexivity.
  Qed.

  (* ---------- one field ---------- *)
  Lemma read_one_removed fr ad s last I :
    ad = mkAd last None kw mo rem I -> f_transient fr = None ->
    (f_opt fr = true -> exists t', f_ty fr = TOption t') ->
    in_removed sw (f_name fr) = true ->
    read_one fr ad s = if f_opt fr then Ok (VNone, ad, s) else Err (EFieldRemoved (f_name fr)).
  Proof.
    intros -> Etr Hopt Hr. unfold read_one. rewrite Etr. cbv zeta. destruct (f_opt fr).
    - destruct (Hopt eq_refl) as [t' ->]. unfold read_optional_field. cbn [ad_removed].
      rewrite Hrem, Hr. reflexivity.
    - unfold read_field. cbn [ad_removed]. rewrite Hrem, Hr. reflexivity.
  Qed.

  Lemma read_one_default fr s last I c l d :
    f_transient fr = None -> (f_opt fr = true -> exists t', f_ty fr = TOption t') ->
    in_removed sw (f_name fr) = false -> c = chunk_of sr (f_name fr) -> kw < c ->
    nth_error last (N.to_nat c) = Some l -> (l + 1 <= 127)%Z ->
    field_default sr (f_name fr) None = Some d ->
    read_one fr (mkAd last None kw mo rem I) s =
      Ok (d, mkAd (set_nth last (N.to_nat c) (l + 1)%Z) None kw mo rem I, s).
  Proof.
    intros Etr Hopt Hr Hc Hlt Hl Hl127 Hd. unfold read_one. rewrite Etr. cbv zeta.
    assert (Hm: mem_name (f_name fr) rem = false) by (rewrite Hrem; exact Hr).
    assert (Hk: kw <? c = true) by lia. destruct (f_opt fr).
    - destruct (Hopt eq_refl) as [t' ->].
      rewrite (read_optional_field_eq _ _ _ _ _ _ _ _ _ _ _ c l Hm Hc Hl Hl127), Hk, Hd. reflexivity.
    - rewrite (read_field_eq _ _ _ _ _ _ _ _ _ _ _ c l Hm Hc Hl Hl127), Hk, Hd. reflexivity.
  Qed.

  Lemma read_one_stored fr fw x last I cur c l rest :
    f_transient fr = None -> (f_opt fr = true -> exists t', f_ty fr = TOption t') ->
    in_removed sw (f_name fr) = false -> c = chunk_of sr (f_name fr) -> c <= kw ->
    nth_error last (N.to_nat c) = Some l -> (l + 1 <= 127)%Z ->
    getc I cur (N.to_nat c) = Some (fb encf (f_ty fw) x ++ rest) ->
    mem_pos (c, Z.to_N (l + 1)) mo = has_opt sw (f_name fr) ->
    trel sw sr kw fw fr ->
    lookup_value (f_name fr) fsw vw = Some (fw, x) -> written fw = true ->
    match convert_field fw fr (nv (f_ty fw) x) with
    | Ok v => read_one fr (mkAd last None kw mo rem I) (mkA cur k st) =
                Ok (v, mkAd (set_nth last (N.to_nat c) (l + 1)%Z) None kw mo rem (putI I (N.to_nat c) rest),
                    mkA (putC I cur rest) k st)
    | Err e => read_one fr (mkAd last None kw mo rem I) (mkA cur k st) = Err e
    | _ => False
    end.
  Proof.
    intros Etr Hopt Hr Hc Hle Hl Hl127 Hg Hmp T Hlk Hwf.
    pose proof (Henc _ _ _ Hlk Hwf) as He. destruct (Hwv _ _ _ Hlk) as [Hwx Hty].
    assert (Hm: mem_name (f_name fr) rem = false) by (rewrite Hrem; exact Hr).
    assert (Hk: kw <? c = false) by lia.
    unfold read_one. rewrite Etr. cbv zeta. destruct (f_opt fr) eqn:Eor.
    - destruct (Hopt eq_refl) as [t' Et']. rewrite Et'.
      rewrite (read_optional_field_eq _ _ _ _ _ _ _ _ _ _ _ c l Hm Hc Hl Hl127), Hk.
      pose proof (body_opt E encf decf w nv (fn_ok _ _ _ _ _ FN) sw sr kw fw fr x _ st t' Eor Et' T He Hwx Hty) as Hb.
      destruct (convert_field fw fr (nv (f_ty fw) x)) as [v|e| |]; try contradiction.
      apply in_chunk_ok with (inp := fb encf (f_ty fw) x ++ rest); [exact Hg|].
      intros k'. apply Hb.
    - rewrite (read_field_eq _ _ _ _ _ _ _ _ _ _ _ c l Hm Hc Hl Hl127), Hk, Hmp.
      pose proof (body_nonopt E encf decf w nv (fn_ok _ _ _ _ _ FN) sw sr kw fw fr x _ st Eor T He Hwx Hty) as Hb.
      destruct (convert_field fw fr (nv (f_ty fw) x)) as [v|e| |]; try contradiction.
      + apply in_chunk_ok with (inp := fb encf (f_ty fw) x ++ rest); [exact Hg|].
        intros k'. apply Hb.
      + apply in_chunk_err with (inp := fb encf (f_ty fw) x ++ rest); [exact Hg|].
        intros k'. apply Hb.
  Qed.

  (* ---------- the state of the reader between two fields ---------- *)
  Record rinv (frs : list field) (W0 : list (field * val)) (last : list Z) (I : list bytes)
      (cur tail : bytes) : Prop := {
    ri_last : forall c, (c <= length sr)%nat ->
       exists l, nth_error last c = Some l /\ (l + Z.of_nat (length frs) <= 126)%Z;
    ri_mo0 : exists l0, nth_error last 0 = Some l0 /\
       forall j p, nth_error W0 j = Some p ->
         mem_pos (0, Z.to_N (l0 + 1 + Z.of_nat j)) mo = has_opt sw (f_name (fst p));
    ri_c0 : getc I cur 0 = Some (concat (map fbb W0) ++ tail);
    ri_I0 : kw = 0 -> I = [];
    ri_I1 : kw <> 0 -> length I = S (N.to_nat kw);
    ri_cs : forall fr, In fr frs -> written fr = true -> chunk_of sr (f_name fr) <> 0 ->
       nth_error last (N.to_nat (chunk_of sr (f_name fr))) = Some (-1)%Z /\
       (chunk_of sr (f_name fr) <= kw -> forall fw x,
          lookup_value (f_name fr) fsw vw = Some (fw, x) -> written fw = true ->
          nth_error I (N.to_nat (chunk_of sr (f_name fr))) = Some (fb encf (f_ty fw) x)) }.

  Lemma rinv_skip fr frs W0 last I cur tail :
    rinv (fr :: frs) W0 last I cur tail -> rinv frs W0 last I cur tail.
  Proof.
    intros [H1 H2 H3 H4 H5 H6]. constructor; auto.
    - intros c Hc. destruct (H1 c Hc) as (l & Hl & Hb). exists l. split; [exact Hl|].
      cbn [length] in Hb. lia.
    - intros fr' Hin. apply H6. right. exact Hin.
  Qed.

  Lemma chunk_sr_le n : (N.to_nat (chunk_of sr n) <= length sr)%nat.
  Proof. pose proof (chunk_of_le sr n) as H. rewrite nlen_length in H. lia. Qed.

  Lemma rinv_upd fr frs W0 last I cur tail c l :
    rinv (fr :: frs) W0 last I cur tail -> c = chunk_of sr (f_name fr) -> c <> 0 ->
    nth_error last (N.to_nat c) = Some l -> ~ In (f_name fr) (map f_name frs) ->
    rinv frs W0 (set_nth last (N.to_nat c) (l + 1)%Z) I cur tail.
  Proof.
    intros [H1 H2 H3 H4 H5 H6] Hc Hc0 Hl Hfresh. constructor; auto.
    - intros c' Hc'. destruct (Nat.eq_dec (N.to_nat c) c') as [<- | Hne].
      + exists (l + 1)%Z. split; [eapply nth_error_set_nth_eq; exact Hl|].
        destruct (H1 (N.to_nat c) Hc') as (l' & Hl' & Hb). cbn [length] in Hb.
        assert (l' = l) by congruence. lia.
      + rewrite nth_error_set_nth_ne by exact Hne. destruct (H1 c' Hc') as (l' & Hl' & Hb).
        exists l'. split; [exact Hl'|]. cbn [length] in Hb. lia.
    - destruct H2 as (l0 & Hl0 & Hmo). exists l0. split; [|exact Hmo].
      rewrite nth_error_set_nth_ne by lia. exact Hl0.
    - intros fr' Hin Hw' Hc'. destruct (H6 fr' (or_intror Hin) Hw' Hc') as [A B]. split; [|exact B].
      rewrite nth_error_set_nth_ne; [exact A|]. intros Heq.
      assert (chunk_of sr (f_name fr) = chunk_of sr (f_name fr')) as Heq' by lia.
      apply chunk_of_inj in Heq'; [|congruence]. apply Hfresh. rewrite Heq'. apply in_map. exact Hin.
  Qed.

  Lemma rinv_updI frs W0 last I cur tail c x :
    rinv frs W0 last I cur tail -> c <> 0 ->
    (forall fr, In fr frs -> chunk_of sr (f_name fr) <> c) -> I <> [] ->
    rinv frs W0 last (set_nth I (N.to_nat c) x) cur tail.
  Proof.
    intros [H1 H2 H3 H4 H5 H6] Hc0 Hne HI. constructor; auto.
    - destruct I as [|i0 I0]; [contradiction|]. unfold getc in *.
      destruct (N.to_nat c) as [|c'] eqn:Ec; [lia|]. cbn [set_nth nth_error] in *. exact H3.
    - intros Hk. apply H4 in Hk. contradiction.
    - intros Hk. rewrite length_set_nth. auto.
    - intros fr Hin Hw' Hc'. destruct (H6 fr Hin Hw' Hc') as [A B]. split; [exact A|].
      intros Hle fw y Hlk Hwf. rewrite nth_error_set_nth_ne; [eapply B; eassumption|].
      specialize (Hne fr Hin). lia.
  Qed.

  Lemma rinv_read0 fr frs p W0 last I cur tail l :
    rinv (fr :: frs) (p :: W0) last I cur tail -> nth_error last 0 = Some l ->
    rinv frs W0 (set_nth last 0 (l + 1)%Z) (putI I 0 (concat (map fbb W0) ++ tail))
         (putC I cur (concat (map fbb W0) ++ tail)) tail.
  Proof.
    intros [H1 H2 H3 H4 H5 H6] Hl. constructor.
    - intros c' Hc'. destruct c' as [|c'].
      + exists (l + 1)%Z. split; [eapply nth_error_set_nth_eq; exact Hl|].
        destruct (H1 0%nat Hc') as (l' & Hl' & Hb). cbn [length] in Hb.
        assert (l' = l) by congruence. lia.
      + rewrite nth_error_set_nth_ne by lia. destruct (H1 (S c') Hc') as (l' & Hl' & Hb).
        exists l'. split; [exact Hl'|]. cbn [length] in Hb. lia.
    - destruct H2 as (l0 & Hl0 & Hmo). assert (l0 = l) by congruence. subst l0.
      exists (l + 1)%Z. split; [eapply nth_error_set_nth_eq; exact Hl|].
      intros j q Hq. specialize (Hmo (S j) q Hq).
      replace (l + 1 + 1 + Z.of_nat j)%Z with (l + 1 + Z.of_nat (S j))%Z by lia. exact Hmo.
    - unfold getc, putI, putC. destruct I as [|i0 I0]; reflexivity.
    - intros Hk. rewrite (H4 Hk). reflexivity.
    - intros Hk. specialize (H5 Hk). unfold putI. destruct I as [|i0 I0]; [exact H5|].
      rewrite length_set_nth. exact H5.
    - intros fr' Hin Hw' Hc'. destruct (H6 fr' (or_intror Hin) Hw' Hc') as [A B]. split.
      + rewrite nth_error_set_nth_ne by lia. exact A.
      + intros Hle fw y Hlk Hwf. unfold putI. destruct I as [|i0 I0]; [eapply B; eassumption|].
        rewrite nth_error_set_nth_ne by lia. eapply B; eassumption.
  Qed.

  Lemma R0_cons fr frs :
    R0 sw sr (fr :: frs) = if r0p sw sr fr then f_name fr :: R0 sw sr frs else R0 sw sr frs.
  Proof. unfold R0. cbn [filter]. destruct (r0p sw sr fr); reflexivity. Qed.

  Lemma read_loop : forall frs W0 last I cur tail,
    (forall fr, In fr frs -> written fr = true -> fclass nv mw mr vw fr) ->
    (forall fr, In fr frs -> f_opt fr = true -> exists t', f_ty fr = TOption t') ->
    NoDup (map f_name frs) ->
    (exists Y, map (fun p => f_name (fst p)) W0 = R0 sw sr frs ++ Y) ->
    (forall p, In p W0 -> lookup_value (f_name (fst p)) fsw vw = Some p) ->
    rinv frs W0 last I cur tail ->
    loop_post I cur (concat (map fbb (skipn (length (R0 sw sr frs)) W0)) ++ tail)
      (read_fields a_ops decf sr frs (mkAd last None kw mo rem I) (mkA cur k st))
      (expected_fields mw mr vwn frs).
  Proof.
    induction frs as [|fr frs IH]; intros W0 last I cur tail Hcl Hopt Hnd Hpre HW0 Hinv.
    - cbn [expected_fields read_fields loop_post]. exists last, I, cur.
      split; [reflexivity|]. split; [apply (ri_c0 _ _ _ _ _ _ Hinv) | auto].
    - cbn [map] in Hnd. inversion Hnd as [|? ? Hfresh Hnd']; subst.
      assert (Hcl': forall fr', In fr' frs -> written fr' = true -> fclass nv mw mr vw fr')
        by (intros fr' Hin; apply Hcl; right; exact Hin).
      assert (Hopt': forall fr', In fr' frs -> f_opt fr' = true -> exists t', f_ty fr' = TOption t')
        by (intros fr' Hin; apply Hopt; right; exact Hin).
      specialize (Hopt fr (or_introl eq_refl)).
      rewrite read_fields_cons. cbn [expected_fields]. rewrite R0_cons in *.
      destruct (f_transient fr) as [dflt|] eqn:Etr.
      + (* transient *)
        assert (Hr0: r0p sw sr fr = false) by (unfold r0p, written; rewrite Etr; reflexivity).
        rewrite Hr0 in *. unfold expected_field, read_one. rewrite Etr. cbn [bind].
        apply post_cont with (I1 := I) (cur1 := cur); [|auto|auto].
        apply IH; auto. eapply rinv_skip; eassumption.
      + assert (Hw: written fr = true) by (unfold written; rewrite Etr; reflexivity).
        pose proof (Hcl fr (or_introl eq_refl) Hw) as Hc. unfold fclass in Hc. cbv zeta in Hc.
        destruct Hc as [(Hr & HEF) | [(Hr & c & d & Hg & Hlt & Hd & HEF) | (Hr & fw & x & Hlk & Hwf & Hch & Hle & T & HEF)]].
        * (* the writer's header lists the field as removed *)
          assert (Hr0: r0p sw sr fr = false) by (unfold r0p; rewrite Hr, andb_false_r; reflexivity).
          rewrite Hr0 in *. rewrite HEF.
          rewrite (read_one_removed fr _ _ last I eq_refl Etr Hopt Hr).
          destruct (f_opt fr); cbn [bind]; [|reflexivity].
          apply post_cont with (I1 := I) (cur1 := cur); [|auto|auto].
          apply IH; auto. eapply rinv_skip; eassumption.
        * (* added after the writer's version *)
          assert (Hcc: c = chunk_of sr (f_name fr)) by (unfold chunk_of; rewrite Hg; reflexivity).
          assert (Hc0: c <> 0) by lia.
          assert (Hr0: r0p sw sr fr = false).
          { unfold r0p. rewrite <- Hcc. assert (c =? 0 = false) as -> by lia. apply andb_false_r. }
          rewrite Hr0 in *. rewrite HEF.
          destruct (ri_last _ _ _ _ _ _ Hinv (N.to_nat c)) as (l & Hl & Hb);
            [rewrite Hcc; apply chunk_sr_le|]. cbn [length] in Hb.
          rewrite (read_one_default fr _ last I c l d Etr Hopt Hr Hcc Hlt Hl ltac:(lia) Hd).
          cbn [bind]. apply post_cont with (I1 := I) (cur1 := cur); [|auto|auto].
          apply IH; auto. eapply rinv_upd; eassumption.
        * (* stored by the writer *)
          set (c := chunk_of sr (f_name fr)) in *.
          destruct (ri_last _ _ _ _ _ _ Hinv (N.to_nat c)) as (l & Hl & Hb); [apply chunk_sr_le|].
          cbn [length] in Hb. rewrite HEF.
          destruct (c =? 0) eqn:Ec0.
          -- (* chunk 0 *)
             assert (c = 0) as Hcz by lia.
             assert (Hr0: r0p sw sr fr = true).
             { unfold r0p. fold c. rewrite Hw, Hr, Ec0. reflexivity. }
             rewrite Hr0 in *. destruct Hpre as [Y Hpre].
             destruct W0 as [|p W0]; [discriminate|]. cbn [map app] in Hpre.
             injection Hpre as Hpn Hpre.
             pose proof (HW0 p (or_introl eq_refl)) as Hp. rewrite Hpn, Hlk in Hp.
             injection Hp as <-. cbn [length skipn].
             rewrite Hcz in Hl. cbn [N.to_nat] in Hl.
             pose proof (ri_c0 _ _ _ _ _ _ Hinv) as Hg0. cbn [map concat] in Hg0.
             unfold fb' at 1 in Hg0. cbn [fst snd] in Hg0. rewrite <- app_assoc in Hg0.
             destruct (ri_mo0 _ _ _ _ _ _ Hinv) as (l0 & Hl0 & Hmo0).
             assert (l0 = l) by congruence. subst l0.
             pose proof (Hmo0 0%nat _ eq_refl) as Hmp. cbn [fst] in Hmp.
             replace (l + 1 + Z.of_nat 0)%Z with (l + 1)%Z in Hmp by lia. cbn [fst] in Hpn. rewrite Hpn in Hmp.
             pose proof (read_one_stored fr fw x last I cur 0 l _ Etr Hopt Hr (eq_sym Hcz)
                           ltac:(lia) Hl ltac:(lia) Hg0 Hmp T Hlk Hwf) as Hone.
             destruct (convert_field fw fr (nv (f_ty fw) x)) as [v|e| |]; try contradiction.
             ++ rewrite Hone. cbn [bind N.to_nat].
                eapply post_cont.
                ** apply IH; auto.
                   --- exists Y. exact Hpre.
                   --- intros q Hq. apply HW0. right. exact Hq.
                   --- eapply rinv_read0; eassumption.
                ** intros ->. reflexivity.
                ** intros HI. destruct I as [|i0 I0]; [contradiction|]. split; [|reflexivity].
                   cbn [putI set_nth]. discriminate.
             ++ rewrite Hone. reflexivity.
          -- (* a later chunk: the field is alone in it *)
             assert (Hc0: c <> 0) by lia.
             assert (Hr0: r0p sw sr fr = false).
             { unfold r0p. fold c. rewrite Ec0. apply andb_false_r. }
             rewrite Hr0 in *.
             destruct (ri_cs _ _ _ _ _ _ Hinv fr (or_introl eq_refl) Hw Hc0) as [Hm1 HIc].
             fold c in Hm1, HIc. specialize (HIc Hle fw x Hlk Hwf).
             assert (l = (-1)%Z) by congruence. subst l.
             assert (HI: I <> []).
             { pose proof (ri_I1 _ _ _ _ _ _ Hinv ltac:(lia)) as HlI. destruct I; [discriminate|]. discriminate. }
             assert (Hg0: getc I cur (N.to_nat c) = Some (fb encf (f_ty fw) x ++ [])).
             { rewrite app_nil_r. unfold getc. destruct I; [contradiction | exact HIc]. }
             assert (Hmp: mem_pos (c, Z.to_N (-1 + 1)) mo = has_opt sw (f_name fr)).
             { change (Z.to_N (-1 + 1)) with 0. rewrite Hch. apply (Hmoc _ _ _ Hlk Hwf). rewrite <- Hch. exact Hc0. }
             pose proof (read_one_stored fr fw x last I cur c (-1)%Z [] Etr Hopt Hr eq_refl
                           Hle Hl ltac:(lia) Hg0 Hmp T Hlk Hwf) as Hone.
             destruct (convert_field fw fr (nv (f_ty fw) x)) as [v|e| |]; try contradiction.
             ++ rewrite Hone. cbn [bind].
                assert (HpI: putI I (N.to_nat c) [] = set_nth I (N.to_nat c) [])
                  by (destruct I; [contradiction | reflexivity]).
                assert (HpC: putC I cur [] = cur) by (destruct I; [contradiction | reflexivity]).
                rewrite HpI, HpC.
                eapply post_cont.
                ** apply IH; auto. apply rinv_updI; [|exact Hc0| |exact HI].
                   --- eapply rinv_upd; try eassumption. reflexivity.
                   --- intros fr' Hin Heq. fold c in Heq. symmetry in Heq. unfold c in Heq.
                       apply chunk_of_inj in Heq; [|exact Hc0]. apply Hfresh. rewrite Heq.
                       apply in_map. exact Hin.
                ** intros ->. contradiction.
                ** intros _. split; [|reflexivity]. intros Hn.
                   apply (f_equal (@length _)) in Hn. rewrite length_set_nth in Hn.
                   destruct I; [contradiction | discriminate].
             ++ rewrite Hone. reflexivity.
  Qed.
End Reader.

(* ================================================================== *)
(* 11. the header, seen from the reader                                *)

Lemma mem_name_iff n l : mem_name n l = true <-> In n l.
Proof.
  unfold mem_name. rewrite existsb_exists. split.
  - intros (x & Hin & Hx). apply bytes_eqb_eq in Hx. subst. exact Hin.
  - intros Hin. exists n. split; [exact Hin | apply bytes_eqb_refl].
Qed.

Lemma mem_pos_iff c p l : mem_pos (c, p) l = true <-> In (c, p) l.
Proof.
  unfold mem_pos. rewrite existsb_exists. cbn [fst snd]. split.
  - intros ([a b] & Hin & Hx). cbn [fst snd] in Hx. apply andb_true_iff in Hx as [Ha Hb].
    apply N.eqb_eq in Ha, Hb. subst. exact Hin.
  - intros Hin. exists (c, p). split; [exact Hin|]. cbn [fst snd]. rewrite !N.eqb_refl. reflexivity.
Qed.

Lemma rem_of_complete idx n : forall steps cs, length cs = length steps ->
  in_removed steps n = true -> In n (rem_of (steps_ssteps idx steps cs)).
Proof.
  induction steps as [|s0 r IH]; intros cs Hl H; [discriminate|].
  destruct cs as [|c0 cs]; [discriminate|]. cbn [length] in Hl. cbn [steps_ssteps].
  rewrite rem_unfold in H. cbn [existsb] in H. apply orb_true_iff in H as [H | H].
  - destruct s0 as [m d | m | m | m]; cbn [is_rem] in H; try discriminate;
      apply bytes_eqb_eq in H; subst m; cbn [step_sstep rem_of]; left; reflexivity.
  - assert (Hrec: In n (rem_of (steps_ssteps idx r cs))) by (apply IH; [lia | exact H]).
    destruct s0 as [m d | m | m | m]; cbn [step_sstep].
    + unfold size_sstep. destruct (nlen c0 =? 0); cbn [rem_of]; exact Hrec.
    + destruct (assoc_name m idx) as [[ch q]|]; cbn [rem_of]; [exact Hrec | right; exact Hrec].
    + cbn [rem_of]. right. exact Hrec.
    + cbn [rem_of]. right. exact Hrec.
Qed.

Lemma mo_of_complete idx n c p : forall steps cs, length cs = length steps ->
  In (SMadeOptional n) steps -> assoc_name n idx = Some (c, p) ->
  In (c, p) (mo_of (steps_ssteps idx steps cs)).
Proof.
  induction steps as [|s0 r IH]; intros cs Hl H Ha; [destruct H|].
  destruct cs as [|c0 cs]; [discriminate|]. cbn [length] in Hl. cbn [steps_ssteps].
  destruct H as [-> | H].
  - cbn [step_sstep]. rewrite Ha. cbn [mo_of]. left. reflexivity.
  - assert (Hrec: In (c, p) (mo_of (steps_ssteps idx r cs))) by (apply IH; [lia | exact H | exact Ha]).
    destruct s0 as [m d | m | m | m]; cbn [step_sstep].
    + unfold size_sstep. destruct (nlen c0 =? 0); cbn [mo_of]; exact Hrec.
    + destruct (assoc_name m idx) as [[ch q]|]; cbn [mo_of]; [right; exact Hrec | exact Hrec].
    + cbn [mo_of]. exact Hrec.
    + cbn [mo_of]. exact Hrec.
Qed.

Lemma wf_fields_lookup w n : forall fs vs f x,
  wf_fields w fs vs = true -> lookup_value n fs vs = Some (f, x) -> w (f_ty f) x = true.
Proof.
  induction fs as [|g fs IH]; intros [|v vs] f x Hw Hl; cbn [lookup_value] in Hl; try discriminate.
  cbn [wf_fields] in Hw. apply andb_true_iff in Hw as [H1 H2].
  destruct (bytes_eqb (f_name g) n).
  - injection Hl as <- <-. exact H1.
  - eapply IH; eassumption.
Qed.

Lemma w0_v0 : forall fs vs, w0 [] fs vs = filter (fun p => written (fst p)) (combine fs vs).
Proof.
  induction fs as [|f fs IH]; intros [|v vs]; cbn [w0 combine filter]; try reflexivity.
  unfold wrp. change (chunk_of [] (f_name f) =? 0) with true. rewrite andb_true_r. cbn [fst].
  destruct (written f); rewrite IH; reflexivity.
Qed.

(* ================================================================== *)
(* 12. the two layouts                                                 *)

Section Assemble.
  Context (E : env) (encf : ty -> encoder) (decf : ty -> adecoder)
          (w : ty -> val -> bool) (nv : ty -> val -> val).
  Hypothesis FN : fields_neutral E encf decf w nv.
  Variables (mw mr : rmeta) (vw : list val).
  Notation sw := (r_steps mw).
  Notation sr := (r_steps mr).
  Notation vwn := (norm_written nv (r_fields mw) vw).

  Hypothesis Hiw : hinv mw.
  Hypothesis Hir : hinv mr.
  Hypothesis Hcl : forall fr, In fr (r_fields mr) -> written fr = true -> fclass nv mw mr vw fr.
  Hypothesis Hpre : exists Y, C0 mw = R0 sw sr (r_fields mr) ++ Y.
  Hypothesis Htyw : forall f, In f (r_fields mw) -> wf_ty E (f_ty f) = true.
  Hypothesis Hwfw : wf_rmeta E mw = true.
  Hypothesis Hrtw : wf_rmeta_rt mw = true.
  Hypothesis Hlenr : (length (r_fields mr) <= 127)%nat.
  Hypothesis Hverr : (length sr <= 127)%nat.
  Hypothesis Hv : wf_fields w (r_fields mw) vw = true.

  Lemma Hopt_r : forall fr, In fr (r_fields mr) -> f_opt fr = true -> exists t', f_ty fr = TOption t'.
  Proof. intros fr Hin Ho. apply option_ty; [apply (hi_optty _ Hir fr Hin) | exact Ho]. Qed.

  Lemma Hwv_w : forall n f x, lookup_value n (r_fields mw) vw = Some (f, x) ->
      w (f_ty f) x = true /\ wf_ty E (f_ty f) = true.
  Proof.
    intros n f x Hl. split; [eapply wf_fields_lookup; eassumption|].
    apply lookup_some in Hl as [Hin _]. apply Htyw. exact Hin.
  Qed.

  Lemma W0_pre : exists Y, map (fun p => f_name (fst p)) (w0 sw (r_fields mw) vw) = R0 sw sr (r_fields mr) ++ Y.
  Proof.
    destruct Hpre as [Y HY]. exists Y. rewrite w0_names by (eapply wf_fields_len; exact Hv). exact HY.
  Qed.

  Lemma W0_lk : forall p, In p (w0 sw (r_fields mw) vw) -> lookup_value (f_name (fst p)) (r_fields mw) vw = Some p.
  Proof. intros [f x] Hin. cbn [fst]. eapply w0_lookup; [apply (hi_nd _ Hiw) | exact Hin]. Qed.

  Lemma last_init c : (c <= length sr)%nat ->
    exists l, nth_error (repeat (-1)%Z (S (length sr))) c = Some l /\
              (l + Z.of_nat (length (r_fields mr)) <= 126)%Z.
  Proof. intros Hc. exists (-1)%Z. split; [apply nth_error_repeat; lia | lia]. Qed.

  Lemma c03_v0 st b st' s k :
    sw = [] -> enc_record encf mw vw st = Ok (b, st') ->
    match expected_fields mw mr vwn (r_fields mr) with
    | Ok vs => exists rest st'',
        dec_record a_ops decf mr (mkA (b ++ s) k st) = Ok (VNode 0 vs, mkA rest k st'') /\
        (C0 mw = R0 sw sr (r_fields mr) -> rest = s)
    | Err e => dec_record a_ops decf mr (mkA (b ++ s) k st) = Err e
    | _ => False
    end.
  Proof.
    intros Hs Henc. unfold enc_record in Henc. rewrite Hs in Henc.
    destruct (enc_fields_v0 encf (r_fields mw) vw st) as [[b1 st1]| | |] eqn:E1; try discriminate.
    cbn [bind] in Henc. apply ok_pair_inj in Henc as [<- <-].
    destruct (enc_v0_spec E encf decf w nv FN _ _ _ _ _ E1) as (-> & Henc1 & Hb1).
    rewrite <- w0_v0 in Hb1. rewrite <- Hs in Hb1.
    unfold dec_record. assert (255 <=? version_of sr = false) as -> by (unfold version_of; lia).
    unfold ad_open. cbn [app a_ops d_rd]. rewrite a_r_u8. cbn [bind N.eqb]. unfold ad_new_v0.
    assert (Hkw: nlen sw = 0) by (rewrite Hs; reflexivity).
    pose proof (read_loop E encf decf w nv FN mw mr vw st [] [] k) as RL.
    rewrite Hkw in RL.
    assert (Hrinv: rinv encf mw mr vw [] (r_fields mr) (w0 sw (r_fields mw) vw)
                     (repeat (-1)%Z (S (length sr))) [] (b1 ++ s) s).
    { constructor.
      - apply last_init.
      - exists (-1)%Z. split; [reflexivity|]. intros j p _. rewrite Hs. reflexivity.
      - rewrite Hb1. reflexivity.
      - reflexivity.
      - intros Hc. contradiction.
      - intros fr Hin Hw Hc. split; [apply nth_error_repeat; pose proof (chunk_of_le sr (f_name fr)) as Hle;
                                       rewrite nlen_length in Hle; lia|].
        intros Hle. lia. }
    specialize (RL ltac:(intros n; rewrite Hs; reflexivity) Henc1 Hwv_w
                   ltac:(intros n f x _ _ Hc; rewrite Hs in Hc; exfalso; apply Hc; reflexivity)
                   (r_fields mr) _ _ [] (b1 ++ s) s Hcl Hopt_r (hi_nd _ Hir) W0_pre W0_lk Hrinv).
    unfold loop_post in RL.
    destruct (expected_fields mw mr vwn (r_fields mr)) as [vs|e| |]; try contradiction.
    - destruct RL as (last' & I' & cur' & Hrd & Hg & HI & _). rewrite Hrd. cbn [bind].
      exists cur', st. split; [reflexivity|]. intros HC.
      rewrite (HI eq_refl) in Hg. unfold getc in Hg. injection Hg as ->.
      rewrite <- HC. unfold C0. rewrite <- (w0_names sw (r_fields mw) vw) by (eapply wf_fields_len; exact Hv).
      rewrite map_length, skipn_all. reflexivity.
    - rewrite RL. reflexivity.
  Qed.

  Lemma c03_chunked st b st' s k :
    sw <> [] -> enc_record encf mw vw st = Ok (b, st') ->
    match expected_fields mw mr vwn (r_fields mr) with
    | Ok vs => exists st'',
        dec_record a_ops decf mr (mkA (b ++ s) k st) = Ok (VNode 0 vs, mkA s k st'')
    | Err e => dec_record a_ops decf mr (mkA (b ++ s) k st) = Err e
    | _ => False
    end.
  Proof.
    intros Hne Henc. rewrite enc_record_nonempty in Henc by exact Hne. cbv zeta in Henc.
    pose proof Hwfw as Hwf. unfold wf_rmeta in Hwf.
    apply andb_true_iff in Hwf as [Hwf Hfs]. apply andb_true_iff in Hwf as [Hwf Hnd].
    apply andb_true_iff in Hwf as [Hver Hlen].
    pose proof Hrtw as Hrt. unfold wf_rmeta_rt in Hrt. apply andb_true_iff in Hrt as [Hv127 Hutf].
    assert (Hv1: 1 <= version_of sw).
    { unfold version_of. destruct sw; [contradiction | cbn [length]; lia]. }
    assert (255 <=? version_of sw = false) as Hv255 by lia. rewrite Hv255 in Henc.
    destruct (prerender_names sw sw st) as [[pre st1]| | |] eqn:Epre; try discriminate.
    cbn [bind] in Henc.
    destruct (enc_fields_chunked encf sw (r_fields mw) vw
                (mkSer (repeat [] (Datatypes.S (length sw))) [] []) st1)
      as [[ss st2]| | |] eqn:Ef; try discriminate.
    cbn [bind] in Henc.
    destruct (chunk_size_entry (ss_chunks ss) 0) as [e0| | |] eqn:Ee0; try discriminate.
    cbn [bind] in Henc.
    destruct (header_entries sw pre ss 1) as [hdr| | |] eqn:Ehdr; try discriminate.
    cbn [bind] in Henc. apply ok_pair_inj in Henc as [<- <-].
    (* the writer *)
    pose proof (winv_init sw (r_fields mw) ltac:(lia)) as Hw0.
    destruct (enc_fields_winv E encf sw _ _ _ _ _ _ Hw0 Hnd Hfs Ef) as [Hw _].
    destruct (enc_chunked_spec E encf decf w nv FN sw _ _ _ _ _ _ Ef) as (-> & S2 & S3 & _ & S5 & S6).
    cbn [ss_chunks ss_last ss_idx] in S2, S5.
    assert (Hfun: idxfun (ss_idx ss)).
    { eapply (enc_idx_fun encf sw); [apply (hi_nd _ Hiw) | | | exact Ef]; cbn [ss_idx].
      - intros n cp [].
      - intros n cp cp' []. }
    (* the chunks *)
    destruct (ss_chunks ss) as [|c0 ctl] eqn:EC.
    { pose proof (w_len _ _ _ Hw) as Hl. rewrite EC in Hl. discriminate. }
    unfold chunk_size_entry in Ee0. cbn [nth_error] in Ee0.
    destruct (nlen c0 <? 2 ^ 31) eqn:Ec0; [|discriminate]. apply ok_inj in Ee0 as <-.
    assert (Hidx: forall n c p, assoc_name n (ss_idx ss) = Some (c, p) ->
              in_removed sw n = false /\ (c = 0 -> p <= 126) /\ (c <> 0 -> p = 0 /\ c <= 127)).
    { intros n c p Ha. apply assoc_name_in in Ha.
      split; [eapply w_nrem; eassumption|]. split.
      - intros _. pose proof (w_le _ _ _ Hw _ _ _ Ha). pose proof (w_cnt _ _ _ Hw c).
        cbn [length] in *. lia.
      - intros Hc. split; [eapply w_pos0; eassumption|].
        rewrite (w_chunk _ _ _ Hw _ _ _ Ha). pose proof (chunk_of_le sw n) as Hle.
        unfold version_of in Hv127. rewrite nlen_length in Hle. lia. }
    assert (Hlctl: length ctl = length sw).
    { pose proof (w_len _ _ _ Hw) as Hl. rewrite EC in Hl. cbn [length] in Hl. lia. }
    pose proof (w_empty _ _ _ Hw) as Hemp. rewrite EC in Hemp. cbn [tl] in Hemp.
    destruct (header_parse sw ss Hidx sw pre st st1 hdr 1%nat ctl (concat (c0 :: ctl) ++ s) k
                Hutf ltac:(rewrite EC; reflexivity) Hlctl Hemp Epre Ehdr) as (P1 & P2 & P3).
    (* the reader *)
    unfold dec_record. assert (255 <=? version_of sr = false) as -> by (unfold version_of; lia).
    unfold ad_open. cbn [app a_ops d_rd]. rewrite a_r_u8. cbn [bind].
    assert (version_of sw =? 0 = false) as -> by lia.
    unfold ad_new.
    assert (N.to_nat (version_of sw) = length sw) as -> by (unfold version_of; lia).
    replace ((write_var_i32 (Z.of_N (nlen c0)) ++ hdr ++ concat (c0 :: ctl)) ++ s)
      with ((write_var_i32 (Z.of_N (nlen c0)) ++ hdr) ++ concat (c0 :: ctl) ++ s)
      by (repeat rewrite <- app_assoc; reflexivity).
    rewrite (dec_ssteps_cons _ _ _ _ _ _ _ _ _ _ (dec_size c0 _ k st ltac:(lia)) P1).
    cbn [bind].
    rewrite (take_chunks_ok _ (c0 :: ctl)
               (Forall2_cons _ _ (size_sstep_ok c0 ltac:(lia)) P2) 0 s k st1).
    cbn [bind].
    set (xs := size_sstep c0 :: steps_ssteps (ss_idx ss) sw ctl).
    assert (Hxs_mo: mo_of xs = mo_of (steps_ssteps (ss_idx ss) sw ctl)).
    { unfold xs, size_sstep. destruct (nlen c0 =? 0); reflexivity. }
    assert (Hxs_rem: rem_of xs = rem_of (steps_ssteps (ss_idx ss) sw ctl)).
    { unfold xs, size_sstep. destruct (nlen c0 =? 0); reflexivity. }
    assert (Hrem: forall n, mem_name n (rem_of xs) = in_removed sw n).
    { intros n. rewrite Hxs_rem. destruct (in_removed sw n) eqn:Er.
      - apply mem_name_iff. apply rem_of_complete; [exact Hlctl | exact Er].
      - destruct (mem_name n (rem_of (steps_ssteps (ss_idx ss) sw ctl))) eqn:Em; [|reflexivity].
        apply mem_name_iff in Em. eapply rem_of_steps in Em; [| exact P3 | auto]. congruence. }
    assert (Hmpi: forall n c p, In (n, (c, p)) (ss_idx ss) -> mem_pos (c, p) (mo_of xs) = has_opt sw n).
    { intros n c p Hin. rewrite Hxs_mo. destruct (has_opt sw n) eqn:Eh.
      - apply mem_pos_iff. apply has_opt_in in Eh.
        apply mo_of_complete with (n := n); [exact Hlctl | exact Eh|].
        apply assoc_name_fun; assumption.
      - destruct (mem_pos (c, p) (mo_of (steps_ssteps (ss_idx ss) sw ctl))) eqn:Em; [|reflexivity].
        apply mem_pos_iff in Em. apply mo_of_steps in Em as (n' & Hn' & Ha').
        apply assoc_name_in in Ha'. pose proof (w_inj _ _ _ Hw _ _ _ Ha' Hin) as ->.
        apply has_opt_in in Hn'. congruence. }
    assert (Hkw: version_of sw = nlen sw) by (unfold version_of; rewrite nlen_length; reflexivity).
    rewrite Hkw.
    assert (Hchunk: forall c, (c <= length sw)%nat ->
              nth_error (c0 :: ctl) c = Some (cbytes encf sw (N.of_nat c) (r_fields mw) vw)).
    { intros c Hc. rewrite S2, nth_error_repeat by lia. reflexivity. }
    assert (Hrinv: rinv encf mw mr vw (mo_of xs) (r_fields mr) (w0 sw (r_fields mw) vw)
                     (repeat (-1)%Z (S (length sr))) (c0 :: ctl) s []).
    { constructor.
      - apply last_init.
      - exists (-1)%Z. split; [reflexivity|]. intros j [f x] Hj. cbn [fst].
        apply S5 in Hj. unfold lastZ in Hj. cbn [assoc_N] in Hj. eapply Hmpi. exact Hj.
      - unfold getc. rewrite (Hchunk 0%nat ltac:(lia)). cbn [N.of_nat].
        rewrite cbytes_0, app_nil_r. reflexivity.
      - intros Hc. rewrite <- Hkw in Hc. lia.
      - intros _. cbn [length]. rewrite Hlctl, nlen_length. lia.
      - intros fr Hin Hwr Hc. split.
        + apply nth_error_repeat. pose proof (chunk_of_le sr (f_name fr)) as Hle.
          rewrite nlen_length in Hle. lia.
        + intros Hle fw x Hlk Hwf. rewrite Hchunk by (rewrite nlen_length in Hle; lia).
          rewrite N2Nat.id. f_equal.
          pose proof (Hcl fr Hin Hwr) as Hc'. unfold fclass in Hc'. cbv zeta in Hc'.
          destruct Hc' as [(Hr & _) | [(_ & c & d & Hg & Hlt & _) | (_ & fw' & x' & Hlk' & _ & Hch & _)]].
          * apply lookup_some in Hlk as [Hin' Hn']. rewrite <- Hn' in Hr.
            pose proof (hi_nrem _ Hiw fw Hin' Hwf). congruence.
          * unfold chunk_of in Hle. rewrite Hg in Hle. lia.
          * eapply cbytes_single; [exact Hc | apply (hi_nd _ Hiw) | exact Hlk | exact Hwf|].
            symmetry. exact Hch. }
    pose proof (read_loop E encf decf w nv FN mw mr vw st1 (mo_of xs) (rem_of xs) k Hrem S3 Hwv_w) as RL.
    assert (Hmoc: forall n f x, lookup_value n (r_fields mw) vw = Some (f, x) -> written f = true ->
              chunk_of sw n <> 0 -> mem_pos (chunk_of sw n, 0) (mo_of xs) = has_opt sw n).
    { intros n f x Hlk Hwf Hc. apply lookup_some in Hlk as [Hin Hn]. subst n.
      destruct (S6 f Hin Hwf) as [p Hp]. pose proof (w_pos0 _ _ _ Hw _ _ _ Hp Hc) as ->.
      eapply Hmpi. exact Hp. }
    specialize (RL Hmoc (r_fields mr) _ _ (c0 :: ctl) s [] Hcl Hopt_r (hi_nd _ Hir) W0_pre W0_lk Hrinv).
    unfold loop_post in RL.
    destruct (expected_fields mw mr vwn (r_fields mr)) as [vs|e| |]; try contradiction.
    - destruct RL as (last' & I' & cur' & Hrd & _ & _ & HI). rewrite Hrd. cbn [bind].
      exists st1. rewrite (HI ltac:(discriminate)). reflexivity.
    - rewrite RL. reflexivity.
  Qed.
End Assemble.

(* ================================================================== *)
(* 13. C03                                                             *)

Theorem c03 : c03_stmt.
Proof.
  intros E encf decf w nv FN H kw kr vw st b st' s k Hl Ht Hkw Hkr Hv Henc.
  pose proof (hinv_decl H kw Hl Hkw) as Hiw. pose proof (hinv_decl H kr Hl Hkr) as Hir.
  destruct (decl_wf E H kw Hl Ht Hkw) as [Hwfw Hrtw].
  destruct (legal_parts H Hl) as (_ & _ & L3 & L4 & _).
  destruct (decl_lens H kw Hkw) as [Dw1 Dw2]. destruct (decl_lens H kr Hkr) as [Dr1 Dr2].
  pose proof (decl_types E H kw Ht) as Htyw.
  assert (Hlenv: length (r_fields (decl_at H kw)) = length vw) by (eapply wf_fields_len; exact Hv).
  assert (Hcl: forall fr, In fr (r_fields (decl_at H kr)) -> written fr = true ->
                          fclass nv (decl_at H kw) (decl_at H kr) vw fr).
  { intros fr Hin Hw. destruct (Nat.le_gt_cases kw kr) as [Hle | Hgt].
    - apply fclass_A; auto. apply rel_decl; auto.
    - apply fclass_B; auto. apply rel_decl; auto. lia. }
  unfold expected.
  destruct kw as [|kw'].
  - (* version 0 wrote the data: no header *)
    pose proof (rel_decl H 0 kr Hl ltac:(lia) Hkr) as R.
    destruct (R0_prefix_A _ _ R Hir) as (Y & HY & HYr).
    pose proof (c03_v0 E encf decf w nv FN (decl_at H 0) (decl_at H kr) vw Hiw Hir Hcl
                  (ex_intro _ Y HY) Htyw ltac:(lia) ltac:(lia) Hv st b st' s k eq_refl Henc) as C.
    destruct (expected_fields (decl_at H 0) (decl_at H kr)
                (norm_written nv (r_fields (decl_at H 0)) vw) (r_fields (decl_at H kr)))
      as [vs|e| |]; try contradiction; [|exact C].
    destruct C as (rest & st'' & Hd & Hrest). exists rest, st''. split; [exact Hd|].
    intros Hfr. apply Hrest. destruct Y as [|y Y']; [rewrite app_nil_r in HY; exact HY|]. exfalso.
    assert (Hy: In y (C0 (decl_at H 0))) by (rewrite HY; apply in_or_app; right; left; reflexivity).
    unfold C0 in Hy. apply in_map_iff in Hy as (fw & Hn & Hin). apply filter_In in Hin as [Hin Hc].
    unfold c0p in Hc. apply andb_true_iff in Hc as [Hwf _].
    unfold framed in Hfr. cbn [Nat.leb orb] in Hfr. rewrite forallb_forall in Hfr.
    specialize (Hfr fw Hin). rewrite Hwf in Hfr. cbn [negb orb] in Hfr.
    destruct (find_field (f_name fw) (r_fields (decl_at H kr))) as [fr|] eqn:Ef; [|discriminate].
    apply find_field_some in Ef as [Hinr Hnr].
    pose proof (hi_nrem _ Hir fr Hinr Hfr) as Hnrem. rewrite Hnr, Hn in Hnrem.
    rewrite (HYr y (or_introl eq_refl)) in Hnrem. discriminate.
  - (* a later version wrote the data: header and chunks *)
    assert (Hne: r_steps (decl_at H (S kw')) <> []).
    { intros Heq. rewrite Heq in Dw1. discriminate. }
    assert (Hpre: exists Y, C0 (decl_at H (S kw')) =
              R0 (r_steps (decl_at H (S kw'))) (r_steps (decl_at H kr)) (r_fields (decl_at H kr)) ++ Y).
    { destruct (Nat.le_gt_cases (S kw') kr) as [Hle | Hgt].
      - destruct (R0_prefix_A _ _ (rel_decl H _ _ Hl Hle Hkr) Hir) as (Y & HY & _). exists Y. exact HY.
      - exists []. rewrite app_nil_r. apply R0_prefix_B; [|exact Hiw]. apply rel_decl; auto. lia. }
    pose proof (c03_chunked E encf decf w nv FN (decl_at H (S kw')) (decl_at H kr) vw Hiw Hir Hcl
                  Hpre Htyw Hwfw Hrtw ltac:(lia) ltac:(lia) Hv st b st' s k Hne Henc) as C.
    destruct (expected_fields (decl_at H (S kw')) (decl_at H kr)
                (norm_written nv (r_fields (decl_at H (S kw'))) vw) (r_fields (decl_at H kr)))
      as [vs|e| |]; try contradiction; [|exact C].
    destruct C as (st'' & Hd). exists s, st''. split; [exact Hd | reflexivity].
Qed.

Print Assumptions c03.
