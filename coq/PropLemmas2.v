(* PropLemmas2.v — type-level forms of the sequence theorems (C12). *)
From Coq Require Import NArith ZArith List Lia Bool.
From Coq Require Import ZifyBool ZifyN ZifyNat.
From Desert Require Import Bits Outcome IO IOProofs VarintProofs Types Codec CodecB CodecWf CodecLemmas
  TotalProofs MonoProofs CodecRt RecordRt RecordChunkedSpec RecordChunked CodecRt2 PropLemmas MiscProofs.
Import ListNotations.
Open Scope N_scope.

Lemma rt_pair_elem f E e :
  wf_env E = true -> wf_env_rt E = true -> wf_ty E e = true ->
  rt_pair (enc f E e) (dec a_ops f E e) (wf_val f E e) (normv f E e).
Proof.
  intros HE HR He v st b st' s k Hv Henc. apply roundtrip; assumption.
Qed.

(* the element decoder may run with more fuel *)
Lemma rt_pair_more_fuel f g E e :
  (f <= g)%nat ->
  rt_pair (enc f E e) (dec a_ops f E e) (wf_val f E e) (normv f E e) ->
  rt_pair (enc f E e) (dec a_ops g E e) (wf_val f E e) (normv f E e).
Proof.
  intros Hfg RT v st b st' s k Hv Henc.
  apply (dec_mono_ok a_ops f g); [exact Hfg|]. apply RT; assumption.
Qed.

Lemma dec_S_seq {S Rg} (D : dops S Rg) f E k e s :
  dec D (Datatypes.S f) E (TSeq k e) s =
    if byte_path k e then
      '(v, s) <- dec_bytes D s ;;
      match k, v with
      | KArray n, VB bs => if nlen bs =? n then Ok (v, s) else Err EInputEnded
      | _, _ => Ok (v, s)
      end
    else
      '(items, s) <- dec_seq_items D f (dec D f E e) s ;;
      v <- collect k items ;;
      Ok (v, s).
Proof. reflexivity. Qed.

Lemma enc_S_seq f E k e v st :
  enc (S f) E (TSeq k e) v st =
    if byte_path k e then match v with VB bs => enc_bytes bs st | _ => Err EIllTyped end
    else match v with VNode 0 vs => enc_seq f (enc f E e) vs st | _ => Err EIllTyped end.
Proof. reflexivity. Qed.

(* bytes written by ANY sequence-like container of element type e (known-length form), read as
   container kind k2: the elements in order, then collected into k2 *)
Theorem seq_cross_container : forall f E k1 k2 e vs st b st' s k,
  wf_env E = true -> wf_env_rt E = true -> wf_ty E e = true ->
  byte_path k1 e = false -> byte_path k2 e = false ->
  forallb (wf_val f E e) vs = true ->
  enc (S f) E (TSeq k1 e) (VNode 0 vs) st = Ok (b, st') ->
  dec a_ops (S f) E (TSeq k2 e) (mkA (b ++ s) k st) =
    (v <- collect k2 (map (normv f E e) vs) ;; Ok (v, mkA s k st')).
Proof.
  intros f E k1 k2 e vs st b st' s k HE HR He Hb1 Hb2 Hvs Henc.
  rewrite enc_S_seq, Hb1 in Henc. rewrite dec_S_seq, Hb2.
  rewrite (rt_seq _ _ _ _ (rt_pair_elem f E e HE HR He) f vs st b st' s k Hvs Henc).
  cbn [bind]. destruct (collect k2 (map (normv f E e) vs)); reflexivity.
Qed.

(* the unknown-length form of the same elements decodes identically, for every container kind *)
Theorem seq_unknown_form : forall f E k2 e vs st b st' s k,
  wf_env E = true -> wf_env_rt E = true -> wf_ty E e = true ->
  byte_path k2 e = false ->
  forallb (wf_val f E e) vs = true ->
  enc_seq_unknown f (enc f E e) vs st = Ok (b, st') ->
  dec a_ops (S (S f)) E (TSeq k2 e) (mkA (b ++ s) k st) =
    (v <- collect k2 (map (normv f E e) vs) ;; Ok (v, mkA s k st')).
Proof.
  intros f E k2 e vs st b st' s k HE HR He Hb2 Hvs Henc.
  rewrite dec_S_seq, Hb2.
  assert (RT: rt_pair (enc f E e) (dec a_ops (S f) E e) (wf_val f E e) (normv f E e))
    by (apply rt_pair_more_fuel; [lia | apply rt_pair_elem; assumption]).
  pose proof (C12_unknown_form _ _ _ _ RT f vs st b st' s k Hvs Henc) as H.
  (* the loop may also run with more fuel *)
  assert (H': dec_seq_items a_ops (S f) (dec a_ops (S f) E e) (mkA (b ++ s) k st)
              = Ok (map (normv f E e) vs, mkA s k st')) by exact H.
  rewrite H'. cbn [bind]. destruct (collect k2 (map (normv f E e) vs)); reflexivity.
Qed.

(* byte containers are interchangeable among themselves: Vec<u8>, [u8], [u8; N], Bytes *)
Theorem bytes_family_encode : forall f E k1 k2 bs st,
  byte_path k1 (TPrim PU8) = true -> byte_path k2 (TPrim PU8) = true ->
  enc (S f) E (TSeq k1 (TPrim PU8)) (VB bs) st = enc (S f) E (TSeq k2 (TPrim PU8)) (VB bs) st /\
  enc (S f) E (TSeq k1 (TPrim PU8)) (VB bs) st = enc (S f) E (TPrim PBytes) (VB bs) st.
Proof.
  intros f E k1 k2 bs st H1 H2. rewrite !enc_S_seq, H1, H2. split; reflexivity.
Qed.
