(* ChronoLemmas.v — facts about the chrono oracles of Calendar.v that the codec proofs need:
   every known zone name is valid UTF-8 and short; the ranges valid_ymd / valid_hmsn /
   valid_offset / valid_ts imply; inversion of the value shapes wf_ndate / wf_ntime / wf_ndt. *)
From Coq Require Import NArith ZArith List Lia Bool.
From Coq Require Import ZifyBool ZifyN ZifyNat.
From Desert Require Import Bits Outcome IO IOProofs Types TzNames Calendar Codec CodecWf.
Import ListNotations.
Open Scope N_scope.

(* ---------- zone names ---------- *)
Definition tz_name_ok (n : list N) : bool := utf8_valid n && (nlen n <? 64).

Lemma tz_names_ok : forallb tz_name_ok tz_names = true.
Proof. vm_compute. reflexivity. Qed.

Lemma name_in_forallb (P : list N -> bool) n l :
  forallb P l = true -> name_in n l = true -> P n = true.
Proof.
  induction l as [|a l IH]; cbn [forallb name_in]; intros H1 H2; [discriminate|].
  apply andb_true_iff in H1 as [Ha Hl].
  destruct (list_eq_dec N.eq_dec a n) as [->|]; [exact Ha|].
  cbn [orb] in H2. auto.
Qed.

Lemma tz_known_ok nm : tz_known nm = true -> utf8_valid nm = true /\ nlen nm < 64.
Proof.
  intros H. pose proof (name_in_forallb tz_name_ok nm tz_names tz_names_ok H) as Hok.
  unfold tz_name_ok in Hok. apply andb_true_iff in Hok as [H1 H2].
  split; [exact H1|]. apply N.ltb_lt. exact H2.
Qed.

Lemma tz_known_utf8 nm : tz_known nm = true -> utf8_valid nm = true.
Proof. intros H. apply tz_known_ok in H. tauto. Qed.

Lemma tz_known_enc_string nm st :
  tz_known nm = true -> enc_string nm st = Ok (write_var_i32 (Z.of_N (nlen nm)) ++ nm, st).
Proof.
  intros H. apply tz_known_ok in H as [_ H]. unfold enc_string.
  assert (nlen nm <? 2 ^ 31 = true) as ->; [|reflexivity].
  change (2 ^ 31) with 2147483648. lia.
Qed.

(* ---------- ranges ---------- *)
Lemma valid_ymd_year y m d : valid_ymd y m d = true -> (-262143 <= y <= 262142)%Z.
Proof.
  unfold valid_ymd, min_year, max_year. intros H.
  apply andb_true_iff in H as [H _]. lia.
Qed.

Lemma valid_ymd_i32 y m d :
  valid_ymd y m d = true -> to_signed 32 (to_unsigned 32 y) = y.
Proof.
  intros H. apply valid_ymd_year in H. apply to_signed_to_unsigned; [lia|].
  change (2 ^ (Z.of_N 32 - 1))%Z with 2147483648%Z. lia.
Qed.

Lemma valid_ymd_md y m d : valid_ymd y m d = true -> 1 <= m <= 12 /\ 1 <= d <= 31.
Proof.
  unfold valid_ymd. intros H. apply andb_true_iff in H as [_ H].
  assert (Hm : 1 <= m <= 12).
  { revert H. generalize (days_in_month y m). intros dm H. lia. }
  assert (Hd : days_in_month y m <= 31).
  { unfold days_in_month.
    assert (m = 1 \/ m = 2 \/ m = 3 \/ m = 4 \/ m = 5 \/ m = 6 \/ m = 7 \/ m = 8 \/ m = 9 \/
            m = 10 \/ m = 11 \/ m = 12) as E by lia.
    repeat (destruct E as [-> | E]); try subst m; try (destruct (is_leap y)); lia. }
  revert H Hd. generalize (days_in_month y m). intros dm H Hd. lia.
Qed.

Lemma valid_hmsn_range h m s n :
  valid_hmsn h m s n = true -> h < 24 /\ m < 60 /\ s < 60 /\ n < 2000000000.
Proof. unfold valid_hmsn. intros H. lia. Qed.

Lemma valid_hmsn_u32 h m s n : valid_hmsn h m s n = true -> n < 2 ^ 32.
Proof. intros H. apply valid_hmsn_range in H. change (2 ^ 32) with 4294967296. lia. Qed.

Lemma valid_offset_range z : valid_offset z = true -> (-86400 < z < 86400)%Z.
Proof. unfold valid_offset. lia. Qed.

Lemma valid_offset_i32 z : valid_offset z = true -> (- 2 ^ 31 <= z < 2 ^ 31)%Z.
Proof. intros H. apply valid_offset_range in H. change (2 ^ 31)%Z with 2147483648%Z. lia. Qed.

Lemma valid_ts_range secs nanos :
  valid_ts secs nanos = true -> (min_ts <= secs <= max_ts)%Z /\ nanos < 2000000000.
Proof.
  unfold valid_ts. intros H. apply andb_true_iff in H as [H1 H2].
  apply andb_true_iff in H2 as [H2 _]. lia.
Qed.

Lemma valid_ts_i64 secs nanos :
  valid_ts secs nanos = true ->
  (- 2 ^ (Z.of_N 64 - 1) <= secs < 2 ^ (Z.of_N 64 - 1))%Z /\ nanos < 256 ^ 4.
Proof.
  intros H. apply valid_ts_range in H. unfold min_ts, max_ts in H.
  change (2 ^ (Z.of_N 64 - 1))%Z with 9223372036854775808%Z.
  change (256 ^ 4) with 4294967296. lia.
Qed.

(* ---------- value shapes ---------- *)
Lemma wf_ndate_inv v :
  wf_ndate v = true -> exists y m d, v = VNode 0 [VZ y; VN m; VN d] /\ valid_ymd y m d = true.
Proof.
  unfold wf_ndate. intros H.
  destruct v as [| | |tag vs]; try discriminate H.
  destruct tag; try discriminate H.
  destruct vs as [|[|y| |] [|[m| | |] [|[d| | |] [|? ?]]]]; try discriminate H.
  eauto.
Qed.

Lemma wf_ntime_inv v :
  wf_ntime v = true ->
  exists h mi sec ns, v = VNode 0 [VN h; VN mi; VN sec; VN ns] /\ valid_hmsn h mi sec ns = true.
Proof.
  unfold wf_ntime. intros H.
  destruct v as [| | |tag vs]; try discriminate H.
  destruct tag; try discriminate H.
  destruct vs as [|[h| | |] [|[mi| | |] [|[sec| | |] [|[ns| | |] [|? ?]]]]]; try discriminate H.
  eauto 6.
Qed.

Lemma wf_ndt_inv v :
  wf_ndt v = true -> exists d t, v = VNode 0 [d; t] /\ wf_ndate d = true /\ wf_ntime t = true.
Proof.
  unfold wf_ndt. intros H.
  destruct v as [| | |tag vs]; try discriminate H.
  destruct tag; try discriminate H.
  destruct vs as [|d [|t [|? ?]]]; try discriminate H.
  apply andb_true_iff in H. eauto.
Qed.

(* the encoders of well-formed chrono values do not fail *)
Lemma wf_ndate_enc v : wf_ndate v = true -> exists b, enc_ndate v = Some b.
Proof. intros H. apply wf_ndate_inv in H as (y & m & d & -> & _). cbn [enc_ndate]. eauto. Qed.

Lemma wf_ntime_enc v : wf_ntime v = true -> exists b, enc_ntime v = Some b.
Proof. intros H. apply wf_ntime_inv in H as (h & mi & sec & ns & -> & _). cbn [enc_ntime]. eauto. Qed.

Lemma wf_ndt_enc v : wf_ndt v = true -> exists b, enc_ndt v = Some b.
Proof.
  intros H. apply wf_ndt_inv in H as (d & t & -> & Hd & Ht).
  apply wf_ndate_enc in Hd as [a Ea]. apply wf_ntime_enc in Ht as [b Eb].
  cbn [enc_ndt]. rewrite Ea, Eb. eauto.
Qed.
