(* PropLemmas.v — glue lemmas that combine the proof files into the statements of Props/. *)
From Coq Require Import NArith ZArith List Lia Bool.
From Coq Require Import ZifyBool ZifyN ZifyNat.
From Desert Require Import Bits Outcome IO IOProofs VarintProofs Types Codec CodecB CodecWf CodecLemmas
  TotalProofs SimProofs MonoProofs TruncProofs.
Import ListNotations.
Open Scope N_scope.

(* ---------- C05: the top-level decoder on the Rust cursor model never panics ---------- *)
Lemma decodeA_no_panic f E t bs st :
  wf_env E = true -> wf_ty E t = true -> is_panic (decodeA f E t bs st) = false.
Proof.
  intros HE Ht. unfold decodeA.
  pose proof (decA_no_panic f E t (mkA bs [] st) HE Ht) as H.
  destruct (dec a_ops f E t (mkA bs [] st)) as [[v s]| | |]; cbn in *; congruence.
Qed.

Lemma decodeB_no_panic f E t bs st :
  wf_env E = true -> wf_ty E t = true -> nlen bs < 2 ^ 64 ->
  is_panic (decodeB f E t bs st) = false.
Proof.
  intros HE Ht Hl.
  pose proof (decodeB_decodeA f E t bs st Hl) as H.
  pose proof (decodeA_no_panic f E t bs st HE Ht) as HA.
  destruct (decodeB f E t bs st) as [[[v n] st1]| | |]; try reflexivity.
  destruct (decodeA f E t bs st) as [[[v' r] st1']| | |]; cbn in *; try contradiction; congruence.
Qed.

(* ---------- C06: what layer B accepts is what the reference decoder assigns ---------- *)
Lemma decodeB_sound f E t bs st v n st1 :
  nlen bs < 2 ^ 64 -> decodeB f E t bs st = Ok (v, n, st1) ->
  exists rest, decodeA f E t bs st = Ok (v, rest, st1) /\ n = nlen rest.
Proof.
  intros Hl HB. pose proof (decodeB_decodeA f E t bs st Hl) as H. rewrite HB in H.
  destruct (decodeA f E t bs st) as [[[v' r] st1']| | |]; try contradiction.
  destruct H as (-> & -> & ->). exists r. split; reflexivity.
Qed.

Lemma decodeB_complete f E t bs st v rest st1 :
  nlen bs < 2 ^ 64 -> decodeA f E t bs st = Ok (v, rest, st1) ->
  decodeB f E t bs st = Ok (v, nlen rest, st1).
Proof.
  intros Hl HA. pose proof (decodeB_decodeA f E t bs st Hl) as H. rewrite HA in H.
  destruct (decodeB f E t bs st) as [[[v' n] st1']| | |]; try contradiction.
  destruct H as (-> & -> & ->). reflexivity.
Qed.

Lemma decodeB_err_iff f E t bs st e :
  nlen bs < 2 ^ 64 -> (decodeB f E t bs st = Err e <-> decodeA f E t bs st = Err e).
Proof.
  intros Hl. pose proof (decodeB_decodeA f E t bs st Hl) as H.
  destruct (decodeB f E t bs st) as [[[v n] st1]| | |], (decodeA f E t bs st) as [[[v' r] st1']| | |];
    try contradiction; split; intros X; try discriminate; congruence.
Qed.

(* what was consumed is a prefix of the input *)
Lemma decodeA_consumes f E t bs st v rest st1 :
  wf_env E = true -> wf_ty E t = true ->
  decodeA f E t bs st = Ok (v, rest, st1) -> exists c, bs = c ++ rest.
Proof.
  intros HE Ht H. unfold decodeA in H.
  destruct (dec a_ops f E t (mkA bs [] st)) as [[v' s']| | |] eqn:D; try discriminate.
  cbn in H. injection H as -> <- <-.
  destruct (decA_frame f E t _ _ _ HE Ht D) as [_ [c Hc]]. exists c. exact Hc.
Qed.

(* a fixed-size array is produced only from exactly that many elements *)
Lemma collect_array_exact n items v :
  collect (KArray n) items = Ok v -> v = VNode 0 items /\ nlen items = n.
Proof.
  unfold collect. destruct (nlen items =? n) eqn:E; [|discriminate].
  intros H. injection H as <-. split; [reflexivity | lia].
Qed.

(* ---------- C01 C02 C07 C08 C09: round trip, self-delimitation, truncation ---------- *)
From Desert Require Import CodecRt RecordRt RecordChunkedSpec RecordChunked CodecRt2.

Theorem roundtrip : forall f E t v st b st' s k,
  wf_env E = true -> wf_env_rt E = true -> wf_ty E t = true -> wf_val f E t v = true ->
  enc f E t v st = Ok (b, st') ->
  dec a_ops f E t (mkA (b ++ s) k st) = Ok (normv f E t v, mkA s k st').
Proof. exact (roundtrip_A rt_record_chunked). Qed.

(* the same at the top-level entry points, with any larger decoder fuel, on both layers *)
Lemma roundtrip_decodeA f f' E t v st b st' s :
  wf_env E = true -> wf_env_rt E = true -> wf_ty E t = true -> wf_val f E t v = true ->
  enc f E t v st = Ok (b, st') -> (f <= f')%nat ->
  decodeA f' E t (b ++ s) st = Ok (normv f E t v, s, st').
Proof.
  intros HE HR Ht Hv He Hf. unfold decodeA.
  rewrite (dec_mono_ok a_ops f f' E t _ _ _ Hf (roundtrip f E t v st b st' s [] HE HR Ht Hv He)).
  reflexivity.
Qed.

Lemma roundtrip_decodeB f f' E t v st b st' s :
  wf_env E = true -> wf_env_rt E = true -> wf_ty E t = true -> wf_val f E t v = true ->
  enc f E t v st = Ok (b, st') -> (f <= f')%nat -> nlen (b ++ s) < 2 ^ 64 ->
  decodeB f' E t (b ++ s) st = Ok (normv f E t v, nlen s, st').
Proof.
  intros HE HR Ht Hv He Hf Hl. apply decodeB_complete; [exact Hl|].
  eapply roundtrip_decodeA; eassumption.
Qed.

(* every strict prefix of an encoding is rejected with an error *)
Lemma truncated_encoding_rejected f E t v st b st' j k :
  wf_env E = true -> wf_env_rt E = true -> wf_ty E t = true -> wf_val f E t v = true ->
  enc f E t v st = Ok (b, st') -> j < nlen b ->
  is_err (dec a_ops f E t (mkA (ntake j b) k st)) = true.
Proof.
  intros HE HR Ht Hv He Hj.
  pose proof (roundtrip f E t v st b st' [] k HE HR Ht Hv He) as H.
  eapply decA_truncated; eassumption.
Qed.

Lemma truncated_encoding_rejected_B f E t v st b st' j :
  wf_env E = true -> wf_env_rt E = true -> wf_ty E t = true -> wf_val f E t v = true ->
  enc f E t v st = Ok (b, st') -> j < nlen b -> nlen b < 2 ^ 64 ->
  is_err (decodeB f E t (ntake j b) st) = true.
Proof.
  intros HE HR Ht Hv He Hj Hl.
  pose proof (truncated_encoding_rejected f E t v st b st' j [] HE HR Ht Hv He Hj) as H.
  destruct (dec a_ops f E t (mkA (ntake j b) [] st)) as [[? ?]|e| |] eqn:D; try discriminate.
  assert (HA: decodeA f E t (ntake j b) st = Err e) by (unfold decodeA; rewrite D; reflexivity).
  apply decodeB_err_iff in HA; [rewrite HA; reflexivity|].
  rewrite nlen_ntake by lia. lia.
Qed.

(* on types without declarations there is nothing to normalise *)
Lemma norm_fields_tuple_id nv ts : forall i vs,
  (forall t v, nv t v = v) -> norm_fields nv (tuple_fields ts i) vs = vs.
Proof.
  induction ts as [|t ts IH]; intros i vs H; cbn [tuple_fields norm_fields]; [destruct vs; reflexivity|].
  destruct vs as [|x vs]; [reflexivity|]. cbn [f_transient f_ty]. rewrite H, IH by exact H. reflexivity.
Qed.

Lemma map_id_ext {A} (f : A -> A) l : (forall x, f x = x) -> map f l = l.
Proof. intros H. induction l as [|x l IH]; cbn; [reflexivity|]. rewrite H, IH. reflexivity. Qed.

Lemma normv_nil_env : forall f t v, normv f [] t v = v.
Proof.
  induction f as [|f IH]; intros t v; [reflexivity|].
  destruct t as [p|t'|r e|ts|k e|mk kt vt|wk t'| |n]; cbn [normv].
  - destruct v; reflexivity.
  - destruct v as [| | |tag vs]; try reflexivity.
    destruct tag as [|[| |]]; try reflexivity. destruct vs as [|x [|? ?]]; try reflexivity.
    rewrite IH. reflexivity.
  - destruct v as [| | |tag vs]; try reflexivity.
    destruct tag as [|[| |]]; try reflexivity; destruct vs as [|x [|? ?]]; try reflexivity;
      rewrite IH; reflexivity.
  - destruct v as [| | |tag vs]; try reflexivity. destruct tag; try reflexivity.
    cbn [tuple_meta r_fields]. rewrite norm_fields_tuple_id by (intros; apply IH). reflexivity.
  - destruct v as [| | |tag vs]; try reflexivity. destruct tag; try reflexivity.
    destruct (byte_path k e); [reflexivity|]. rewrite map_id_ext by (intros; apply IH). reflexivity.
  - destruct v as [| | |tag vs]; try reflexivity. destruct tag; try reflexivity.
    rewrite map_id_ext by (intros; apply IH). reflexivity.
  - apply IH.
  - destruct v; reflexivity.
  - destruct v as [| | |tag vs]; try reflexivity. unfold lookup_decl.
    destruct (N.to_nat n); reflexivity.
Qed.

Theorem roundtrip_builtin : forall f t v st b st' s k,
  wf_ty [] t = true -> wf_val f [] t v = true ->
  enc f [] t v st = Ok (b, st') ->
  dec a_ops f [] t (mkA (b ++ s) k st) = Ok (v, mkA s k st').
Proof.
  intros f t v st b st' s k Ht Hv He.
  rewrite <- (normv_nil_env f t v) at 1.
  apply roundtrip; try assumption; reflexivity.
Qed.

(* ---------- C09: string de-duplication ---------- *)
Lemma dedup_first_is_plain s st :
  str_id s st = None -> nlen st + 1 < 2 ^ 31 -> enc_dedup s st = enc_string s (st ++ [s]).
Proof. intros H Hl. unfold enc_dedup. rewrite H. assert (nlen st + 1 <? 2 ^ 31 = true) as -> by lia. reflexivity. Qed.

Lemma enc_string_bytes_table_indep s st1 st2 :
  omap fst (enc_string s st1) = omap fst (enc_string s st2).
Proof. unfold enc_string. destruct (nlen s <? 2 ^ 31); reflexivity. Qed.

Lemma var_len_le_5 v : var_len v <= 5.
Proof. unfold var_len. repeat (destruct (_ <? _)); lia. Qed.

Lemma dedup_repeat s st id :
  str_id s st = Some id -> id < 2 ^ 31 ->
  enc_dedup s st = Ok (write_var_i32 (- Z.of_N id), st) /\ nlen (write_var_i32 (- Z.of_N id)) <= 5.
Proof.
  intros H Hl. unfold enc_dedup. rewrite H. assert (id <? 2 ^ 31 = true) as -> by lia.
  split; [reflexivity|]. unfold write_var_i32. rewrite write_var_u32_length. apply var_len_le_5.
Qed.

Lemma str_find_new s st : forall i, str_find s st i = None -> str_find s (st ++ [s]) i = Some (i + nlen st).
Proof.
  induction st as [|x st IH]; intros i H; cbn [str_find app nlen] in *.
  - rewrite bytes_eqb_refl. f_equal. lia.
  - destruct (bytes_eqb x s); [discriminate|]. rewrite (IH (i + 1) H). f_equal. lia.
Qed.

Lemma dedup_new_id s st : str_id s st = None -> str_id s (st ++ [s]) = Some (nlen st + 1).
Proof. unfold str_id. intros H. rewrite (str_find_new s st 1 H). f_equal. lia. Qed.

Lemma dedup_unknown_id id s k st :
  nlen st < id -> id < 2 ^ 31 ->
  dec_dedup a_ops (mkA (write_var_i32 (- Z.of_N id) ++ s) k st) = Err (EInvalidStringId (Z.of_N id)).
Proof.
  intros H1 H2. unfold dec_dedup. change (d_rd a_ops) with a_reader.
  change (2 ^ 31) with 2147483648 in H2.
  rewrite (a_read_var_i32 k st _ (- Z.of_N id)%Z s)
    by (apply var_i32_roundtrip_list; change (2 ^ 31)%Z with 2147483648%Z; lia).
  cbn [bind].
  assert ((- Z.of_N id <? 0)%Z = true) as -> by lia.
  assert ((- Z.of_N id =? - 2 ^ 31)%Z = false) as -> by (change (2 ^ 31)%Z with 2147483648%Z; lia).
  cbn [a_ops d_str_get a_strs]. rewrite Z.opp_involutive. unfold str_get.
  assert ((Z.of_N id <=? 0)%Z = false) as -> by lia.
  assert ((Z.of_N (nlen st) <? Z.of_N id)%Z = true) as -> by lia. reflexivity.
Qed.
