(* PropLemmas.v — glue lemmas that combine the proof files into the statements of Props/. *)
From Coq Require Import NArith ZArith List Lia Bool.
From Coq Require Import ZifyBool ZifyN ZifyNat.
From Desert Require Import Bits Outcome IO IOProofs VarintProofs Types Codec CodecB CodecWf CodecLemmas
  TotalProofs SimProofs MonoProofs TruncProofs.
Import ListNotations.
Open Scope N_scope.

(* ---------- C05: the top-level decoder on the Rust cursor model never panics ---------- *)
Lemma decodeA_no_panic f E t bs st :
  wf_env E = true -> wf_ty E t = true -> is_panic (decodeA f E t bs st) = false.
Proof.
  intros HE Ht. unfold decodeA.
  pose proof (decA_no_panic f E t (mkA bs [] st) HE Ht) as H.
  destruct (dec a_ops f E t (mkA bs [] st)) as [[v s]| | |]; cbn in *; congruence.
Qed.

Lemma decodeB_no_panic f E t bs st :
  wf_env E = true -> wf_ty E t = true -> nlen bs < 2 ^ 64 ->
  is_panic (decodeB f E t bs st) = false.
Proof.
  intros HE Ht Hl.
  pose proof (decodeB_decodeA f E t bs st Hl) as H.
  pose proof (decodeA_no_panic f E t bs st HE Ht) as HA.
  destruct (decodeB f E t bs st) as [[[v n] st1]| | |]; try reflexivity.
  destruct (decodeA f E t bs st) as [[[v' r] st1']| | |]; cbn in *; try contradiction; congruence.
Qed.

(* ---------- C06: what layer B accepts is what the reference decoder assigns ---------- *)
Lemma decodeB_sound f E t bs st v n st1 :
  nlen bs < 2 ^ 64 -> decodeB f E t bs st = Ok (v, n, st1) ->
  exists rest, decodeA f E t bs st = Ok (v, rest, st1) /\ n = nlen rest.
Proof.
  intros Hl HB. pose proof (decodeB_decodeA f E t bs st Hl) as H. rewrite HB in H.
  destruct (decodeA f E t bs st) as [[[v' r] st1']| | |]; try contradiction.
  destruct H as (-> & -> & ->). exists r. split; reflexivity.
Qed.

Lemma decodeB_complete f E t bs st v rest st1 :
  nlen bs < 2 ^ 64 -> decodeA f E t bs st = Ok (v, rest, st1) ->
  decodeB f E t bs st = Ok (v, nlen rest, st1).
Proof.
  intros Hl HA. pose proof (decodeB_decodeA f E t bs st Hl) as H. rewrite HA in H.
  destruct (decodeB f E t bs st) as [[[v' n] st1']| | |]; try contradiction.
  destruct H as (-> & -> & ->). reflexivity.
Qed.

Lemma decodeB_err_iff f E t bs st e :
  nlen bs < 2 ^ 64 -> (decodeB f E t bs st = Err e <-> decodeA f E t bs st = Err e).
Proof.
  intros Hl. pose proof (decodeB_decodeA f E t bs st Hl) as H.
  destruct (decodeB f E t bs st) as [[[v n] st1]| | |], (decodeA f E t bs st) as [[[v' r] st1']| | |];
    try contradiction; split; intros X; try discriminate; congruence.
Qed.

(* what was consumed is a prefix of the input *)
Lemma decodeA_consumes f E t bs st v rest st1 :
  wf_env E = true -> wf_ty E t = true ->
  decodeA f E t bs st = Ok (v, rest, st1) -> exists c, bs = c ++ rest.
Proof.
  intros HE Ht H. unfold decodeA in H.
  destruct (dec a_ops f E t (mkA bs [] st)) as [[v' s']| | |] eqn:D; try discriminate.
  cbn in H. injection H as -> <- <-.
  destruct (decA_frame f E t _ _ _ HE Ht D) as [_ [c Hc]]. exists c. exact Hc.
Qed.

(* a fixed-size array is produced only from exactly that many elements *)
Lemma collect_array_exact n items v :
  collect (KArray n) items = Ok v -> v = VNode 0 items /\ nlen items = n.
Proof.
  unfold collect. destruct (nlen items =? n) eqn:E; [|discriminate].
  intros H. injection H as <-. split; [reflexivity | lia].
Qed.
