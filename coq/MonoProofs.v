(* MonoProofs.v — fuel monotonicity of the codecs: more fuel never changes a result that is
   not `Fuel`.  Proved generically in the operations record `D : dops S Rg` (no assumption
   on the primitives is needed: if a primitive returned `Fuel` the whole result would be
   `Fuel`, which the hypothesis excludes), and for the encoder.

   Method: `ole x y` ("y extends x") := x <> Fuel -> y = x, an order on outcomes for which
   `bind` is monotone; `extends d d'` is its pointwise lifting to decoders/encoders.  Every
   helper of Codec.v is monotone in its decoder argument(s) and in its loop fuel. *)
From Coq Require Import NArith ZArith List Lia Bool.
From Coq Require Import ZifyBool ZifyN ZifyNat.
From Desert Require Import Bits Outcome IO Types Codec CodecB.
Import ListNotations.
Open Scope N_scope.

(* ------------------------------------------------------------------ *)
(* the order                                                            *)

Definition ole {A} (x y : outcome A) : Prop := x <> Fuel -> y = x.

Definition extends {X Y} (d d' : X -> outcome Y) : Prop := forall s, ole (d s) (d' s).
Definition extends2 {X Y Z} (d d' : X -> Y -> outcome Z) : Prop := forall v s, ole (d v s) (d' v s).

Lemma ole_refl {A} (x : outcome A) : ole x x.
Proof. intros _. reflexivity. Qed.

Lemma ole_fuel {A} (y : outcome A) : ole Fuel y.
Proof. intros H. congruence. Qed.

Lemma ole_trans {A} (x y z : outcome A) : ole x y -> ole y z -> ole x z.
Proof. unfold ole. intros H1 H2 Hx. rewrite <- (H1 Hx). apply H2. rewrite (H1 Hx). exact Hx. Qed.

Lemma ole_bind {A B} (m m' : outcome A) (k k' : A -> outcome B) :
  ole m m' -> (forall a, ole (k a) (k' a)) -> ole (bind m k) (bind m' k').
Proof.
  intros Hm Hk. destruct m as [a | e | p | ].
  - rewrite (Hm ltac:(discriminate)). cbn [bind]. apply Hk.
  - rewrite (Hm ltac:(discriminate)). apply ole_refl.
  - rewrite (Hm ltac:(discriminate)). apply ole_refl.
  - apply ole_fuel.
Qed.

(* the bind lemma in the form of the method statement *)
Lemma bind_not_fuel {A B} (m : outcome A) (k : A -> outcome B) r :
  bind m k = r -> r <> Fuel -> m <> Fuel /\ forall a, m = Ok a -> k a = r.
Proof.
  intros H Hr. split.
  - intros ->. cbn in H. congruence.
  - intros a ->. exact H.
Qed.

Lemma extends_refl {X Y} (d : X -> outcome Y) : extends d d.
Proof. intros s. apply ole_refl. Qed.

Ltac mono_step :=
  match goal with
  | |- ole ?x ?x => apply ole_refl
  | |- ole Fuel _ => apply ole_fuel
  | H : extends ?d ?d' |- ole (?d _) (?d' _) => apply H
  | H : extends2 ?d ?d' |- ole (?d _ _) (?d' _ _) => apply H
  | H : forall t, extends (?d t) (?d' t) |- ole (?d _ _) (?d' _ _) => apply H
  | H : forall t, extends2 (?d t) (?d' t) |- ole (?d _ _ _) (?d' _ _ _) => apply H
  | |- ole (bind _ _) (bind _ _) => apply ole_bind; [| intros ?]
  | |- ole (match ?x with _ => _ end) _ =>
      first [ is_var x; destruct x | destruct x eqn:? ]
  end.
Ltac mono := cbv beta zeta; repeat (mono_step; cbv beta zeta).

(* ================================================================== *)
(*                               DECODER                               *)
(* ================================================================== *)

Section DecMono.
  Context {St Rg : Type} (D : dops St Rg).

  Lemma dec_known_mono : forall f f' (d d' : @decoder St) n s,
    (f <= f')%nat -> extends d d' ->
    ole (dec_known f d n s) (dec_known f' d' n s).
  Proof.
    induction f as [| f IH]; intros f' d d' n s Hle Hd.
    - destruct f'; cbn [dec_known]; mono.
    - destruct f' as [| f']; [lia |]. cbn [dec_known].
      destruct (n =? 0); [apply ole_refl |].
      mono. apply IH; [lia | exact Hd].
  Qed.

  Lemma dec_unknown_mono : forall f f' d d' s,
    (f <= f')%nat -> extends d d' ->
    ole (dec_unknown D f d s) (dec_unknown D f' d' s).
  Proof.
    induction f as [| f IH]; intros f' d d' s Hle Hd.
    - cbn [dec_unknown]. apply ole_fuel.
    - destruct f' as [| f']; [lia |]. cbn [dec_unknown].
      mono. apply IH; [lia | exact Hd].
  Qed.

  Lemma dec_seq_items_mono : forall f f' d d' s,
    (f <= f')%nat -> extends d d' ->
    ole (dec_seq_items D f d s) (dec_seq_items D f' d' s).
  Proof.
    intros f f' d d' s Hle Hd. unfold dec_seq_items.
    destruct (read_var_i32 (d_rd D) s) as [[n s1] | e | p | ]; try apply ole_refl.
    destruct (n =? -1)%Z.
    - apply dec_unknown_mono; assumption.
    - destruct (n <? 0)%Z; [apply ole_refl|]. apply dec_known_mono; assumption.
  Qed.

  Lemma in_chunk_mono {A} : forall ad chunk (b b' : St -> outcome (A * St)) s,
    extends b b' -> ole (in_chunk D ad chunk b s) (in_chunk D ad chunk b' s).
  Proof.
    intros ad chunk b b' s Hb. unfold in_chunk. mono.
  Qed.

  Lemma read_field_mono : forall steps d d' n dflt ad s,
    extends d d' ->
    ole (read_field D steps d n dflt ad s) (read_field D steps d' n dflt ad s).
  Proof.
    intros steps d d' n dflt ad s Hd. unfold read_field. mono.
    apply in_chunk_mono. intros s1. mono.
  Qed.

  Lemma read_optional_field_mono : forall steps d d' n dflt ad s,
    extends d d' ->
    ole (read_optional_field D steps d n dflt ad s)
        (read_optional_field D steps d' n dflt ad s).
  Proof.
    intros steps d d' n dflt ad s Hd. unfold read_optional_field. mono.
    apply in_chunk_mono. intros s1. mono.
  Qed.

  Lemma read_fields_mono : forall decf decf' steps fs ad s,
    (forall t, extends (decf t) (decf' t)) ->
    ole (read_fields D decf steps fs ad s) (read_fields D decf' steps fs ad s).
  Proof.
    intros decf decf' steps fs. induction fs as [| fl fs IH]; intros ad s Hd.
    - cbn [read_fields]. apply ole_refl.
    - cbn [read_fields]. apply ole_bind.
      + destruct (f_transient fl); [apply ole_refl |]. cbv zeta.
        destruct (f_opt fl).
        * destruct (f_ty fl); try apply ole_refl.
          apply read_optional_field_mono. apply Hd.
        * apply read_field_mono. apply Hd.
      + intros [[v ad1] s1]. apply ole_bind; [apply IH; exact Hd |].
        intros a. apply ole_refl.
  Qed.

  Lemma dec_record_mono : forall decf decf' m,
    (forall t, extends (decf t) (decf' t)) ->
    extends (dec_record D decf m) (dec_record D decf' m).
  Proof.
    intros decf decf' m Hd s. unfold dec_record.
    destruct (255 <=? version_of (r_steps m)); [apply ole_refl |].
    apply ole_bind; [apply ole_refl |]. intros [ad s1].
    apply ole_bind; [apply read_fields_mono; exact Hd |]. intros a. apply ole_refl.
  Qed.

  Lemma read_cases_mono : forall decf decf' tyname cs idx ad s,
    (forall t, extends (decf t) (decf' t)) ->
    ole (read_cases D decf tyname cs idx ad s) (read_cases D decf' tyname cs idx ad s).
  Proof.
    intros decf decf' tyname cs. induction cs as [| [di var] cs IH]; intros idx ad s Hd.
    - cbn [read_cases]. apply ole_refl.
    - cbn [read_cases]. apply ole_bind; [apply ole_refl |]. intros [[i ad1] s1].
      destruct (i =? idx).
      + destruct (v_transient var); [apply ole_refl |].
        apply ole_bind.
        * apply in_chunk_mono. apply dec_record_mono. exact Hd.
        * intros a. apply ole_refl.
      + apply IH. exact Hd.
  Qed.

  Lemma dec_enum_mono : forall decf decf' tyname m,
    (forall t, extends (decf t) (decf' t)) ->
    extends (dec_enum D decf tyname m) (dec_enum D decf' tyname m).
  Proof.
    intros decf decf' tyname m Hd s. unfold dec_enum.
    apply ole_bind; [apply ole_refl |]. intros [ad s1].
    apply read_cases_mono. exact Hd.
  Qed.

  Lemma dec_ole : forall f f' E t s,
    (f <= f')%nat -> ole (dec D f E t s) (dec D f' E t s).
  Proof.
    induction f as [| f IH]; intros f' E t s Hle.
    - cbn [dec]. apply ole_fuel.
    - destruct f' as [| f']; [lia |].
      assert (Hff : (f <= f')%nat) by lia.
      assert (Hext : forall t, extends (dec D f E t) (dec D f' E t)).
      { intros t0 s0. apply IH. exact Hff. }
      cbn [dec]. destruct t as [p | t' | tr te | ts | k e | mk kt vt | w t' | | n].
      + apply ole_refl.
      + apply ole_bind; [apply ole_refl |]. intros [tag s1].
        destruct (tag =? 0); [apply ole_refl |].
        destruct (tag =? 1); [| apply ole_refl].
        apply ole_bind; [apply Hext |]. intros a. apply ole_refl.
      + apply ole_bind; [apply ole_refl |]. intros [tag s1].
        destruct (tag =? 0).
        { apply ole_bind; [apply Hext |]. intros a. apply ole_refl. }
        destruct (tag =? 1); [| apply ole_refl].
        apply ole_bind; [apply Hext |]. intros a. apply ole_refl.
      + apply dec_record_mono. exact Hext.
      + destruct (byte_path k e); [apply ole_refl |].
        apply ole_bind; [| intros a; apply ole_refl].
        apply dec_seq_items_mono; [exact Hff | apply Hext].
      + apply ole_bind; [| intros a; apply ole_refl].
        apply dec_seq_items_mono; [exact Hff | apply Hext].
      + apply Hext.
      + apply ole_refl.
      + destruct (lookup_decl E n) as [d |]; [| apply ole_refl].
        destruct (d_body d) as [m | m].
        * apply dec_record_mono. exact Hext.
        * apply dec_enum_mono. exact Hext.
  Qed.
End DecMono.

Theorem dec_mono : forall {S Rg} (D : dops S Rg) f f' E t s r,
  (f <= f')%nat -> dec D f E t s = r -> r <> Fuel -> dec D f' E t s = r.
Proof.
  intros S Rg D f f' E t s r Hle H Hr. subst r. apply dec_ole; assumption.
Qed.

Corollary dec_mono_ok : forall {S Rg} (D : dops S Rg) f f' E t s v s',
  (f <= f')%nat -> dec D f E t s = Ok (v, s') -> dec D f' E t s = Ok (v, s').
Proof. intros. eapply dec_mono; eauto. discriminate. Qed.

Corollary dec_mono_err : forall {S Rg} (D : dops S Rg) f f' E t s e,
  (f <= f')%nat -> dec D f E t s = Err e -> dec D f' E t s = Err e.
Proof. intros. eapply dec_mono; eauto. discriminate. Qed.

Corollary dec_mono_panic : forall {S Rg} (D : dops S Rg) f f' E t s p,
  (f <= f')%nat -> dec D f E t s = Panic p -> dec D f' E t s = Panic p.
Proof. intros. eapply dec_mono; eauto. discriminate. Qed.

(* the two reference entry points *)
Corollary decodeA_mono : forall f f' E t bs st r,
  (f <= f')%nat -> decodeA f E t bs st = r -> r <> Fuel -> decodeA f' E t bs st = r.
Proof.
  intros f f' E t bs st r Hle H Hr. subst r. revert Hr. unfold decodeA.
  apply ole_bind; [apply dec_ole; exact Hle | intros a; apply ole_refl].
Qed.

Corollary decodeB_mono : forall f f' E t bs st r,
  (f <= f')%nat -> decodeB f E t bs st = r -> r <> Fuel -> decodeB f' E t bs st = r.
Proof.
  intros f f' E t bs st r Hle H Hr. subst r. revert Hr. unfold decodeB.
  apply ole_bind; [apply dec_ole; exact Hle | intros a; apply ole_refl].
Qed.

(* ================================================================== *)
(*                               ENCODER                               *)
(* ================================================================== *)

Lemma enc_items_mono : forall f f' (e e' : encoder) vs st,
  (f <= f')%nat -> extends2 e e' ->
  ole (enc_items f e vs st) (enc_items f' e' vs st).
Proof.
  induction f as [| f IH]; intros f' e e' vs st Hle He.
  - destruct vs; cbn [enc_items]; [destruct f'; apply ole_refl | apply ole_fuel].
  - destruct f' as [| f']; [lia |]. destruct vs as [| v vs]; cbn [enc_items]; [apply ole_refl |].
    apply ole_bind; [apply He |]. intros [b1 st1].
    apply ole_bind; [apply IH; [lia | exact He] |]. intros a. apply ole_refl.
Qed.

Lemma enc_seq_mono : forall f f' (e e' : encoder) vs st,
  (f <= f')%nat -> extends2 e e' ->
  ole (enc_seq f e vs st) (enc_seq f' e' vs st).
Proof.
  intros f f' e e' vs st Hle He. unfold enc_seq.
  destruct (nlen vs <? 2 ^ 31); [| apply ole_refl].
  apply ole_bind; [apply enc_items_mono; assumption |]. intros a. apply ole_refl.
Qed.

Lemma enc_fields_v0_mono : forall (encf encf' : ty -> encoder) fs vs st,
  (forall t, extends2 (encf t) (encf' t)) ->
  ole (enc_fields_v0 encf fs vs st) (enc_fields_v0 encf' fs vs st).
Proof.
  intros encf encf' fs. induction fs as [| fl fs IH]; intros vs st He.
  - destruct vs; cbn [enc_fields_v0]; apply ole_refl.
  - destruct vs as [| v vs]; cbn [enc_fields_v0]; [apply ole_refl |].
    destruct (f_transient fl); [apply IH; exact He |].
    apply ole_bind; [apply He |]. intros [b1 st1].
    apply ole_bind; [apply IH; exact He |]. intros a. apply ole_refl.
Qed.

Lemma enc_fields_chunked_mono : forall (encf encf' : ty -> encoder) steps fs vs ss st,
  (forall t, extends2 (encf t) (encf' t)) ->
  ole (enc_fields_chunked encf steps fs vs ss st) (enc_fields_chunked encf' steps fs vs ss st).
Proof.
  intros encf encf' steps fs. induction fs as [| fl fs IH]; intros vs ss st He.
  - destruct vs; cbn [enc_fields_chunked]; apply ole_refl.
  - destruct vs as [| v vs]; cbn [enc_fields_chunked]; [apply ole_refl |].
    destruct (f_transient fl); [apply IH; exact He |]. cbv zeta.
    apply ole_bind; [apply He |]. intros [b1 st1].
    destruct (app_nth _ _ b1); [| apply ole_refl].
    apply ole_bind; [apply ole_refl |]. intros ss1. apply IH. exact He.
Qed.

Lemma enc_record_mono : forall (encf encf' : ty -> encoder) m vs st,
  (forall t, extends2 (encf t) (encf' t)) ->
  ole (enc_record encf m vs st) (enc_record encf' m vs st).
Proof.
  intros encf encf' m vs st He. unfold enc_record. cbv zeta.
  destruct (r_steps m) as [| s0 steps].
  - apply ole_bind; [apply enc_fields_v0_mono; exact He |]. intros a. apply ole_refl.
  - destruct (255 <=? _); [apply ole_refl |].
    apply ole_bind; [apply ole_refl |]. intros [pre st1].
    apply ole_bind; [apply enc_fields_chunked_mono; exact He |]. intros a. apply ole_refl.
Qed.

Lemma enc_enum_mono : forall (encf encf' : ty -> encoder) tyname m v st,
  (forall t, extends2 (encf t) (encf' t)) ->
  ole (enc_enum encf tyname m v st) (enc_enum encf' tyname m v st).
Proof.
  intros encf encf' tyname m v st He. unfold enc_enum.
  destruct v; try apply ole_refl.
  destruct (case_index _ _ _) as [[idx var] |]; [| apply ole_refl].
  destruct (v_transient var); [apply ole_refl |].
  destruct (2 ^ 32 <=? idx); [apply ole_refl |].
  apply ole_bind; [apply enc_record_mono; exact He |]. intros a. apply ole_refl.
Qed.

Lemma enc_ole : forall f f' E t v st,
  (f <= f')%nat -> ole (enc f E t v st) (enc f' E t v st).
Proof.
  induction f as [| f IH]; intros f' E t v st Hle.
  - cbn [enc]. apply ole_fuel.
  - destruct f' as [| f']; [lia |].
    assert (Hff : (f <= f')%nat) by lia.
    assert (Hext : forall t, extends2 (enc f E t) (enc f' E t)).
    { intros t0 v0 st0. apply IH. exact Hff. }
    cbn [enc]. destruct t as [p | t' | tr te | ts | k e | mk kt vt | w t' | | n].
    + apply ole_refl.
    + mono.
    + mono.
    + destruct v; try apply ole_refl. mono. apply enc_record_mono. exact Hext.
    + destruct (byte_path k e); [apply ole_refl |].
      destruct v; try apply ole_refl. mono. apply enc_seq_mono; [exact Hff | apply Hext].
    + destruct v; try apply ole_refl. mono. apply enc_seq_mono; [exact Hff | apply Hext].
    + apply Hext.
    + apply ole_refl.
    + destruct (lookup_decl E n) as [d |]; [| apply ole_refl].
      destruct (d_body d) as [m | m].
      * destruct v; try apply ole_refl. mono. apply enc_record_mono. exact Hext.
      * apply enc_enum_mono. exact Hext.
Qed.

Theorem enc_mono : forall f f' E t v st r,
  (f <= f')%nat -> enc f E t v st = r -> r <> Fuel -> enc f' E t v st = r.
Proof.
  intros f f' E t v st r Hle H Hr. subst r. apply enc_ole; assumption.
Qed.

Corollary enc_mono_ok : forall f f' E t v st b st',
  (f <= f')%nat -> enc f E t v st = Ok (b, st') -> enc f' E t v st = Ok (b, st').
Proof. intros. eapply enc_mono; eauto. discriminate. Qed.

Corollary enc_mono_err : forall f f' E t v st e,
  (f <= f')%nat -> enc f E t v st = Err e -> enc f' E t v st = Err e.
Proof. intros. eapply enc_mono; eauto. discriminate. Qed.

Corollary enc_mono_panic : forall f f' E t v st p,
  (f <= f')%nat -> enc f E t v st = Panic p -> enc f' E t v st = Panic p.
Proof. intros. eapply enc_mono; eauto. discriminate. Qed.

Print Assumptions dec_mono.
Print Assumptions enc_mono.
