(* History.v — C03: evolution histories of a record, the declaration of each version, the
   legality predicate of the property, and layer V: what a reader of version r must obtain
   from data written by version w (definitions only; no bytes here). *)
From Coq Require Import NArith ZArith List Bool.
From Desert Require Import Outcome IO Types Codec CodecWf.
Import ListNotations.
Open Scope N_scope.

Inductive hstep :=
| HAdd (f : field) (d : val)      (* FieldAdded(name, default): a new field, appended *)
| HOpt (n : name)                 (* FieldMadeOptional(name): T becomes Option<T> *)
| HRem (n : name)                 (* FieldRemoved(name): the field leaves the struct *)
| HTra (n : name) (d : val).      (* FieldMadeTransient(name): stays, #[transient(d)] *)

Record history := mkH { h_init : list field; h_steps : list hstep }.

Definition set_optional (n : name) (f : field) : field :=
  if bytes_eqb (f_name f) n then mkField (f_name f) (TOption (f_ty f)) true (f_transient f) else f.
Definition set_transient (n : name) (d : val) (f : field) : field :=
  if bytes_eqb (f_name f) n then mkField (f_name f) (f_ty f) (f_opt f) (Some d) else f.
(* when a field becomes Option<T> the programmer rewrites its FieldAdded default as Some(default) *)
Definition wrap_default (n : name) (s : step) : step :=
  match s with
  | SAdded m d => if bytes_eqb m n then SAdded m (VSome d) else s
  | _ => s
  end.

Definition apply_hstep (m : rmeta) (h : hstep) : rmeta :=
  match h with
  | HAdd f d => mkR (r_fields m ++ [f]) (r_steps m ++ [SAdded (f_name f) d])
  | HOpt n => mkR (map (set_optional n) (r_fields m)) (map (wrap_default n) (r_steps m) ++ [SMadeOptional n])
  | HRem n => mkR (filter (fun f => negb (bytes_eqb (f_name f) n)) (r_fields m)) (r_steps m ++ [SRemoved n])
  | HTra n d => mkR (map (set_transient n d) (r_fields m)) (r_steps m ++ [SMadeTransient n])
  end.

Definition decl_at (H : history) (k : nat) : rmeta :=
  fold_left apply_hstep (firstn k (h_steps H)) (mkR (h_init H) []).

(* ---------- legality (the property's own predicate) ---------- *)
Definition written (f : field) : bool := match f_transient f with None => true | Some _ => false end.
Definition find_field (n : name) (fs : list field) : option field :=
  find (fun f => bytes_eqb (f_name f) n) fs.

(* the last written field of chunk 0, if any *)
Definition last_written_chunk0 (m : rmeta) : option name :=
  let c0 := filter (fun f => written f &&
                      match field_generation (r_steps m) (f_name f) with None => true | Some _ => false end)
                   (r_fields m) in
  match rev c0 with [] => None | f :: _ => Some (f_name f) end.

Definition removable (m : rmeta) (n : name) : bool :=
  match find_field n (r_fields m) with
  | None => false
  | Some f =>
      written f &&
      match field_generation (r_steps m) n with
      | Some _ => true                               (* a later generation: alone in its chunk *)
      | None => match last_written_chunk0 m with Some l => bytes_eqb l n | None => false end
      end
  end.

Definition name_used (m : rmeta) (n : name) : bool :=
  existsb (fun f => bytes_eqb (f_name f) n) (r_fields m) ||
  existsb (fun s => bytes_eqb (step_name s) n) (r_steps m).

Definition legal_step (m : rmeta) (h : hstep) : bool :=
  match h with
  | HAdd f d =>
      negb (name_used m (f_name f)) && written f && utf8_valid (f_name f) &&
      (if f_opt f then match f_ty f with TOption _ => true | _ => false end
       else match f_ty f with TOption _ => false | _ => true end)
  | HOpt n =>
      match find_field n (r_fields m) with
      | Some f => written f && negb (f_opt f) &&
                  match f_ty f with TOption _ => false | _ => true end
      | None => false
      end
  | HRem n | HTra n _ => removable m n
  end.

Fixpoint legal_from (m : rmeta) (hs : list hstep) : bool :=
  match hs with
  | [] => true
  | h :: r => legal_step m h && legal_from (apply_hstep m h) r
  end.

Definition legal (H : history) : bool :=
  names_nodup (map f_name (h_init H)) &&
  forallb (fun f => utf8_valid (f_name f) &&
                    (if f_opt f then match f_ty f with TOption _ => true | _ => false end
                     else match f_ty f with TOption _ => false | _ => true end)) (h_init H) &&
  (N.of_nat (length (h_steps H)) <=? 127) &&
  (nlen (h_init H) + N.of_nat (length (h_steps H)) <=? 127) &&
  legal_from (mkR (h_init H) []) (h_steps H).

(* ---------- layer V: the documented outcome for every (writer, reader) pair ---------- *)
(* `x` was written under field declaration fw and is read under fr (same name) *)
Definition convert_field (fw fr : field) (x : val) : outcome val :=
  match f_opt fw, f_opt fr with
  | false, true => Ok (VSome x)                           (* made optional after w: wrap *)
  | true, false =>                                        (* made optional after r: unwrap *)
      match x with
      | VNode 1 [y] => Ok y
      | _ => Err (ENonOptionalNone (f_name fr))
      end
  | _, _ => Ok x
  end.

Fixpoint lookup_value (n : name) (fs : list field) (vs : list val) : option (field * val) :=
  match fs, vs with
  | f :: fs', v :: vs' => if bytes_eqb (f_name f) n then Some (f, v) else lookup_value n fs' vs'
  | _, _ => None
  end.

(* one field of the reading version *)
Definition expected_field (mw mr : rmeta) (vw : list val) (fr : field) : outcome val :=
  match f_transient fr with
  | Some d => Ok d
  | None =>
      match lookup_value (f_name fr) (r_fields mw) vw with
      | Some (fw, x) =>
          if written fw then convert_field fw fr x
          else (* made transient between r and w: the header lists it as removed *)
            if f_opt fr then Ok VNone else Err (EFieldRemoved (f_name fr))
      | None =>
          if in_removed (r_steps mw) (f_name fr) then
            (* removed between r and w *)
            if f_opt fr then Ok VNone else Err (EFieldRemoved (f_name fr))
          else
            (* added after w: the FieldAdded default of the reading version *)
            match field_default (r_steps mr) (f_name fr) None with
            | Some d => Ok d
            | None => Err (EFieldMissing (f_name fr))
            end
      end
  end.

Fixpoint expected_fields (mw mr : rmeta) (vw : list val) (frs : list field) : outcome (list val) :=
  match frs with
  | [] => Ok []
  | fr :: r =>
      x <- expected_field mw mr vw fr ;;
      xs <- expected_fields mw mr vw r ;;
      Ok (x :: xs)
  end.

Definition expected (H : history) (w r : nat) (vw : list val) : outcome (list val) :=
  expected_fields (decl_at H w) (decl_at H r) vw (r_fields (decl_at H r)).

(* DESIGN section 9.1: version-0 data carries no framing, so a reader that lacks a field which
   version 0 wrote does not consume its bytes *)
Definition framed (H : history) (w r : nat) : bool :=
  (1 <=? w)%nat ||
  forallb (fun fw => negb (written fw) ||
                     match find_field (f_name fw) (r_fields (decl_at H r)) with
                     | Some fr => written fr
                     | None => false
                     end) (r_fields (decl_at H 0)).
