(* Calendar.v — what chrono accepts (definitions only): the proleptic Gregorian calendar in
   chrono's year range, times of day with chrono's leap-second convention, offsets, timestamps.
   src: chrono 0.4.38 NaiveDate::from_ymd_opt, NaiveTime::from_hms_nano_opt,
        NaiveTime::from_num_seconds_from_midnight_opt, DateTime::from_timestamp,
        FixedOffset::east_opt, TimeZone::from_local_datetime (checked_sub_offset).
   These are oracles instantiated by concrete definitions; their agreement with chrono is
   sampled at every boundary by the correspondence run (trusted base). *)
From Coq Require Import NArith ZArith List Bool.
From Desert Require Import TzNames.
Import ListNotations.
Open Scope Z_scope.

Definition min_year : Z := -262143.
Definition max_year : Z := 262142.

Definition is_leap (y : Z) : bool :=
  ((y mod 4 =? 0) && negb (y mod 100 =? 0)) || (y mod 400 =? 0).

Definition days_in_month (y : Z) (m : N) : N :=
  match m with
  | 1 | 3 | 5 | 7 | 8 | 10 | 12 => 31
  | 4 | 6 | 9 | 11 => 30
  | 2 => if is_leap y then 29 else 28
  | _ => 0
  end%N.

Definition valid_ymd (y : Z) (m d : N) : bool :=
  (min_year <=? y) && (y <=? max_year) &&
  ((1 <=? m) && (m <=? 12) && (1 <=? d) && (d <=? days_in_month y m))%N.

(* seconds 0..59; a leap second is second 59 with nanos in [10^9, 2*10^9) *)
Definition valid_hmsn (h m s n : N) : bool :=
  ((h <? 24) && (m <? 60) && (s <? 60) && (n <? 2000000000) && ((n <? 1000000000) || (s =? 59)))%N.

Definition valid_offset (secs : Z) : bool := (-86400 <? secs) && (secs <? 86400).

(* days since 1970-01-01 (H. Hinnant's days_from_civil) *)
Definition days_from_civil (y : Z) (m d : N) : Z :=
  let y' := if (m <=? 2)%N then y - 1 else y in
  let era := y' / 400 in
  let yoe := y' - era * 400 in
  let mp := (Z.of_N m + (if (2 <? m)%N then -3 else 9)) in
  let doy := (153 * mp + 2) / 5 + Z.of_N d - 1 in
  let doe := yoe * 365 + yoe / 4 - yoe / 100 + doy in
  era * 146097 + doe - 719468.

(* a naive date-time as whole seconds since the epoch *)
Definition ndt_secs (y : Z) (mo d h mi s : N) : Z :=
  days_from_civil y mo d * 86400 + Z.of_N h * 3600 + Z.of_N mi * 60 + Z.of_N s.

(* -262143-01-01T00:00:00 and +262142-12-31T23:59:59 *)
Definition min_ts : Z := -8334601228800.
Definition max_ts : Z := 8210266876799.

(* DateTime::<Utc>::from_timestamp(secs, nanos) is Some *)
Definition valid_ts (secs : Z) (nanos : N) : bool :=
  (min_ts <=? secs) && (secs <=? max_ts) &&
  ((nanos <? 2000000000)%N && ((nanos <? 1000000000)%N || (secs mod 60 =? 59))).

(* offset.from_local_datetime(&naive).single() is Some: the UTC instant stays in range *)
Definition valid_local_with_offset (local_secs offset : Z) : bool :=
  (min_ts <=? local_secs - offset) && (local_secs - offset <=? max_ts).

Fixpoint name_in (n : list N) (l : list (list N)) : bool :=
  match l with
  | [] => false
  | x :: r => (if list_eq_dec N.eq_dec x n then true else false) || name_in n r
  end.
(* Tz::from_str accepts exactly the names of chrono_tz::TZ_VARIANTS *)
Definition tz_known (n : list N) : bool := name_in n tz_names.
(* never let simpl / cbn unfold the 596 literal names (vm_compute still computes it) *)
Arguments tz_known : simpl never.
