(* Graph.v — C10: a canonical codec built on the library's two reference-tracking
   primitives, SerializationContext::store_ref_or_object and
   DeserializationContext::try_read_ref / State::store_ref (definitions only).
   src: serializer/mod.rs:47-58, deserializer/mod.rs:58-69, state.rs:35-59.
   The same codec is implemented in harness/src/graph.rs over Rc<Node>, identity = address. *)
From Coq Require Import NArith List Bool.
From Desert Require Import Outcome IO.
Import ListNotations.
Open Scope N_scope.

(* a heap of nodes: address = index; a node has a label and an ordered list of out-edges *)
Definition node := (N * list N)%type.
Definition graph := list node.

Definition get_node (g : graph) (a : N) : option node := nth_error g (N.to_nat a).

(* State::store_ref / ids_by_ref: addresses in first-encounter order, id = position + 1 *)
Definition reftab := list N.
Fixpoint ref_find (a : N) (tb : reftab) (i : N) : option N :=
  match tb with
  | [] => None
  | x :: r => if x =? a then Some i else ref_find a r (i + 1)
  end.
Definition ref_id (a : N) (tb : reftab) : option N := ref_find a tb 1.

(* --- writer --- *)
Fixpoint enc_edges (ee : N -> reftab -> outcome (bytes * reftab)) (es : list N) (tb : reftab)
  : outcome (bytes * reftab) :=
  match es with
  | [] => Ok ([], tb)
  | e :: r =>
      '(b1, tb) <- ee e tb ;;
      '(b2, tb) <- enc_edges ee r tb ;;
      Ok (b1 ++ b2, tb)
  end.

(* one offer of object `a`: store_ref_or_object writes the id of a known object, or 0 and then
   the codec writes the body: label, edge count, then one offer per edge *)
Fixpoint enc_edge (fuel : nat) (g : graph) (a : N) (tb : reftab) : outcome (bytes * reftab) :=
  match fuel with
  | O => Fuel
  | S fl =>
      match ref_id a tb with
      | Some id => Ok (write_var_u32 id, tb)
      | None =>
          match get_node g a with
          | None => Err EIllTyped                     (* dangling address: not a graph *)
          | Some (label, edges) =>
              '(b, tb) <- enc_edges (enc_edge fl g) edges (tb ++ [a]) ;;
              Ok (write_var_u32 0 ++ write_var_u32 label ++ write_var_u32 (nlen edges) ++ b, tb)
          end
      end
  end.

Definition encode_graph (fuel : nat) (g : graph) (root : N) : outcome (bytes * reftab) :=
  enc_edge fuel g root [].

(* --- reader --- *)
(* objects are created, registered (State::store_ref) and only then filled, so ids are
   creation order; the decoded heap is indexed by id - 1 *)
Fixpoint set_node (g : graph) (i : nat) (x : node) : graph :=
  match g, i with
  | [], _ => []
  | _ :: r, O => x :: r
  | y :: r, S i' => y :: set_node r i' x
  end.

Fixpoint dec_edges (de : bytes -> graph -> outcome (N * bytes * graph)) (k : nat) (n : N)
    (inp : bytes) (h : graph) : outcome (list N * bytes * graph) :=
  if n =? 0 then Ok ([], inp, h) else
  match k with
  | O => Fuel
  | S k' =>
      '(e, inp, h) <- de inp h ;;
      '(es, inp, h) <- dec_edges de k' (n - 1) inp h ;;
      Ok (e :: es, inp, h)
  end.

Fixpoint dec_edge (fuel : nat) (inp : bytes) (h : graph) : outcome (N * bytes * graph) :=
  match fuel with
  | O => Fuel
  | S fl =>
      '(r, inp) <- read_var_u32 list_reader inp ;;
      if r =? 0 then
        let idx := nlen h in
        let h := h ++ [(0, [])] in                       (* created and registered *)
        '(label, inp) <- read_var_u32 list_reader inp ;;
        '(cnt, inp) <- read_var_u32 list_reader inp ;;
        '(es, inp, h) <- dec_edges (dec_edge fl) fl cnt inp h ;;
        Ok (idx, inp, set_node h (N.to_nat idx) (label, es))
      else if r <=? nlen h then Ok (r - 1, inp, h)          (* try_read_ref: a known object *)
      else Err (EInvalidRefId r)
  end.

Definition decode_graph (fuel : nat) (inp : bytes) : outcome (N * bytes * graph) :=
  dec_edge fuel inp [].

(* --- specification vocabulary --- *)
Definition wf_graph (g : graph) : Prop :=
  nlen g < 2 ^ 32 /\
  Forall (fun nd : node => fst nd < 2 ^ 32 /\ nlen (snd nd) < 2 ^ 32 /\
                            Forall (fun e => e < nlen g) (snd nd)) g.

(* position of address a in the table (0-based) *)
Definition ref_pos (tb : reftab) (a : N) : N :=
  match ref_id a tb with Some id => id - 1 | None => 0 end.

(* the original heap restricted to the table's addresses and renumbered by table position *)
Definition renumber (g : graph) (tb : reftab) : graph :=
  map (fun a => match get_node g a with
                | Some (l, es) => (l, map (ref_pos tb) es)
                | None => (0, [])
                end) tb.

Inductive reachable (g : graph) (root : N) : N -> Prop :=
| reach_root : reachable g root root
| reach_step a l es e : reachable g root a -> get_node g a = Some (l, es) -> In e es ->
                        reachable g root e.
