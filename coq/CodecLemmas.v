(* CodecLemmas.v — basic facts used by all codec proofs: decidable equalities, the string
   table, the layer-A reader as a lifting of the list reader, primitive round trips. *)
From Coq Require Import NArith ZArith List Lia Bool.
From Coq Require Import ZifyBool ZifyN ZifyNat.
From Desert Require Import Bits Outcome IO IOProofs VarintProofs Types Codec CodecWf.
Import ListNotations.
Open Scope N_scope.

Ltac Zify.zify_post_hook ::= Z.div_mod_to_equations.

(* ---------- equalities ---------- *)
Lemma bytes_eqb_eq a b : bytes_eqb a b = true <-> a = b.
Proof.
  revert b. induction a as [|x a IH]; intros [|y b]; cbn; split; intros H; try discriminate; auto.
  - apply andb_true_iff in H as [H1 H2]. apply N.eqb_eq in H1. apply IH in H2. congruence.
  - injection H as -> ->. rewrite N.eqb_refl. cbn. apply IH. reflexivity.
Qed.

Lemma bytes_eqb_refl a : bytes_eqb a a = true.
Proof. apply bytes_eqb_eq. reflexivity. Qed.

Lemma bytes_eqb_neq a b : bytes_eqb a b = false <-> a <> b.
Proof.
  split; intros H.
  - intros ->. rewrite bytes_eqb_refl in H. discriminate.
  - destruct (bytes_eqb a b) eqn:E; [|reflexivity]. apply bytes_eqb_eq in E. contradiction.
Qed.

(* strong induction principle for the nested inductive val *)
Section ValInd.
  Variable P : val -> Prop.
  Hypothesis HN : forall n, P (VN n).
  Hypothesis HZ : forall z, P (VZ z).
  Hypothesis HB : forall b, P (VB b).
  Hypothesis HNode : forall t vs, Forall P vs -> P (VNode t vs).
  Fixpoint val_ind' (v : val) : P v :=
    match v with
    | VN n => HN n
    | VZ z => HZ z
    | VB b => HB b
    | VNode t vs =>
        HNode t vs ((fix go (l : list val) : Forall P l :=
                       match l with
                       | [] => Forall_nil P
                       | x :: r => Forall_cons x (val_ind' x) (go r)
                       end) vs)
    end.
End ValInd.

Lemma val_eqb_eq a b : val_eqb a b = true <-> a = b.
Proof.
  revert b. induction a as [n|z|bs|t vs IH] using val_ind'; intros [m|w|cs|u ws]; cbn;
    split; intros H; try discriminate.
  - apply N.eqb_eq in H. congruence.
  - injection H as ->. apply N.eqb_refl.
  - apply Z.eqb_eq in H. congruence.
  - injection H as ->. apply Z.eqb_refl.
  - apply bytes_eqb_eq in H. congruence.
  - injection H as ->. apply bytes_eqb_refl.
  - apply andb_true_iff in H as [H1 H2]. apply N.eqb_eq in H1. subst u. f_equal.
    revert ws H2. induction IH as [|x vs Hx _ IHvs]; intros [|y ws] H2; try discriminate; auto.
    apply andb_true_iff in H2 as [Ha Hb]. apply Hx in Ha. subst y. f_equal. apply IHvs. exact Hb.
  - injection H as -> ->. rewrite N.eqb_refl. cbn.
    induction IH as [|x vs Hx _ IHvs]; [reflexivity|].
    apply andb_true_iff. split; [apply Hx; reflexivity | exact IHvs].
Qed.

Lemma val_eqb_refl a : val_eqb a a = true.
Proof. apply val_eqb_eq. reflexivity. Qed.

Lemma val_eqb_neq a b : val_eqb a b = false <-> a <> b.
Proof.
  split; intros H.
  - intros ->. rewrite val_eqb_refl in H. discriminate.
  - destruct (val_eqb a b) eqn:E; [|reflexivity]. apply val_eqb_eq in E. contradiction.
Qed.

Lemma val_eqb_sym a b : val_eqb a b = val_eqb b a.
Proof.
  destruct (val_eqb a b) eqn:E.
  - apply val_eqb_eq in E. subst. symmetry. apply val_eqb_refl.
  - apply val_eqb_neq in E. symmetry. apply val_eqb_neq. congruence.
Qed.

(* ---------- string table ---------- *)
Lemma str_find_get s st i id :
  str_find s st i = Some id -> i <= id /\ nth_error st (N.to_nat (id - i)) = Some s.
Proof.
  revert i. induction st as [|x st IH]; intros i H; cbn in H; [discriminate|].
  destruct (bytes_eqb x s) eqn:E.
  - injection H as <-. apply bytes_eqb_eq in E. subst. rewrite N.sub_diag. split; [lia|reflexivity].
  - apply IH in H as [H1 H2]. split; [lia|].
    replace (N.to_nat (id - i)) with (Datatypes.S (N.to_nat (id - (i + 1)))) by lia. exact H2.
Qed.

Lemma str_find_bound s st i id : str_find s st i = Some id -> id < i + nlen st.
Proof.
  revert i. induction st as [|x st IH]; intros i H; cbn in H; [discriminate|].
  cbn [nlen]. destruct (bytes_eqb x s).
  - injection H as <-. lia.
  - apply IH in H. lia.
Qed.

Lemma str_get_of_id s st id :
  str_id s st = Some id -> str_get st (Z.of_N id) = Some s.
Proof.
  unfold str_id, str_get. intros H.
  pose proof (str_find_bound _ _ _ _ H) as Hb. apply str_find_get in H as [H1 H2].
  assert ((Z.of_N id <=? 0)%Z = false) as -> by lia.
  assert ((Z.of_N (nlen st) <? Z.of_N id)%Z = false) as -> by lia.
  replace (Z.to_nat (Z.of_N id - 1)) with (N.to_nat (id - 1)) by lia. exact H2.
Qed.

Lemma str_store_new s st : str_id s st = None -> str_store s st = st ++ [s].
Proof. unfold str_store. intros ->. reflexivity. Qed.

(* ---------- the layer-A reader lifts the list reader ---------- *)
Definition a_inv (k : list bytes) (st : strtab) (s : astate) : Prop :=
  a_stack s = k /\ a_strs s = st.

Lemma a_refines k st : refines a_reader (a_inv k st) a_cur.
Proof.
  split.
  - intros [c k' st'] [H1 H2]; cbn in *. subst. destruct c as [|b c]; cbn; [reflexivity|].
    unfold a_inv; cbn. auto.
  - intros n [c k' st'] [H1 H2]; cbn in *. subst.
    destruct (n <=? nlen c); cbn; [|reflexivity]. unfold a_inv; cbn. auto.
  - intros n [c k' st'] [H1 H2]; cbn in *. subst.
    destruct (n <=? nlen c); cbn; [|reflexivity]. unfold a_inv; cbn. auto.
Qed.

Lemma osim_a_ok {A} k st (m : outcome (A * astate)) (x : A) (l : bytes) :
  osim (a_inv k st) a_cur m (Ok (x, l)) -> m = Ok (x, mkA l k st).
Proof.
  destruct m as [[a [c k' st']]| | |]; cbn; intros H; try contradiction.
  destruct H as (-> & [H1 H2] & H3). cbn in *. subst. reflexivity.
Qed.

Lemma osim_a_err {A} k st (m : outcome (A * astate)) (e : err) :
  osim (a_inv k st) a_cur m (Err e) -> m = Err e.
Proof.
  destruct m as [[a s]| | |]; cbn; intros H; try contradiction. subst. reflexivity.
Qed.

Ltac a_lift_ok L :=
  match goal with
  | |- ?m = Ok (?x, mkA ?l ?k ?st) =>
      apply (osim_a_ok k st); eapply eq_ind; [apply L; [apply a_refines | cbn; split; reflexivity] |];
      cbn [a_cur]
  end.

Lemma a_read_be k st n c x l :
  read_be list_reader n c = Ok (x, l) -> read_be a_reader n (mkA c k st) = Ok (x, mkA l k st).
Proof.
  intros H. apply (osim_a_ok k st). rewrite <- H.
  apply (read_be_sim a_reader (a_inv k st) a_cur (a_refines k st) n (mkA c k st)). split; reflexivity.
Qed.

Lemma a_read_signed k st n bits c x l :
  read_signed list_reader n bits c = Ok (x, l) ->
  read_signed a_reader n bits (mkA c k st) = Ok (x, mkA l k st).
Proof.
  intros H. apply (osim_a_ok k st). rewrite <- H.
  apply (read_signed_sim a_reader (a_inv k st) a_cur (a_refines k st) n bits (mkA c k st)). split; reflexivity.
Qed.

Lemma a_read_i8 k st c x l :
  read_i8 list_reader c = Ok (x, l) -> read_i8 a_reader (mkA c k st) = Ok (x, mkA l k st).
Proof.
  intros H. apply (osim_a_ok k st). rewrite <- H.
  apply (read_i8_sim a_reader (a_inv k st) a_cur (a_refines k st) (mkA c k st)). split; reflexivity.
Qed.

Lemma a_read_var_u32 k st c x l :
  read_var_u32 list_reader c = Ok (x, l) -> read_var_u32 a_reader (mkA c k st) = Ok (x, mkA l k st).
Proof.
  intros H. apply (osim_a_ok k st). rewrite <- H.
  apply (read_var_u32_sim a_reader (a_inv k st) a_cur (a_refines k st) (mkA c k st)). split; reflexivity.
Qed.

Lemma a_read_var_i32 k st c x l :
  read_var_i32 list_reader c = Ok (x, l) -> read_var_i32 a_reader (mkA c k st) = Ok (x, mkA l k st).
Proof.
  intros H. apply (osim_a_ok k st). rewrite <- H.
  apply (read_var_i32_sim a_reader (a_inv k st) a_cur (a_refines k st) (mkA c k st)). split; reflexivity.
Qed.

Lemma a_r_u8 k st b c : r_u8 a_reader (mkA (b :: c) k st) = Ok (b, mkA c k st).
Proof. reflexivity. Qed.

Lemma a_r_bytes_app k st (bs s : bytes) :
  r_bytes a_reader (nlen bs) (mkA (bs ++ s) k st) = Ok (bs, mkA s k st).
Proof.
  cbn. rewrite nlen_app. assert (nlen bs <=? nlen bs + nlen s = true) as -> by lia.
  cbn. rewrite ntake_app_exact, ndrop_app_exact. reflexivity.
Qed.

(* ---------- fixed-width round trips on layer A ---------- *)
Lemma a_be_roundtrip k st w n s :
  n < 256 ^ N.of_nat w ->
  read_be a_reader (N.of_nat w) (mkA (be_bytes w n ++ s) k st) = Ok (n, mkA s k st).
Proof. intros H. apply a_read_be. apply read_be_roundtrip. exact H. Qed.

Lemma a_signed_roundtrip k st w bits z s :
  0 < bits -> 2 ^ bits = 256 ^ N.of_nat w ->
  (- 2 ^ (Z.of_N bits - 1) <= z < 2 ^ (Z.of_N bits - 1))%Z ->
  read_signed a_reader (N.of_nat w) bits (mkA (be_bytes w (to_unsigned bits z) ++ s) k st)
  = Ok (z, mkA s k st).
Proof.
  intros Hb Hw Hz. apply a_read_signed. unfold read_signed.
  rewrite read_be_roundtrip by (rewrite <- Hw; apply to_unsigned_lt).
  cbn [bind]. rewrite to_signed_to_unsigned by assumption. reflexivity.
Qed.

Lemma as_usize_of_N n : n < 2 ^ 64 -> as_usize (Z.of_N n) = n.
Proof.
  intros H. unfold as_usize. rewrite Z.mod_small.
  - apply N2Z.id.
  - change (2 ^ 64)%Z with (Z.of_N (2 ^ 64)). lia.
Qed.
