(* TermProofs.v — termination of the reference decoder (layer A): the `Fuel` outcome goes
   away with enough fuel, and "enough" is LINEAR in the number of unread bytes.  This is the
   "never hangs, terminates promptly" half of "decoding untrusted bytes is total" (the other
   half, "never panics", is TotalProofs.v).

   Auxiliary definitions (all computable):

     zero_width t       t decodes from zero bytes: TPrim PUnit, TPhantom, and TWrap of those
     nzw_ty t           no TSeq (vec, slice, list, set, array) whose ELEMENT type is
                        zero-width, anywhere in t.  (Maps are fine: their items are 2-tuples,
                        which carry a version byte.)
     env_field_tys E    the types of all fields of all declarations of E (records and the
                        records of the enum variants)
     nzw_env E          nzw_ty for every type of env_field_tys E
     tdepth t           syntactic height of t (TNamed is a leaf; a TMap counts 2 because its
                        items are decoded as TTuple [k; v])
     env_depth E        the largest tdepth of a type of env_field_tys E
     fuel_bound E t len = tdepth t + (len + 1) * S (env_depth E)
     big                = N.to_nat (2 ^ 31) (`big_eq`), never evaluated; an item count is the
                        `as_usize` of a non-negative i32 read by `read_var_i32` (negative
                        counts are rejected), hence below `big`

   Main results

     decA_advance                  (every fuel, no hypothesis) a successful decode leaves the
                                   region stack unchanged, never lengthens the current region
                                   and shortens it by at least one byte unless the type is
                                   zero-width
     decA_consumes_one             the same, in the form asked for
     decA_terminates_prompt        fuel_bound E t (unread bytes) is enough
     decA_terminates_prompt_ge     ... and so is any larger fuel
     decodeA_terminates_prompt     the entry point
     decA_terminates_bound         without the zero-width restriction, fuel_bound + 2^31
     decodeA_terminates_bound      the entry point
     decA_terminates               hence: exists f
     zero_width_needs_count_many_steps   sharpness: Vec<()> from 5 bytes needs > 1000 fuel

   How the proof goes.  One predicate on outcomes, `gP nf k P m s`:
       m = Ok (a, s')  ->  P a, stack of s' = stack of s, |cur s'| + k <= |cur s|
       m = Fuel        ->  nf = false
   With nf = false this is a pure frame/consumption statement that holds for every fuel; with
   nf = true it also says "does not run out of fuel".  Every lemma is proved once, for both
   values of nf.  The main lemma `dec_g` is by induction on the fuel:
     - every TNamed unfolding, TTuple, TOption, TResult, TSeq, TMap first reads a byte of the
       current region, and nested fields are read from what is left of the current region
       or from chunk regions carved out of it (invariant `ad_bnd`), so a field decoder only
       ever sees STRICTLY fewer bytes than its parent: that pays for the unfolding of
       recursive declarations ((len + 1) * S (env_depth E));
     - an item of a sequence whose element type is not zero-width consumes a byte, so the
       item loop stops after at most |cur| + 1 rounds whatever the decoded count says
       (`dec_known_g1`); the unknown-size loop reads a tag byte per round (`dec_unknown_g`);
     - if the element type is zero-width the loop runs `count` times, 0 <= count < 2^31
       (`dec_known_g0`, `read_var_i32_range`).

   The well-formedness hypotheses of the statements are NOT used (kept for uniformity). *)
From Coq Require Import NArith ZArith List Lia Bool Arith.
From Coq Require Import ZifyBool ZifyN ZifyNat.
From Desert Require Import Bits Outcome IO IOProofs VarintProofs Types Codec CodecWf TotalProofs
  MonoProofs.
Import ListNotations.
Open Scope N_scope.
Local Open Scope nat_scope.

Ltac Zify.zify_post_hook ::= Z.div_mod_to_equations.

(* ================================================================== *)
(*                           definitions                               *)
(* ================================================================== *)

(* types that decode from zero bytes *)
Fixpoint zero_width (t : ty) : bool :=
  match t with
  | TPrim PUnit | TPhantom => true
  | TWrap _ t' => zero_width t'
  | _ => false
  end.

(* no sequence, set or array whose elements are zero-width, anywhere in the type *)
Fixpoint nzw_ty (t : ty) : bool :=
  match t with
  | TPrim _ | TPhantom | TNamed _ => true
  | TOption t' | TWrap _ t' => nzw_ty t'
  | TResult r e => nzw_ty r && nzw_ty e
  | TTuple ts => forallb nzw_ty ts
  | TSeq _ e => negb (zero_width e) && nzw_ty e
  | TMap _ k v => nzw_ty k && nzw_ty v
  end.

(* the field types of a declaration / of all declarations *)
Definition decl_field_tys (d : tdecl) : list ty :=
  match d_body d with
  | DRecord m => map f_ty (r_fields m)
  | DEnum m => flat_map (fun v => map f_ty (r_fields (v_rec v))) (e_variants m)
  end.
Definition env_field_tys (E : env) : list ty := flat_map decl_field_tys E.

Definition nzw_env (E : env) : bool := forallb nzw_ty (env_field_tys E).

(* syntactic height; TNamed is a leaf *)
Fixpoint tdepth (t : ty) : nat :=
  match t with
  | TPrim _ | TPhantom | TNamed _ => 1
  | TOption t' | TWrap _ t' | TSeq _ t' => S (tdepth t')
  | TResult r e => S (Nat.max (tdepth r) (tdepth e))
  | TTuple ts => S (list_max (map tdepth ts))
  | TMap _ k v => S (S (Nat.max (tdepth k) (tdepth v)))
  end.

Definition env_depth (E : env) : nat := list_max (map tdepth (env_field_tys E)).

(* the explicit bound: linear in len for fixed E and t *)
Definition fuel_bound (E : env) (t : ty) (len : nat) : nat :=
  tdepth t + (len + 1) * S (env_depth E).

(* an upper bound of every item count: the count is the `as_usize` of the i32 read by
   `read_var_i32`, and the item loop of known length is only entered when that i32 is
   non-negative, so the count is below 2^31.  NEVER evaluated (it is a unary number) *)
Definition big : nat := N.to_nat (2 ^ 31).

Lemma big_eq : big = N.to_nat (2 ^ 31).
Proof. reflexivity. Qed.

Lemma as_usize_lt_big z : (0 <= z < 2 ^ 31)%Z -> N.to_nat (as_usize z) < big.
Proof. intros Hz. unfold as_usize, big. lia. Qed.

Global Opaque big.

(* the range of a var-int, for every source: read_var_u32 answers a u32, read_var_i32 an i32 *)
Lemma N_lor_lt a b n : (a < 2 ^ n -> b < 2 ^ n -> N.lor a b < 2 ^ n)%N.
Proof.
  intros Ha Hb. destruct (N.eq_dec (N.lor a b) 0) as [E | E]; [rewrite E; lia|].
  apply N.log2_lt_pow2; [lia|]. rewrite N.log2_lor.
  destruct (N.eq_dec a 0) as [-> | Ea]; destruct (N.eq_dec b 0) as [-> | Eb].
  - exfalso; apply E; reflexivity.
  - rewrite N.max_r by (cbn; lia). apply N.log2_lt_pow2; lia.
  - rewrite N.max_l by (cbn; lia). apply N.log2_lt_pow2; lia.
  - apply N.max_lub_lt; apply N.log2_lt_pow2; lia.
Qed.

Lemma read_var_u32_range {S} (R : reader S) s r s' :
  read_var_u32 R s = Ok (r, s') -> (r < 2 ^ 32)%N.
Proof.
  assert (H7 : forall b, (N.land b 127 < 2 ^ 32)%N).
  { intros b. rewrite N_land_127. change (2 ^ 32)%N with 4294967296%N. lia. }
  assert (Hs : forall b k, (k <= 21)%N -> (N.shiftl (N.land b 127) k < 2 ^ 32)%N).
  { intros b k Hk. rewrite N_land_127, N_shiftl_mul.
    assert (b mod 128 < 2 ^ 7)%N by (change (2 ^ 7)%N with 128%N; lia).
    assert (2 ^ k <= 2 ^ 21)%N by (apply N.pow_le_mono_r; lia).
    change (2 ^ 32)%N with (2 ^ 7 * (16 * 2 ^ 21))%N. nia. }
  unfold read_var_u32.
  destruct (r_u8 R s) as [[b1 s1] | | | ]; cbn [bind]; try discriminate.
  destruct (N.land b1 128 =? 0)%N.
  { intros [= <- _]. apply H7. }
  destruct (r_u8 R s1) as [[b2 s2] | | | ]; cbn [bind]; try discriminate.
  destruct (N.land b2 128 =? 0)%N.
  { intros [= <- _]. apply N_lor_lt; [apply H7 | apply Hs; lia]. }
  destruct (r_u8 R s2) as [[b3 s3] | | | ]; cbn [bind]; try discriminate.
  destruct (N.land b3 128 =? 0)%N.
  { intros [= <- _]. repeat apply N_lor_lt; try apply H7; apply Hs; lia. }
  destruct (r_u8 R s3) as [[b4 s4] | | | ]; cbn [bind]; try discriminate.
  destruct (N.land b4 128 =? 0)%N.
  { intros [= <- _]. repeat apply N_lor_lt; try apply H7; apply Hs; lia. }
  destruct (r_u8 R s4) as [[b5 s5] | | | ]; cbn [bind]; try discriminate.
  intros [= <- _]. repeat apply N_lor_lt; try apply H7; try (apply Hs; lia).
  apply N.mod_lt. discriminate.
Qed.

Lemma read_var_i32_range {S} (R : reader S) s z s' :
  read_var_i32 R s = Ok (z, s') -> (- 2 ^ 31 <= z < 2 ^ 31)%Z.
Proof.
  unfold read_var_i32.
  destruct (read_var_u32 R s) as [[r s1] | | | ] eqn:Hr; cbn [bind]; try discriminate.
  intros [= <- _]. apply zigzag_unzigzag. eapply read_var_u32_range; exact Hr.
Qed.

(* ------------------------------------------------------------------ *)
(* arithmetic of the bound *)

(* the part of fuel_bound that pays for the bytes: each byte buys S (env_depth E) levels *)
Definition G (E : env) (L : nat) : nat := (L + 1) * S (env_depth E).
Arguments G : simpl never.

Lemma fuel_bound_eq E t L : fuel_bound E t L = tdepth t + G E L.
Proof. reflexivity. Qed.

Lemma G_mono E a b : a <= b -> G E a <= G E b.
Proof. unfold G. nia. Qed.

Lemma G_step E a b : a < b -> G E a + S (env_depth E) <= G E b.
Proof. unfold G. nia. Qed.

Lemma G_gt E L : L < G E L.
Proof. unfold G. nia. Qed.

Global Opaque G.

Lemma tdepth_pos t : 1 <= tdepth t.
Proof. destruct t; cbn [tdepth]; lia. Qed.

Lemma list_max_In l x : In x l -> x <= list_max l.
Proof.
  intros H. pose proof (proj1 (list_max_le l (list_max l)) (le_n _)) as HF.
  rewrite Forall_forall in HF. apply HF. exact H.
Qed.

Lemma tdepth_tuple_In ts t : In t ts -> tdepth t < tdepth (TTuple ts).
Proof.
  intros H. cbn [tdepth]. apply Nat.lt_succ_r. apply list_max_In. apply in_map. exact H.
Qed.

Lemma tdepth_map_tuple k kt vt : S (tdepth (TTuple [kt; vt])) = tdepth (TMap k kt vt).
Proof. cbn [tdepth map]. unfold list_max. cbn [fold_right]. lia. Qed.

(* what the generated code hands to read_field / read_optional_field for a field *)
Definition field_dec_ty (fl : field) : ty :=
  if f_opt fl then match f_ty fl with TOption t' => t' | t => t end else f_ty fl.

Lemma field_dec_ty_depth fl : tdepth (field_dec_ty fl) <= tdepth (f_ty fl).
Proof.
  unfold field_dec_ty. destruct (f_opt fl); [| lia].
  destruct (f_ty fl); cbn [tdepth]; lia.
Qed.

Lemma field_dec_ty_nzw fl : nzw_ty (f_ty fl) = true -> nzw_ty (field_dec_ty fl) = true.
Proof.
  unfold field_dec_ty. destruct (f_opt fl); [| auto].
  destruct (f_ty fl); cbn [nzw_ty]; auto.
Qed.

Lemma record_field_in_env E d m fl :
  In d E -> d_body d = DRecord m -> In fl (r_fields m) -> In (f_ty fl) (env_field_tys E).
Proof.
  intros Hd Hb Hf. unfold env_field_tys. apply in_flat_map. exists d. split; [exact Hd|].
  unfold decl_field_tys. rewrite Hb. apply in_map. exact Hf.
Qed.

Lemma enum_field_in_env E d m v fl :
  In d E -> d_body d = DEnum m -> In v (e_variants m) -> In fl (r_fields (v_rec v)) ->
  In (f_ty fl) (env_field_tys E).
Proof.
  intros Hd Hb Hv Hf. unfold env_field_tys. apply in_flat_map. exists d. split; [exact Hd|].
  unfold decl_field_tys. rewrite Hb. apply in_flat_map. exists v. split; [exact Hv|].
  apply in_map. exact Hf.
Qed.

Lemma env_depth_In E t : In t (env_field_tys E) -> tdepth t <= env_depth E.
Proof. intros H. unfold env_depth. apply list_max_In. apply in_map. exact H. Qed.

Lemma tuple_fields_In ts : forall i fl,
  In fl (tuple_fields ts i) -> f_opt fl = false /\ In (f_ty fl) ts.
Proof.
  induction ts as [| t r IH]; intros i fl H; cbn [tuple_fields] in H; [destruct H|].
  destruct H as [H | H].
  - subst fl. cbn [f_opt f_ty]. split; [reflexivity | left; reflexivity].
  - apply IH in H. destruct H as [H1 H2]. split; [exact H1 | right; exact H2].
Qed.

(* "b holds, or the fuel has 2^31 to spare": the two modes of the main lemma *)
Definition okz (K : nat) (b : bool) : Prop := b = true \/ big <= K.

Lemma okz_andb K a b : okz K (a && b) -> okz K a /\ okz K b.
Proof.
  intros [H | H]; [| split; right; exact H].
  apply andb_true_iff in H. destruct H. split; left; assumption.
Qed.

Lemma okz_forallb {A} K (p : A -> bool) l x : okz K (forallb p l) -> In x l -> okz K (p x).
Proof.
  intros [H | H] Hin; [| right; exact H]. left. rewrite forallb_forall in H. apply H. exact Hin.
Qed.

Lemma okz_field K fl : okz K (nzw_ty (f_ty fl)) -> okz K (nzw_ty (field_dec_ty fl)).
Proof. intros [H | H]; [left; apply field_dec_ty_nzw; exact H | right; exact H]. Qed.

(* ================================================================== *)
(*                     the predicate on outcomes                       *)
(* ================================================================== *)

Definition len (s : astate) : nat := length (a_cur s).

Definition gP {A} (nf : bool) (k : nat) (P : A -> Prop) (m : outcome (A * astate)) (s : astate)
  : Prop :=
  match m with
  | Ok (a, s') => P a /\ a_stack s' = a_stack s /\ len s' + k <= len s
  | Fuel => nf = false
  | _ => True
  end.

Notation g nf k := (gP nf k (fun _ => True)).

Lemma gP_ok {A} nf (P : A -> Prop) a s : P a -> gP nf 0 P (Ok (a, s)) s.
Proof. intros H. unfold gP. split; [exact H | split; [reflexivity | lia]]. Qed.

Lemma g_ok {A} nf (a : A) s : g nf 0 (Ok (a, s)) s.
Proof. apply gP_ok. exact I. Qed.

Lemma gP_le {A} nf k k' (P Q : A -> Prop) m s :
  gP nf k P m s -> k' <= k -> (forall a, P a -> Q a) -> gP nf k' Q m s.
Proof.
  intros H Hk HPQ. destruct m as [[a s'] | e | p | ]; unfold gP in *; auto.
  destruct H as (Pa & Hst & Hl). split; [auto | split; [exact Hst | lia]].
Qed.

Lemma g_le {A} nf k k' (m : outcome (A * astate)) s : g nf k m s -> k' <= k -> g nf k' m s.
Proof. intros H Hk. eapply gP_le; [exact H | exact Hk | auto]. Qed.

Lemma gP_bind {A B} nf k1 k2 k (P : A -> Prop) (Q : B -> Prop)
    (m : outcome (A * astate)) (c : A * astate -> outcome (B * astate)) s :
  gP nf k1 P m s ->
  (forall a s', P a -> a_stack s' = a_stack s -> len s' + k1 <= len s ->
                gP nf k2 Q (c (a, s')) s') ->
  k <= k1 + k2 ->
  gP nf k Q (bind m c) s.
Proof.
  intros Hm Hc Hk. destruct m as [[a s'] | e | p | ]; unfold gP in Hm |- *; cbn [bind]; auto.
  destruct Hm as (Pa & Hst & Hl). specialize (Hc a s' Pa Hst Hl). unfold gP in Hc.
  destruct (c (a, s')) as [[b s''] | e | p | ]; auto.
  destruct Hc as (Qb & Hst' & Hl'). split; [exact Qb | split; [congruence | lia]].
Qed.

(* a computation started from a later state *)
Lemma gP_from {A} nf k1 k2 k (P : A -> Prop) m s s' :
  a_stack s' = a_stack s -> len s' + k1 <= len s -> gP nf k2 P m s' -> k <= k1 + k2 ->
  gP nf k P m s.
Proof.
  intros Hst Hl H Hk. destruct m as [[a s''] | e | p | ]; unfold gP in *; auto.
  destruct H as (Pa & Hst' & Hl'). split; [exact Pa | split; [congruence | lia]].
Qed.

Lemma gP_nofuel {A} k (P : A -> Prop) m s : gP true k P m s -> m <> Fuel.
Proof. intros H He. subst m. discriminate H. Qed.

(* ================================================================== *)
(*  READERS: never Fuel, stack unchanged, bytes consumed               *)
(*  (the ONE place where the readers are looked into; a lemma          *)
(*   `k <= (least number of bytes read) -> g nf k (reader s) s` each,  *)
(*   registered in the tactic rd_lemma below)                          *)
(* ================================================================== *)

Lemma r_u8_g nf k s : k <= 1 -> g nf k (r_u8 a_reader s) s.
Proof.
  intros Hk. aops. destruct s as [cur st strs]. cbn [a_cur].
  destruct cur as [| b r]; cbn [bind]; [exact I|].
  unfold gP, a_with_cur, len. cbn [a_cur a_stack length]. split; [exact I | split; [reflexivity | lia]].
Qed.

Lemma r_bytes_g nf k n s : k <= N.to_nat n -> g nf k (r_bytes a_reader n s) s.
Proof.
  intros Hk. aops. destruct s as [cur st strs]. cbn [a_cur].
  destruct (n <=? nlen cur)%N eqn:Hn; cbn [bind]; [| exact I].
  unfold gP, a_with_cur, len. cbn [a_cur a_stack]. split; [exact I | split; [reflexivity |]].
  unfold ndrop. rewrite skipn_length. rewrite nlen_length in Hn. lia.
Qed.

Lemma d_take_g nf n s : gP nf 0 (fun rg => length rg <= len s) (d_take a_ops n s) s.
Proof.
  aops. destruct s as [cur st strs]. cbn [a_cur].
  destruct (n <=? nlen cur)%N eqn:Hn; [| exact I].
  unfold gP, a_with_cur, len. cbn [a_cur a_stack]. split; [| split; [reflexivity |]].
  - unfold ntake. rewrite firstn_length. lia.
  - unfold ndrop. rewrite skipn_length. lia.
Qed.

Lemma read_be_g nf k n s : k <= N.to_nat n -> g nf k (read_be a_reader n s) s.
Proof.
  intros Hk. unfold read_be.
  eapply (gP_bind _ k 0); [apply r_bytes_g; exact Hk | intros; cbv beta iota; apply g_ok | lia].
Qed.

Lemma read_i8_g nf k s : k <= 1 -> g nf k (read_i8 a_reader s) s.
Proof.
  intros Hk. unfold read_i8.
  eapply (gP_bind _ k 0); [apply r_u8_g; exact Hk | intros; cbv beta iota; apply g_ok | lia].
Qed.

Lemma read_signed_g nf k n bits s : k <= N.to_nat n -> g nf k (read_signed a_reader n bits s) s.
Proof.
  intros Hk. unfold read_signed.
  eapply (gP_bind _ k 0); [apply read_be_g; exact Hk | intros; cbv beta iota; apply g_ok | lia].
Qed.

Lemma read_var_u32_g nf k s : k <= 1 -> g nf k (read_var_u32 a_reader s) s.
Proof.
  intros Hk. unfold read_var_u32.
  eapply (gP_bind _ k 0); [apply r_u8_g; exact Hk | intros b1 s1 _ _ _; cbv beta iota zeta | lia].
  destruct (N.land b1 128 =? 0)%N; [apply g_ok|].
  eapply (gP_bind _ 0 0); [apply r_u8_g; lia | intros b2 s2 _ _ _; cbv beta iota zeta | lia].
  destruct (N.land b2 128 =? 0)%N; [apply g_ok|].
  eapply (gP_bind _ 0 0); [apply r_u8_g; lia | intros b3 s3 _ _ _; cbv beta iota zeta | lia].
  destruct (N.land b3 128 =? 0)%N; [apply g_ok|].
  eapply (gP_bind _ 0 0); [apply r_u8_g; lia | intros b4 s4 _ _ _; cbv beta iota zeta | lia].
  destruct (N.land b4 128 =? 0)%N; [apply g_ok|].
  eapply (gP_bind _ 0 0); [apply r_u8_g; lia | intros b5 s5 _ _ _; cbv beta iota zeta | lia].
  apply g_ok.
Qed.

Lemma read_var_i32_g nf k s : k <= 1 -> g nf k (read_var_i32 a_reader s) s.
Proof.
  intros Hk. unfold read_var_i32.
  eapply (gP_bind _ k 0); [apply read_var_u32_g; exact Hk | intros; cbv beta iota; apply g_ok | lia].
Qed.

Lemma dec_utf8_g nf bs (s : astate) : g nf 0 (dec_utf8 bs s) s.
Proof. unfold dec_utf8. destruct (utf8_valid bs); [apply g_ok | exact I]. Qed.

Lemma dec_string_g nf k s : k <= 1 -> g nf k (dec_string a_ops s) s.
Proof.
  intros Hk. unfold dec_string. change (d_rd a_ops) with a_reader.
  eapply (gP_bind _ k 0); [apply read_var_i32_g; exact Hk | intros id s1 _ _ _; cbv beta iota | lia].
  eapply (gP_bind _ 0 0); [apply r_bytes_g; lia | intros bs s2 _ _ _; cbv beta iota | lia].
  apply dec_utf8_g.
Qed.

Lemma dec_dedup_g nf k s : k <= 1 -> g nf k (dec_dedup a_ops s) s.
Proof.
  intros Hk. unfold dec_dedup. change (d_rd a_ops) with a_reader.
  eapply (gP_bind _ k 0); [apply read_var_i32_g; exact Hk | intros c s1 _ _ _; cbv beta iota | lia].
  destruct (c <? 0)%Z.
  - destruct (c =? - 2 ^ 31)%Z; [exact I|].
    destruct (d_str_get a_ops s1 (- c)); [apply g_ok | exact I].
  - eapply (gP_bind _ 0 0); [apply r_bytes_g; lia | intros bs s2 _ _ _; cbv beta iota | lia].
    eapply (gP_bind _ 0 0); [apply dec_utf8_g | intros v s3 _ _ _; cbv beta iota | lia].
    aops. unfold gP, len. cbn [a_cur a_stack]. split; [exact I | split; [reflexivity | lia]].
Qed.

Lemma dec_bytes_g nf k s : k <= 1 -> g nf k (dec_bytes a_ops s) s.
Proof.
  intros Hk. unfold dec_bytes. change (d_rd a_ops) with a_reader.
  eapply (gP_bind _ k 0); [apply read_var_u32_g; exact Hk | intros n s1 _ _ _; cbv beta iota | lia].
  eapply (gP_bind _ 0 0); [apply r_bytes_g; lia | intros bs s2 _ _ _; cbv beta iota | lia].
  apply g_ok.
Qed.

(* the registry of readers: add a line here when a new reader appears *)
Ltac rd_lemma0 :=
  change (d_rd a_ops) with a_reader;
  first [ apply r_u8_g | apply read_i8_g | apply read_be_g | apply read_signed_g
        | apply read_var_u32_g | apply read_var_i32_g | apply r_bytes_g
        | apply dec_string_g | apply dec_dedup_g | apply dec_bytes_g ];
  lia.

(* a uniform tactic for any composition of readers through bind, if and match:
   the FIRST reader pays the k bytes of the goal, the rest is proved with k = 0 *)
Ltac rd_compose_with rd k :=
  lazymatch goal with
  | |- gP _ _ _ (Ok _) _ => apply g_ok
  | |- gP _ _ _ (Err _) _ => exact I
  | |- gP _ _ _ (Panic _) _ => exact I
  | |- gP _ _ _ (bind _ _) _ =>
      eapply (gP_bind _ k 0);
      [ rd | intros ? ? _ _ _; cbv beta iota zeta; rd_compose_with rd 0 | lia ]
  | |- gP _ _ _ (if ?c then _ else _) _ => destruct c; rd_compose_with rd k
  | |- gP _ _ _ (match ?v with _ => _ end) _ => destruct v; rd_compose_with rd k
  | |- _ => rd
  end.

(* the chrono sub-decoders (features/chrono.rs): compositions of the readers above *)
Lemma dec_small_g nf k lo hi s : k <= 1 -> g nf k (dec_small a_ops lo hi s) s.
Proof. intros Hk. unfold dec_small. change (d_rd a_ops) with a_reader. rd_compose_with rd_lemma0 k. Qed.
Lemma dec_offset_g nf k s : k <= 1 -> g nf k (dec_offset a_ops s) s.
Proof. intros Hk. unfold dec_offset. change (d_rd a_ops) with a_reader. rd_compose_with rd_lemma0 k. Qed.
Lemma dec_tz_g nf k s : k <= 1 -> g nf k (dec_tz a_ops s) s.
Proof. intros Hk. unfold dec_tz. change (d_rd a_ops) with a_reader. rd_compose_with rd_lemma0 k. Qed.
Lemma dec_ndate_g nf k s : k <= 1 -> g nf k (dec_ndate a_ops s) s.
Proof. intros Hk. unfold dec_ndate. change (d_rd a_ops) with a_reader. rd_compose_with rd_lemma0 k. Qed.
Lemma dec_ntime_g nf k s : k <= 1 -> g nf k (dec_ntime a_ops s) s.
Proof. intros Hk. unfold dec_ntime. change (d_rd a_ops) with a_reader. rd_compose_with rd_lemma0 k. Qed.

Ltac rd_lemma1 :=
  first [ rd_lemma0
        | (first [ apply dec_small_g | apply dec_offset_g | apply dec_tz_g | apply dec_ndate_g | apply dec_ntime_g ]; lia) ].

Lemma dec_ndt_g nf k s : k <= 1 -> g nf k (dec_ndt a_ops s) s.
Proof. intros Hk. unfold dec_ndt. rd_compose_with rd_lemma1 k. Qed.

Ltac rd_lemma := first [ rd_lemma1 | (apply dec_ndt_g; lia) ].
Ltac rd_compose k := rd_compose_with rd_lemma k.

(* ================================================================== *)
(*  PRIMITIVES: never Fuel, and every prim but PUnit consumes a byte   *)
(*  (the ONE place where dec_prim is looked into)                      *)
(* ================================================================== *)

(* the least number of bytes a successful decode of t consumes, as far as we need it *)
Definition kw (t : ty) : nat := if zero_width t then 0 else 1.

Lemma dec_prim_g nf p s : g nf (kw (TPrim p)) (dec_prim a_ops p s) s.
Proof.
  destruct p; unfold dec_prim, kw; cbn [zero_width];
    lazymatch goal with |- gP _ ?k _ _ _ => rd_compose k end.
Qed.

(* template: how a new dec_prim case built from the readers through bind / if / match is
   discharged (a sub-decoder that is not unfolded needs its own `_g` lemma in rd_lemma) *)
Example rd_compose_template nf s :
  g nf 1 ('(y, s) <- read_signed a_reader 4 32 s ;;
          '(m, s) <- r_u8 a_reader s ;;
          if (m <? 13)%N then
            '(v, s) <- dec_string a_ops s ;;
            match v with VB bs => Ok (VNode 0 [VZ y; VN m; VB bs], s) | _ => Err EIllTyped end
          else Err EDeserializationFailure) s.
Proof. rd_compose 1. Qed.

(* ================================================================== *)
(*                             sequences                               *)
(* ================================================================== *)

(* elements that consume: the loop stops when the bytes are used up, whatever the count *)
Lemma dec_known_g1 nf (d : astate -> outcome (val * astate)) L :
  (forall s, len s <= L -> g nf 1 (d s) s) ->
  forall fuel n s, len s <= L -> (nf = true -> len s < fuel) ->
    g nf 0 (dec_known fuel d n s) s.
Proof.
  intros Hd. induction fuel as [| fl IH]; intros n s HL Hf; cbn [dec_known].
  - destruct (n =? 0)%N; [apply g_ok|]. unfold gP. destruct nf; [| reflexivity].
    specialize (Hf eq_refl). lia.
  - destruct (n =? 0)%N; [apply g_ok|].
    eapply (gP_bind _ 1 0); [apply Hd; exact HL | intros x s1 _ Hst Hl; cbv beta iota | lia].
    eapply (gP_bind _ 0 0); [apply IH; [lia | intros Hnf; specialize (Hf Hnf); lia]
                            | intros xs s2 _ _ _; cbv beta iota; apply g_ok | lia].
Qed.

(* any elements: the loop runs `count` times *)
Lemma dec_known_g0 nf (d : astate -> outcome (val * astate)) L :
  (forall s, len s <= L -> g nf 0 (d s) s) ->
  forall fuel n s, len s <= L -> (nf = true -> N.to_nat n <= fuel) ->
    g nf 0 (dec_known fuel d n s) s.
Proof.
  intros Hd. induction fuel as [| fl IH]; intros n s HL Hf; cbn [dec_known].
  - destruct (n =? 0)%N eqn:Hn; [apply g_ok|]. unfold gP. destruct nf; [| reflexivity].
    specialize (Hf eq_refl). lia.
  - destruct (n =? 0)%N eqn:Hn; [apply g_ok|].
    eapply (gP_bind _ 0 0); [apply Hd; exact HL | intros x s1 _ Hst Hl; cbv beta iota | lia].
    eapply (gP_bind _ 0 0); [apply IH; [lia | intros Hnf; specialize (Hf Hnf); lia]
                            | intros xs s2 _ _ _; cbv beta iota; apply g_ok | lia].
Qed.

(* unknown size: a tag byte per round *)
Lemma dec_unknown_g nf (d : astate -> outcome (val * astate)) L :
  (forall s, len s <= L -> g nf 0 (d s) s) ->
  forall fuel s, len s <= L -> (nf = true -> len s < fuel) ->
    g nf 0 (dec_unknown a_ops fuel d s) s.
Proof.
  intros Hd. induction fuel as [| fl IH]; intros s HL Hf; cbn [dec_unknown].
  - unfold gP. destruct nf; [| reflexivity]. specialize (Hf eq_refl). lia.
  - change (d_rd a_ops) with a_reader.
    eapply (gP_bind _ 1 0); [apply r_u8_g; lia | intros tag s1 _ Hst1 Hl1; cbv beta iota | lia].
    destruct (tag =? 0)%N; [apply g_ok|]. destruct (tag =? 1)%N; [| exact I].
    eapply (gP_bind _ 0 0); [apply Hd; lia | intros x s2 _ Hst2 Hl2; cbv beta iota | lia].
    eapply (gP_bind _ 0 0); [apply IH; [lia | intros Hnf; specialize (Hf Hnf); lia]
                            | intros xs s3 _ _ _; cbv beta iota; apply g_ok | lia].
Qed.

(* kd: what an element is known to consume (0 or 1) *)
Lemma dec_seq_items_g nf (d : astate -> outcome (val * astate)) kd fuel s :
  (forall s1, len s1 <= len s -> g nf kd (d s1) s1) ->
  (nf = true -> len s < fuel) ->
  (kd = 1 \/ (kd = 0 /\ (nf = true -> big <= fuel))) ->
  g nf 1 (dec_seq_items a_ops fuel d s) s.
Proof.
  intros Hd Hf Hk. unfold dec_seq_items. change (d_rd a_ops) with a_reader.
  pose proof (read_var_i32_g nf 1 s (le_n 1)) as H.
  destruct (read_var_i32 a_reader s) as [[n s1] | e | p | ] eqn:Hrd; unfold gP in H; try exact I.
  - destruct H as (_ & Hst & Hl).
    eapply (gP_from _ 1 0); [exact Hst | exact Hl | | lia].
    destruct (n =? -1)%Z.
    + apply dec_unknown_g with (L := len s).
      * intros s2 H2. eapply g_le; [apply Hd; exact H2 | lia].
      * lia.
      * intros Hnf. specialize (Hf Hnf). lia.
    + destruct (n <? 0)%Z eqn:Hneg; [exact I |].
      destruct Hk as [Hk | [Hk Hbig]]; subst kd.
      * apply dec_known_g1 with (L := len s); [exact Hd | lia |].
        intros Hnf. specialize (Hf Hnf). lia.
      * apply dec_known_g0 with (L := len s); [exact Hd | lia |].
        intros Hnf. specialize (Hbig Hnf).
        pose proof (read_var_i32_range a_reader s n s1 Hrd) as Hrg.
        assert (Hn : (0 <= n < 2 ^ 31)%Z) by lia.
        pose proof (as_usize_lt_big n Hn). lia.
  - exact H.
Qed.

Lemma collect_nofuel k items : collect k items <> Fuel.
Proof. destruct k; cbn [collect]; try discriminate. destruct (_ =? _)%N; discriminate. Qed.

(* ================================================================== *)
(*                        the AdtDeserializer                          *)
(* ================================================================== *)

(* every chunk region is shorter than L *)
Definition ad_bnd (L : nat) (ad : @adt_de bytes) : Prop :=
  Forall (fun rg => length rg < L) (ad_inputs ad).

Lemma dec_sstep_g nf s : g nf 0 (dec_sstep a_ops s) s.
Proof. unfold dec_sstep. rd_compose 0. Qed.

Lemma dec_ssteps_g nf n : forall s, g nf 0 (dec_ssteps a_ops n s) s.
Proof.
  induction n as [| n IH]; intros s; cbn [dec_ssteps]; [apply g_ok|].
  eapply (gP_bind _ 0 0); [apply dec_sstep_g | intros x s1 _ _ _; cbv beta iota | lia].
  eapply (gP_bind _ 0 0); [apply IH | intros xs s2 _ _ _; cbv beta iota; apply g_ok | lia].
Qed.

Lemma take_chunks_g nf ss : forall idx s,
  gP nf 0 (fun r => Forall (fun rg => length rg <= len s) (fst (fst r)))
     (take_chunks a_ops ss idx s) s.
Proof.
  induction ss as [| x r IH]; intros idx s; cbn [take_chunks].
  - apply gP_ok. constructor.
  - assert (He : length (d_empty a_ops) <= len s) by (cbn; lia).
    destruct x.
    + eapply (gP_bind _ 0 0); [apply d_take_g | | lia].
      intros rg s1 Hrg _ Hl. cbv beta iota.
      eapply (gP_bind _ 0 0); [apply IH | | lia].
      intros [[inputs mo] rem] s2 HF _ _. cbv beta iota. apply gP_ok. cbn [fst] in *.
      constructor; [exact Hrg|]. eapply Forall_impl; [| exact HF]. cbv beta. intros; lia.
    + eapply (gP_bind _ 0 0); [apply IH | | lia].
      intros [[inputs mo] rem] s2 HF _ _. cbv beta iota. apply gP_ok. cbn [fst] in *.
      constructor; [exact He | exact HF].
    + eapply (gP_bind _ 0 0); [apply IH | | lia].
      intros [[inputs mo] rem] s2 HF _ _. cbv beta iota. apply gP_ok. cbn [fst] in *.
      constructor; [exact He | exact HF].
    + eapply (gP_bind _ 0 0); [apply IH | | lia].
      intros [[inputs mo] rem] s2 HF _ _. cbv beta iota. apply gP_ok. cbn [fst] in *.
      constructor; [exact He | exact HF].
Qed.

Lemma ad_new_g nf steps stored s :
  gP nf 0 (fun ad => Forall (fun rg => length rg <= len s) (ad_inputs ad))
     (ad_new a_ops steps stored s) s.
Proof.
  unfold ad_new.
  eapply (gP_bind _ 0 0); [apply dec_ssteps_g | | lia]. intros ss s1 _ _ Hl1. cbv beta iota.
  eapply (gP_bind _ 0 0); [apply take_chunks_g | | lia].
  intros [[inputs mo] rem] s2 HF _ _. cbv beta iota. apply gP_ok. cbn [ad_inputs fst] in *.
  eapply Forall_impl; [| exact HF]. cbv beta. intros; lia.
Qed.

(* opening a record reads its version byte: every region is shorter than what was there *)
Lemma ad_open_g nf steps s : gP nf 1 (ad_bnd (len s)) (ad_open a_ops steps s) s.
Proof.
  unfold ad_open. change (d_rd a_ops) with a_reader.
  eapply (gP_bind _ 1 0); [apply r_u8_g; lia | | lia]. intros stored s1 _ _ Hl1. cbv beta iota.
  destruct (stored =? 0)%N.
  - apply gP_ok. unfold ad_bnd, ad_new_v0. cbn [ad_inputs]. constructor.
  - eapply gP_le; [apply ad_new_g | lia |]. intros ad HF. unfold ad_bnd.
    eapply Forall_impl; [| exact HF]. cbv beta. intros; lia.
Qed.

Lemma ad_record_index_cases (ad : @adt_de bytes) chunk :
  match ad_record_index ad chunk with
  | Ok (_, ad') => ad_inputs ad' = ad_inputs ad
  | Fuel => False
  | _ => True
  end.
Proof.
  unfold ad_record_index. destruct (nth_error (ad_last ad) (N.to_nat chunk)); [| exact I].
  destruct (127 <? _)%Z; [exact I|]. reflexivity.
Qed.

(* a body run inside a chunk: the current region is restored, the chunk only shrinks *)
Lemma in_chunk_g {A} nf (P : A -> Prop) L ad chunk (body : astate -> outcome (A * astate)) s :
  ad_bnd L ad -> len s < L ->
  (forall s1, len s1 < L -> gP nf 0 P (body s1) s1) ->
  gP nf 0 (fun r => P (fst r) /\ ad_bnd L (snd r)) (in_chunk a_ops ad chunk body s) s.
Proof.
  intros Hb Hs Hbody. unfold in_chunk.
  destruct (ad_inputs ad) as [| i0 ir] eqn:Hi.
  - eapply (gP_bind _ 0 0); [apply Hbody; exact Hs | | lia].
    intros a s1 Pa _ _. cbv beta iota. apply gP_ok. cbn [fst snd]. split; [exact Pa | exact Hb].
  - rewrite <- Hi.
    destruct (nth_error (ad_inputs ad) (N.to_nat chunk)) as [rg |] eqn:Hn; [| exact I].
    assert (Hrg : length rg < L).
    { unfold ad_bnd in Hb. rewrite Forall_forall in Hb. apply Hb. eapply nth_error_In; exact Hn. }
    aops. cbn [bind].
    pose proof (Hbody (mkA rg (a_cur s :: a_stack s) (a_strs s)) Hrg) as H.
    destruct (body (mkA rg (a_cur s :: a_stack s) (a_strs s))) as [[a s1] | e | p | ];
      cbn [bind]; unfold gP in H; try exact I; [| exact H].
    cbv beta iota. destruct H as (Pa & Hst & Hl). cbn [a_stack] in Hst. unfold len in Hl.
    cbn [a_cur] in Hl. rewrite Hst. cbn [bind]. cbv beta iota.
    unfold gP, len. cbn [a_cur a_stack fst snd].
    split; [split; [exact Pa|] | split; [reflexivity | lia]].
    unfold ad_bnd, ad_set_input. cbn [ad_inputs]. apply set_nth_Forall; [exact Hb | lia].
Qed.

Lemma read_field_g nf steps (d : astate -> outcome (val * astate)) n dflt L ad s :
  (forall s1, len s1 < L -> g nf 0 (d s1) s1) -> ad_bnd L ad -> len s < L ->
  gP nf 0 (fun r => ad_bnd L (snd r)) (read_field a_ops steps d n dflt ad s) s.
Proof.
  intros Hd Hb Hs. unfold read_field.
  destruct (mem_name n (ad_removed ad)); [exact I|]. cbv zeta.
  pose proof (ad_record_index_cases ad
                (match field_generation steps n with Some c => c | None => 0%N end)) as Hri.
  destruct (ad_record_index ad _) as [[fp ad'] | e | p | ]; cbn [bind]; try exact I; [| destruct Hri].
  cbv beta iota.
  assert (Hb' : ad_bnd L ad') by (unfold ad_bnd; rewrite Hri; exact Hb).
  destruct (ad_stored ad' <? _)%N.
  - destruct dflt; [| exact I]. apply gP_ok. exact Hb'.
  - eapply gP_le; [apply in_chunk_g with (P := fun _ => True) (L := L); [exact Hb' | exact Hs |]
                  | lia | intros a [_ H]; exact H].
    intros s0 Hs0. change (d_rd a_ops) with a_reader.
    destruct (mem_pos fp (ad_mo ad')); [| apply Hd; exact Hs0].
    eapply (gP_bind _ 0 0); [apply r_u8_g; lia | | lia]. intros b s1 _ _ Hl1. cbv beta iota.
    destruct (b =? 0)%N; [exact I | apply Hd; lia].
Qed.

Lemma read_optional_field_g nf steps (d : astate -> outcome (val * astate)) n dflt L ad s :
  (forall s1, len s1 < L -> g nf 0 (d s1) s1) -> ad_bnd L ad -> len s < L ->
  gP nf 0 (fun r => ad_bnd L (snd r)) (read_optional_field a_ops steps d n dflt ad s) s.
Proof.
  intros Hd Hb Hs. unfold read_optional_field.
  destruct (mem_name n (ad_removed ad)); [apply gP_ok; exact Hb|]. cbv zeta.
  pose proof (ad_record_index_cases ad
                (match field_generation steps n with Some c => c | None => 0%N end)) as Hri.
  destruct (ad_record_index ad _) as [[fp ad'] | e | p | ]; cbn [bind]; try exact I; [| destruct Hri].
  cbv beta iota.
  assert (Hb' : ad_bnd L ad') by (unfold ad_bnd; rewrite Hri; exact Hb).
  destruct (ad_stored ad' <? match field_generation steps n with Some c => c | None => 0%N end)%N.
  - destruct dflt; [| exact I]. apply gP_ok. exact Hb'.
  - eapply gP_le; [apply in_chunk_g with (P := fun _ => True) (L := L); [exact Hb' | exact Hs |]
                  | lia | intros a [_ H]; exact H].
    intros s0 Hs0. change (d_rd a_ops) with a_reader.
    destruct (ad_stored ad' <? _)%N.
    + eapply (gP_bind _ 0 0); [apply Hd; exact Hs0 | | lia].
      intros x s1 _ _ _. cbv beta iota. apply g_ok.
    + eapply (gP_bind _ 0 0); [apply r_u8_g; lia | | lia]. intros tag s1 _ _ Hl1. cbv beta iota.
      destruct (tag =? 0)%N; [apply g_ok|]. destruct (tag =? 1)%N; [| exact I].
      eapply (gP_bind _ 0 0); [apply Hd; lia | | lia].
      intros x s2 _ _ _. cbv beta iota. apply g_ok.
Qed.

(* ================================================================== *)
(*                         records and enums                           *)
(* ================================================================== *)

Lemma read_fields_g nf (decf : ty -> astate -> outcome (val * astate)) steps L : forall fs,
  (forall fl, In fl fs -> forall s1, len s1 < L -> g nf 0 (decf (field_dec_ty fl) s1) s1) ->
  forall ad s, ad_bnd L ad -> len s < L ->
    g nf 0 (read_fields a_ops decf steps fs ad s) s.
Proof.
  induction fs as [| f r IH]; intros Hdec ad s Hb Hs; cbn [read_fields]; [apply g_ok|].
  eapply (gP_bind _ 0 0) with (P := fun r0 => ad_bnd L (snd r0)); [| | lia].
  - destruct (f_transient f) as [dflt |]; [apply gP_ok; exact Hb|]. cbv zeta.
    pose proof (Hdec f (or_introl eq_refl)) as Hf. unfold field_dec_ty in Hf.
    destruct (f_opt f).
    + destruct (f_ty f) as [ | t' | | | | | | | ]; try exact I.
      apply read_optional_field_g; [exact Hf | exact Hb | exact Hs].
    + apply read_field_g; [exact Hf | exact Hb | exact Hs].
  - intros [v ad1] s1 Hb1 _ Hl1. cbn [snd] in Hb1. cbv beta iota.
    eapply (gP_bind _ 0 0); [apply IH; [| exact Hb1 | lia] | | lia].
    + intros fl Hin. apply Hdec. right. exact Hin.
    + intros [vs ad2] s2 _ _ _. cbv beta iota. apply g_ok.
Qed.

(* a record reads its version byte; its fields see strictly fewer bytes than it did *)
Lemma dec_record_g nf (decf : ty -> astate -> outcome (val * astate)) m s :
  (forall fl, In fl (r_fields m) -> forall s1, len s1 < len s ->
              g nf 0 (decf (field_dec_ty fl) s1) s1) ->
  g nf 1 (dec_record a_ops decf m s) s.
Proof.
  intros Hdec. unfold dec_record.
  destruct (255 <=? version_of (r_steps m))%N; [exact I|].
  eapply (gP_bind _ 1 0); [apply ad_open_g | | lia]. intros ad s1 Hb _ Hl1. cbv beta iota.
  eapply (gP_bind _ 0 0); [apply read_fields_g with (L := len s); [exact Hdec | exact Hb | lia] | | lia].
  intros [vs ad2] s2 _ _ _. cbv beta iota. apply g_ok.
Qed.

Lemma read_ctor_idx_g nf L ad s :
  ad_bnd L ad -> len s < L ->
  gP nf 0 (fun r => ad_bnd L (snd r)) (read_ctor_idx a_ops ad s) s.
Proof.
  intros Hb Hs. unfold read_ctor_idx. destruct (ad_ctor ad) as [i |]; [apply gP_ok; exact Hb|].
  eapply (gP_bind _ 0 0); [apply in_chunk_g with (P := fun _ => True) (L := L); [exact Hb | exact Hs |] | | lia].
  - intros s1 _. rd_lemma.
  - intros [i ad1] s1 [_ Hb1] _ _. cbv beta iota. apply gP_ok. cbn [snd] in *. exact Hb1.
Qed.

Lemma read_cases_g nf (decf : ty -> astate -> outcome (val * astate)) tyname L : forall cs,
  (forall c, In c cs -> forall fl, In fl (r_fields (v_rec (snd c))) -> forall s1, len s1 < L ->
             g nf 0 (decf (field_dec_ty fl) s1) s1) ->
  forall idx ad s, ad_bnd L ad -> len s < L ->
    g nf 0 (read_cases a_ops decf tyname cs idx ad s) s.
Proof.
  induction cs as [| [decl_idx var] r IH]; intros Hdec idx ad s Hb Hs; cbn [read_cases].
  - eapply (gP_bind _ 0 0); [apply read_ctor_idx_g; [exact Hb | exact Hs] | | lia].
    intros [i ad1] s1 _ _ _. cbv beta iota. exact I.
  - eapply (gP_bind _ 0 0); [apply read_ctor_idx_g; [exact Hb | exact Hs] | | lia].
    intros [i ad1] s1 Hb1 _ Hl1. cbn [snd] in Hb1. cbv beta iota.
    destruct (i =? idx)%N.
    + destruct (v_transient var); [exact I|].
      eapply (gP_bind _ 0 0);
        [apply in_chunk_g with (P := fun _ => True) (L := L); [exact Hb1 | lia |] | | lia].
      * intros s2 Hs2. eapply g_le; [apply dec_record_g | lia].
        intros fl Hin s3 Hs3. apply (Hdec (decl_idx, var) (or_introl eq_refl) fl Hin). lia.
      * intros [v ad2] s2 _ _ _. cbv beta iota. destruct v; try exact I. apply g_ok.
    + apply IH; [| exact Hb1 | lia]. intros c Hc. apply Hdec. right. exact Hc.
Qed.

Lemma dec_enum_g nf (decf : ty -> astate -> outcome (val * astate)) tyname m s :
  (forall v, In v (e_variants m) -> forall fl, In fl (r_fields (v_rec v)) ->
             forall s1, len s1 < len s -> g nf 0 (decf (field_dec_ty fl) s1) s1) ->
  g nf 1 (dec_enum a_ops decf tyname m s) s.
Proof.
  intros Hdec. unfold dec_enum.
  eapply (gP_bind _ 1 0); [apply ad_open_g | | lia]. intros ad s1 Hb _ Hl1. cbv beta iota.
  apply read_cases_g with (L := len s); [| exact Hb | lia].
  intros c Hc. apply Hdec. apply cases_of_In. exact Hc.
Qed.

(* ================================================================== *)
(*                          the main lemma                             *)
(* ================================================================== *)

(* nf = false: a frame/consumption statement for every fuel.
   nf = true:  no Fuel as soon as  tdepth t + G E |cur| + K <= fuel, where either K is
               arbitrary and no sequence has zero-width elements, or K >= 2^31. *)
Lemma dec_g nf E K :
  okz K (nzw_env E) ->
  forall f t s,
    okz K (nzw_ty t) ->
    (nf = true -> tdepth t + G E (len s) + K <= f) ->
    g nf (kw t) (dec a_ops f E t s) s.
Proof.
  intros HE. induction f as [| f IH]; intros t s Ht Hf; cbn [dec].
  { unfold gP. destruct nf; [| reflexivity]. specialize (Hf eq_refl).
    pose proof (tdepth_pos t). lia. }
  (* the sub-decoders, at any state with no more bytes, for a type of smaller depth *)
  assert (Hsub : forall t' s1, okz K (nzw_ty t') -> tdepth t' < tdepth t -> len s1 <= len s ->
                               g nf (kw t') (dec a_ops f E t' s1) s1).
  { intros t' s1 Ht' Hd Hl. apply IH; [exact Ht'|]. intros Hnf. specialize (Hf Hnf).
    pose proof (G_mono E _ _ Hl). lia. }
  (* the field decoders of a declaration, at any state with strictly fewer bytes *)
  assert (Hfld : forall fl s1, In (f_ty fl) (env_field_tys E) -> len s1 < len s ->
                               g nf 0 (dec a_ops f E (field_dec_ty fl) s1) s1).
  { intros fl s1 Hin Hl. eapply g_le; [apply IH | lia].
    - apply okz_field. eapply okz_forallb; [exact HE | exact Hin].
    - intros Hnf. specialize (Hf Hnf). pose proof (G_step E _ _ Hl).
      pose proof (field_dec_ty_depth fl). pose proof (env_depth_In E _ Hin).
      pose proof (tdepth_pos t). lia. }
  destruct t as [p | t' | r e | ts | k e | k kt vt | w t' | | n].
  - (* TPrim *) apply dec_prim_g.
  - (* TOption *) change (kw (TOption t')) with 1. change (d_rd a_ops) with a_reader.
    cbn [nzw_ty] in Ht.
    eapply (gP_bind _ 1 0); [apply r_u8_g; lia | | lia]. intros tag s1 _ _ Hl1. cbv beta iota.
    destruct (tag =? 0)%N; [apply g_ok|]. destruct (tag =? 1)%N; [| exact I].
    eapply (gP_bind _ 0 0); [eapply g_le; [apply (Hsub t' s1 Ht) | lia] | | lia].
    + cbn [tdepth]. lia.
    + lia.
    + intros x s2 _ _ _. cbv beta iota. apply g_ok.
  - (* TResult *) change (kw (TResult r e)) with 1. change (d_rd a_ops) with a_reader.
    cbn [nzw_ty] in Ht. apply okz_andb in Ht. destruct Ht as [Hr He].
    eapply (gP_bind _ 1 0); [apply r_u8_g; lia | | lia]. intros tag s1 _ _ Hl1. cbv beta iota.
    destruct (tag =? 0)%N.
    { eapply (gP_bind _ 0 0); [eapply g_le; [apply (Hsub e s1 He) | lia] | | lia].
      + cbn [tdepth]. lia.
      + lia.
      + intros x s2 _ _ _. cbv beta iota. apply g_ok. }
    destruct (tag =? 1)%N; [| exact I].
    eapply (gP_bind _ 0 0); [eapply g_le; [apply (Hsub r s1 Hr) | lia] | | lia].
    + cbn [tdepth]. lia.
    + lia.
    + intros x s2 _ _ _. cbv beta iota. apply g_ok.
  - (* TTuple *) change (kw (TTuple ts)) with 1. apply dec_record_g.
    intros fl Hin s1 Hl1. unfold tuple_meta in Hin. cbn [r_fields] in Hin.
    apply tuple_fields_In in Hin. destruct Hin as [Hopt Hin].
    unfold field_dec_ty. rewrite Hopt.
    eapply g_le; [apply Hsub | lia].
    + cbn [nzw_ty] in Ht. eapply okz_forallb; [exact Ht | exact Hin].
    + apply tdepth_tuple_In. exact Hin.
    + lia.
  - (* TSeq *) change (kw (TSeq k e)) with 1.
    destruct (byte_path k e).
    + eapply (gP_bind _ 1 0); [apply dec_bytes_g; lia | | lia]. intros v s1 _ _ _. cbv beta iota.
      destruct k; try apply g_ok. destruct v; try apply g_ok.
      destruct (_ =? _)%N; [apply g_ok | exact I].
    + cbn [nzw_ty] in Ht. apply okz_andb in Ht. destruct Ht as [Hz He].
      eapply (gP_bind _ 1 0); [apply dec_seq_items_g with (kd := kw e) | | lia].
      * intros s1 Hl1. apply Hsub; [exact He | cbn [tdepth]; lia | exact Hl1].
      * intros Hnf. specialize (Hf Hnf). pose proof (G_gt E (len s)). cbn [tdepth] in Hf. lia.
      * unfold kw. destruct (zero_width e); [right | left; reflexivity].
        split; [reflexivity|]. intros Hnf. specialize (Hf Hnf). cbn [tdepth] in Hf.
        destruct Hz as [Hz | Hz]; [discriminate Hz | lia].
      * intros items s1 _ _ _. cbv beta iota.
        pose proof (collect_nofuel k items) as Hc.
        destruct (collect k items) as [v | er | p | ]; cbn [bind]; try exact I;
          [apply g_ok | congruence].
  - (* TMap *) change (kw (TMap k kt vt)) with 1.
    eapply (gP_bind _ 1 0); [apply dec_seq_items_g with (kd := 1) | | lia].
    + intros s1 Hl1. change 1 with (kw (TTuple [kt; vt])). apply Hsub; [| | exact Hl1].
      * cbn [nzw_ty forallb] in *. destruct Ht as [Ht | Ht]; [left | right; exact Ht].
        rewrite andb_true_r. exact Ht.
      * rewrite <- (tdepth_map_tuple k kt vt). lia.
    + intros Hnf. specialize (Hf Hnf). pose proof (G_gt E (len s)). cbn [tdepth] in Hf. lia.
    + left. reflexivity.
    + intros items s1 _ _ _. cbv beta iota. apply g_ok.
  - (* TWrap *) change (kw (TWrap w t')) with (kw t').
    apply Hsub; [exact Ht | cbn [tdepth]; lia | lia].
  - (* TPhantom *) apply g_ok.
  - (* TNamed *) change (kw (TNamed n)) with 1.
    destruct (lookup_decl E n) as [d |] eqn:Hd; [| exact I].
    unfold lookup_decl in Hd. apply nth_error_In in Hd.
    destruct (d_body d) as [m | m] eqn:Hbody.
    + apply dec_record_g. intros fl Hin s1 Hl1. apply Hfld; [| exact Hl1].
      eapply record_field_in_env; eassumption.
    + apply dec_enum_g. intros v Hv fl Hin s1 Hl1. apply Hfld; [| exact Hl1].
      eapply enum_field_in_env; eassumption.
Qed.

(* ================================================================== *)
(*                            the theorems                             *)
(* ================================================================== *)

(* ---- consumption: every fuel, no hypothesis ---- *)
Theorem decA_advance : forall f E t s v s',
  dec a_ops f E t s = Ok (v, s') ->
  a_stack s' = a_stack s /\
  length (a_cur s') + (if zero_width t then 0 else 1) <= length (a_cur s).
Proof.
  intros f E t s v s' Hd.
  pose proof (dec_g false E big (or_intror (le_n _)) f t s (or_intror (le_n _))
                    (fun H => False_ind _ (Bool.diff_false_true H))) as H.
  rewrite Hd in H. unfold gP in H. destruct H as (_ & Hst & Hl). split; [exact Hst | exact Hl].
Qed.

(* a value of a type that is not zero-width takes at least one byte of the current region;
   the region stack is left unchanged *)
Lemma decA_consumes_one : forall f E t s v s',
  wf_env E = true -> wf_ty E t = true -> zero_width t = false ->
  dec a_ops f E t s = Ok (v, s') ->
  length (a_cur s') < length (a_cur s) /\ a_stack s' = a_stack s.
Proof.
  intros f E t s v s' _ _ Hz Hd. destruct (decA_advance _ _ _ _ _ _ Hd) as [Hst Hl].
  rewrite Hz in Hl. split; [lia | exact Hst].
Qed.

(* ---- termination with the explicit, linear bound ---- *)
Lemma decA_terminates_prompt_gen : forall E t s f,
  nzw_env E = true -> nzw_ty t = true ->
  fuel_bound E t (length (a_cur s)) <= f -> dec a_ops f E t s <> Fuel.
Proof.
  intros E t s f HE Ht Hf.
  apply (gP_nofuel (kw t) (fun _ => True) _ s).
  apply (dec_g true E 0 (or_introl HE) f t s (or_introl Ht)).
  intros _. rewrite fuel_bound_eq in Hf. fold (len s) in Hf. lia.
Qed.

Theorem decA_terminates_prompt : forall E t s,
  wf_env E = true -> wf_ty E t = true -> nzw_env E = true -> nzw_ty t = true ->
  dec a_ops (fuel_bound E t (length (a_cur s))) E t s <> Fuel.
Proof. intros E t s _ _ HE Ht. apply decA_terminates_prompt_gen; [exact HE | exact Ht | apply le_n]. Qed.

(* hence for any larger fuel (dec_mono: more fuel never changes a non-Fuel answer) *)
Corollary decA_terminates_prompt_ge : forall E t s f,
  wf_env E = true -> wf_ty E t = true -> nzw_env E = true -> nzw_ty t = true ->
  fuel_bound E t (length (a_cur s)) <= f -> dec a_ops f E t s <> Fuel.
Proof.
  intros E t s f HE Ht HzE Hzt Hf.
  pose proof (decA_terminates_prompt E t s HE Ht HzE Hzt) as H.
  rewrite (dec_mono a_ops _ f E t s _ Hf eq_refl H). exact H.
Qed.

(* and for the top-level entry point *)
Corollary decodeA_terminates_prompt : forall E t bs st,
  wf_env E = true -> wf_ty E t = true -> nzw_env E = true -> nzw_ty t = true ->
  decodeA (fuel_bound E t (length bs)) E t bs st <> Fuel.
Proof.
  intros E t bs st HE Ht HzE Hzt. unfold decodeA.
  pose proof (decA_terminates_prompt E t (mkA bs [] st) HE Ht HzE Hzt) as H. cbn [a_cur] in H.
  destruct (dec a_ops (fuel_bound E t (length bs)) E t (mkA bs [] st)) as [[v s'] | e | p | ];
    cbn [bind]; [discriminate | discriminate | discriminate | congruence].
Qed.

Corollary decodeA_terminates_prompt_ge : forall E t bs st f,
  wf_env E = true -> wf_ty E t = true -> nzw_env E = true -> nzw_ty t = true ->
  fuel_bound E t (length bs) <= f -> decodeA f E t bs st <> Fuel.
Proof.
  intros E t bs st f HE Ht HzE Hzt Hf.
  pose proof (decodeA_terminates_prompt E t bs st HE Ht HzE Hzt) as H.
  rewrite (decodeA_mono _ f E t bs st _ Hf eq_refl H). exact H.
Qed.

(* ---- without the zero-width restriction: the decoded count (a non-negative i32, < 2^31)
   governs ---- *)
Theorem decA_terminates_bound : forall E t s f,
  fuel_bound E t (length (a_cur s)) + big <= f -> dec a_ops f E t s <> Fuel.
Proof.
  intros E t s f Hf.
  apply (gP_nofuel (kw t) (fun _ => True) _ s).
  apply (dec_g true E big (or_intror (le_n _)) f t s (or_intror (le_n _))).
  intros _. rewrite fuel_bound_eq in Hf. fold (len s) in Hf. lia.
Qed.

(* and for the top-level entry point *)
Theorem decodeA_terminates_bound : forall E t bs st f,
  (fuel_bound E t (length bs) + big <= f)%nat -> decodeA f E t bs st <> Fuel.
Proof.
  intros E t bs st f Hf. unfold decodeA.
  pose proof (decA_terminates_bound E t (mkA bs [] st) f) as H. cbn [a_cur] in H.
  specialize (H Hf).
  destruct (dec a_ops f E t (mkA bs [] st)) as [[v s'] | e | p | ];
    cbn [bind]; [discriminate | discriminate | discriminate | congruence].
Qed.

Theorem decA_terminates : forall E t s,
  wf_env E = true -> wf_ty E t = true -> exists f, dec a_ops f E t s <> Fuel.
Proof.
  intros E t s _ _. exists (fuel_bound E t (length (a_cur s)) + big).
  apply decA_terminates_bound. apply le_n.
Qed.

Corollary decodeA_terminates : forall E t bs st,
  wf_env E = true -> wf_ty E t = true -> exists f, decodeA f E t bs st <> Fuel.
Proof.
  intros E t bs st _ _. exists (fuel_bound E t (length bs) + big). unfold decodeA.
  pose proof (decA_terminates_bound E t (mkA bs [] st) _ (le_n _)) as H. cbn [a_cur] in H.
  destruct (dec a_ops (fuel_bound E t (length bs) + big) E t (mkA bs [] st)) as [[v s'] | e | p | ];
    cbn [bind]; [discriminate | discriminate | discriminate | congruence].
Qed.

(* ---- non-vacuity / sharpness ---- *)

(* F14: the 5 bytes are the var-int of i32::MAX; Vec<()> then loops 2^31-1 times on no input *)
Example zero_width_needs_count_many_steps :
  dec a_ops 1000 [] (TSeq KVec (TPrim PUnit)) (mkA [254; 255; 255; 255; 15]%N [] []) = Fuel.
Proof. vm_compute. reflexivity. Qed.

(* a negative count other than -1 (the single byte 3 is the var-int of -2) used to be cast
   `as usize` to 2^64 - 2 iterations; it is rejected since /repo 843c370 *)
Example zero_width_negative_count_rejected :
  dec a_ops 1000 [] (TSeq KVec (TPrim PUnit)) (mkA [3]%N [] []) = Err EDeserializationFailure.
Proof. vm_compute. reflexivity. Qed.

(* the unknown-size form (count -1, byte 1) is harmless: a tag byte per item *)
Example zero_width_unknown_size_ok :
  dec a_ops 6 [] (TSeq KVec (TPrim PUnit)) (mkA [1; 1; 1; 1; 0]%N [] [])
  = Ok (VNode 0 [VUnit; VUnit; VUnit], mkA [] [] []).
Proof. vm_compute. reflexivity. Qed.

(* the hypotheses of the prompt theorem are satisfiable and its bound is small: the recursive
   declaration  struct L { n: Option<Box<L>>, i: Vec<(u8,)> }  and a 12-byte encoding of
   L { n: Some(L { n: None, i: [(7,)] }), i: [(9,), (8,)] } *)
Example prompt_nonvacuous :
  let E := [mkD [76]%N (DRecord (mkR [mkField [110]%N (TOption (TWrap KBox (TNamed 0))) true None;
                                       mkField [105]%N (TSeq KVec (TTuple [TPrim PU8])) false None] []))] in
  let input := [0; 1; 0; 0; 2; 0; 7; 4; 0; 9; 0; 8]%N in
  wf_env E = true /\ wf_ty E (TNamed 0) = true /\ nzw_env E = true /\ nzw_ty (TNamed 0) = true /\
  fuel_bound E (TNamed 0) (length input) = 53 /\
  is_ok (dec a_ops (fuel_bound E (TNamed 0) (length input)) E (TNamed 0) (mkA input [] [])) = true.
Proof. vm_compute. repeat split; reflexivity. Qed.

Print Assumptions decA_advance.
Print Assumptions decA_consumes_one.
Print Assumptions decA_terminates_prompt.
Print Assumptions decA_terminates_prompt_ge.
Print Assumptions decodeA_terminates_prompt.
Print Assumptions decodeA_terminates_prompt_ge.
Print Assumptions decA_terminates_bound.
Print Assumptions decA_terminates.
Print Assumptions decodeA_terminates.
Print Assumptions zero_width_needs_count_many_steps.
Print Assumptions decodeA_terminates_bound.
