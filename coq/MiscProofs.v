(* MiscProofs.v — C12 (sequence forms), C13 (enum constructors), C14 (transient fields),
   C17 (the encoder's panics).  Everything stated here is fully proved.

   C12  C12_encode_indep, C12_unknown_form, C12_forms_agree (+ C12_forms_decode,
        enc_seq_unknown_of_seq: the unknown-length writer succeeds whenever the known-length
        one does, with the same string table)
   C13  C13_layout, C13_index_declaration_order, C13_sorted, nlen_cases_of, C13_transient_ser,
        C13_out_of_range (and ' in terms of e_variants), C13_transient_de, C13_extension
        (+ C13_extension_gen for any input model, cases_of_append, read_cases_hit/miss: the
        closed form of the chain of read_constructor attempts)
   C14  C14_no_bytes, prerender_names_spec/_length, C14_header_ok, C14_header_no_unknown_ref,
        C14_record_no_unknown_ref, C14_enc_no_unknown_ref
   C17  C17_dedup_overflow, C17_enc_good (the invariant), C17_enc_panic_only_string_ids,
        C17_enc_panic_origin (the stronger form), C17_enc_table_grows
   Not done: a closed "small table" side condition under which enc never panics; it needs a
   bound on the number of enc_dedup calls of an encoding (value- and header-dependent). *)
From Coq Require Import NArith ZArith List Lia Bool Permutation Sorted.
From Coq Require Import ZifyBool ZifyN ZifyNat.
From Desert Require Import Bits Outcome IO IOProofs VarintProofs Types Codec CodecWf CodecLemmas
  CodecRt RecordRt TotalProofs MonoProofs CodecRt2.
Import ListNotations.
Open Scope N_scope.

Ltac Zify.zify_post_hook ::= Z.div_mod_to_equations.

(* ================================================================== *)
(*                        C13 — enum constructors                      *)
(* ================================================================== *)

Theorem C13_layout : forall encf tyname m tag payload st b st',
  enc_enum encf tyname m (VNode tag payload) st = Ok (b, st') ->
  exists idx var b', case_index (cases_of m) tag 0 = Some (idx, var) /\ v_transient var = false /\
    idx < 2^32 /\ enc_record encf (v_rec var) payload st = Ok (b', st') /\
    b = 0 :: write_var_u32 idx ++ b'.
Proof.
  intros encf tyname m tag payload st b st' H. unfold enc_enum in H.
  destruct (case_index (cases_of m) tag 0) as [[idx var]|] eqn:Ec; [|discriminate].
  destruct (v_transient var) eqn:Et; [discriminate|].
  destruct (2^32 <=? idx) eqn:El; [discriminate|].
  destruct (enc_record encf (v_rec var) payload st) as [[b1 st1]| | |] eqn:Er; try discriminate.
  cbn [bind] in H. apply ok_pair_inj in H as [<- <-].
  exists idx, var, b1. apply N.leb_gt in El. repeat split; auto.
Qed.

(* ---------- declaration order ---------- *)
Lemma case_index_number_from : forall (l : list variant) j i tag idx var,
  case_index (number_from j l) tag i = Some (idx, var) ->
  j <= tag /\ idx = i + (tag - j) /\ nth_error l (N.to_nat (tag - j)) = Some var.
Proof.
  induction l as [|x l IH]; intros j i tag idx var H; cbn [number_from case_index] in H; [discriminate|].
  destruct (j =? tag) eqn:E.
  - apply N.eqb_eq in E. subst. injection H as <- <-. rewrite N.sub_diag.
    split; [lia|split; [lia|reflexivity]].
  - apply IH in H as (H1 & H2 & H3). split; [lia|]. split; [lia|].
    replace (N.to_nat (tag - j)) with (Datatypes.S (N.to_nat (tag - (j + 1)))) by lia. exact H3.
Qed.

(* conversely: every declared variant has its index *)
Lemma case_index_number_from_complete : forall (l : list variant) j i tag var,
  j <= tag -> nth_error l (N.to_nat (tag - j)) = Some var ->
  case_index (number_from j l) tag i = Some (i + (tag - j), var).
Proof.
  induction l as [|x l IH]; intros j i tag var Hj H.
  - destruct (N.to_nat (tag - j)); discriminate.
  - cbn [number_from case_index]. destruct (j =? tag) eqn:E.
    + apply N.eqb_eq in E. subst. rewrite N.sub_diag in *. cbn in H. injection H as ->.
      rewrite N.add_0_r. reflexivity.
    + replace (N.to_nat (tag - j)) with (Datatypes.S (N.to_nat (tag - (j + 1)))) in H by lia.
      cbn [nth_error] in H. rewrite (IH (j + 1) (i + 1) tag var) by (auto; lia).
      f_equal. f_equal. lia.
Qed.

Theorem C13_index_declaration_order : forall m tag idx var,
  e_sorted m = false -> case_index (cases_of m) tag 0 = Some (idx, var) ->
  idx = tag /\ nth_error (e_variants m) (N.to_nat tag) = Some var.
Proof.
  intros m tag idx var Hs H. unfold cases_of in H. rewrite Hs in H.
  apply case_index_number_from in H as (_ & H2 & H3). rewrite N.sub_0_r in *.
  split; [lia | exact H3].
Qed.

(* ---------- sorted constructors ---------- *)
Definition vle (a b : N * variant) : Prop :=
  bytes_leb (v_name (snd a)) (v_name (snd b)) = true.

Lemma bytes_leb_total a b : bytes_leb a b = false -> bytes_leb b a = true.
Proof.
  revert b. induction a as [|x a IH]; intros [|y b]; cbn [bytes_leb]; try discriminate; auto.
  destruct (x <? y) eqn:E1; [discriminate|].
  destruct (y <? x) eqn:E2; [reflexivity|]. apply IH.
Qed.

Lemma bytes_leb_refl a : bytes_leb a a = true.
Proof. induction a as [|x a IH]; cbn [bytes_leb]; [reflexivity|]. rewrite N.ltb_irrefl. exact IH. Qed.

Lemma bytes_leb_trans a : forall b c,
  bytes_leb a b = true -> bytes_leb b c = true -> bytes_leb a c = true.
Proof.
  induction a as [|x a IH]; intros [|y b] [|z c]; cbn [bytes_leb]; try discriminate; auto.
  intros H1 H2.
  destruct (x <? y) eqn:E1; destruct (y <? x) eqn:E2; destruct (y <? z) eqn:E3;
    destruct (z <? y) eqn:E4; try discriminate;
    destruct (x <? z) eqn:E5; try reflexivity; destruct (z <? x) eqn:E6; try lia.
  eapply IH; eassumption.
Qed.

Lemma bytes_leb_antisym a : forall b, bytes_leb a b = true -> bytes_leb b a = true -> a = b.
Proof.
  induction a as [|x a IH]; intros [|y b]; cbn [bytes_leb]; try discriminate; auto.
  destruct (x <? y) eqn:E1; destruct (y <? x) eqn:E2; try discriminate; try lia.
  intros H1 H2. f_equal; [lia | apply IH; assumption].
Qed.

Lemma insert_variant_perm x l : Permutation (insert_variant x l) (x :: l).
Proof.
  induction l as [|y r IH]; cbn [insert_variant]; [reflexivity|].
  destruct (bytes_leb _ _); [|reflexivity].
  eapply perm_trans; [apply perm_skip; exact IH | apply perm_swap].
Qed.

Lemma insert_variant_sorted x l : StronglySorted vle l -> StronglySorted vle (insert_variant x l).
Proof.
  induction 1 as [|y r Hr IH Hy]; cbn [insert_variant].
  - constructor; constructor.
  - destruct (bytes_leb (v_name (snd y)) (v_name (snd x))) eqn:E.
    + constructor; [exact IH|]. apply Forall_forall. intros z Hz.
      apply insert_variant_In in Hz as [-> | Hz]; [exact E|].
      rewrite Forall_forall in Hy. apply Hy. exact Hz.
    + constructor; [constructor; assumption|]. apply bytes_leb_total in E.
      constructor; [exact E|]. eapply Forall_impl; [|exact Hy].
      intros z Hz. unfold vle in *. eapply bytes_leb_trans; eassumption.
Qed.

Lemma sort_variants_fold l : forall acc,
  StronglySorted vle acc ->
  Permutation (fold_left (fun acc x => insert_variant x acc) l acc) (acc ++ l) /\
  StronglySorted vle (fold_left (fun acc x => insert_variant x acc) l acc).
Proof.
  induction l as [|x l IH]; intros acc Hs; cbn [fold_left].
  - rewrite app_nil_r. split; [reflexivity | exact Hs].
  - destruct (IH (insert_variant x acc) (insert_variant_sorted x acc Hs)) as [Hp Hs'].
    split; [|exact Hs'].
    eapply perm_trans; [exact Hp|].
    eapply perm_trans; [apply Permutation_app_tail; apply insert_variant_perm|].
    cbn [app]. apply Permutation_middle.
Qed.

Lemma sort_variants_spec l :
  Permutation (sort_variants l) l /\ StronglySorted vle (sort_variants l).
Proof. unfold sort_variants. apply (sort_variants_fold l []). constructor. Qed.

Theorem C13_sorted : forall m, e_sorted m = true ->
  Permutation (cases_of m) (number_from 0 (e_variants m)) /\
  StronglySorted (fun a b => bytes_leb (v_name (snd a)) (v_name (snd b)) = true) (cases_of m).
Proof. intros m Hs. unfold cases_of. rewrite Hs. apply sort_variants_spec. Qed.

(* in both modes the case list is a permutation of the numbered variants *)
Lemma cases_of_perm m : Permutation (cases_of m) (number_from 0 (e_variants m)).
Proof.
  unfold cases_of. destruct (e_sorted m); [apply sort_variants_spec | reflexivity].
Qed.

Lemma number_from_length {A} (l : list A) : forall i, length (number_from i l) = length l.
Proof. induction l as [|x l IH]; intros i; cbn [number_from length]; [|rewrite IH]; reflexivity. Qed.

Lemma nlen_cases_of m : nlen (cases_of m) = nlen (e_variants m).
Proof.
  rewrite !nlen_length. rewrite (Permutation_length (cases_of_perm m)), number_from_length.
  reflexivity.
Qed.

(* ---------- writing a transient constructor ---------- *)
Theorem C13_transient_ser : forall encf tyname m tag payload st idx var,
  case_index (cases_of m) tag 0 = Some (idx, var) -> v_transient var = true ->
  enc_enum encf tyname m (VNode tag payload) st = Err (ESerTransientCtor (v_name var) tyname).
Proof. intros encf tyname m tag payload st idx var Hc Ht. unfold enc_enum. rewrite Hc, Ht. reflexivity. Qed.

(* ---------- reading: the chain of read_constructor attempts ---------- *)
(* the AdtDeserializer of an enum value after its constructor index has been read *)
Definition adi (i : N) : @adt_de bytes := mkAd [(-1)%Z] (Some i) 0 [] [] [].

Lemma read_ctor_idx_first i s k st : i < 2^32 ->
  read_ctor_idx a_ops (ad_new_v0 []) (mkA (write_var_u32 i ++ s) k st) = Ok (i, adi i, mkA s k st).
Proof.
  intros Hi. unfold read_ctor_idx, ad_new_v0. cbn [ad_ctor]. unfold in_chunk. cbn [ad_inputs].
  change (d_rd a_ops) with a_reader.
  rewrite (a_read_var_u32 k st _ i s) by (apply var_u32_roundtrip_list; exact Hi).
  reflexivity.
Qed.

Lemma read_ctor_idx_some i (ad : @adt_de bytes) s :
  ad_ctor ad = Some i -> read_ctor_idx a_ops ad s = Ok (i, ad, s).
Proof. intros H. unfold read_ctor_idx. rewrite H. reflexivity. Qed.

Lemma read_cases_first decf tyname cs idx i s k st : i < 2^32 ->
  read_cases a_ops decf tyname cs idx (ad_new_v0 []) (mkA (write_var_u32 i ++ s) k st)
  = read_cases a_ops decf tyname cs idx (adi i) (mkA s k st).
Proof.
  intros Hi. destruct cs as [|[d var] r]; cbn [read_cases];
    rewrite (read_ctor_idx_first i s k st Hi), (read_ctor_idx_some i (adi i)) by reflexivity;
    reflexivity.
Qed.

Lemma read_cases_miss decf tyname i : forall cs idx s,
  i < idx \/ idx + nlen cs <= i ->
  read_cases a_ops decf tyname cs idx (adi i) s = Err (EInvalidConstructorId i tyname).
Proof.
  induction cs as [|[d var] r IH]; intros idx s H; cbn [read_cases];
    rewrite (read_ctor_idx_some i (adi i)) by reflexivity; cbn [bind].
  - reflexivity.
  - cbn [nlen] in H. assert (i =? idx = false) as -> by lia. apply IH. lia.
Qed.

Lemma read_cases_hit decf tyname i : forall cs idx s d var,
  idx <= i -> nth_error cs (N.to_nat (i - idx)) = Some (d, var) ->
  read_cases a_ops decf tyname cs idx (adi i) s =
    if v_transient var then Err (EDeTransientCtor (v_name var) tyname)
    else '(v, _, s) <- in_chunk a_ops (adi i) 0 (dec_record a_ops decf (v_rec var)) s ;;
         match v with VNode _ vs => Ok (VNode d vs, s) | _ => Err EIllTyped end.
Proof.
  induction cs as [|[d0 var0] r IH]; intros idx s d var Hle Hn.
  - destruct (N.to_nat (i - idx)); discriminate.
  - cbn [read_cases]. rewrite (read_ctor_idx_some i (adi i)) by reflexivity. cbn [bind].
    destruct (i =? idx) eqn:E.
    + apply N.eqb_eq in E. subst. rewrite N.sub_diag in Hn. cbn in Hn. injection Hn as -> ->.
      reflexivity.
    + replace (N.to_nat (i - idx)) with (Datatypes.S (N.to_nat (i - (idx + 1)))) in Hn by lia.
      cbn [nth_error] in Hn. apply IH; [lia | exact Hn].
Qed.

Lemma dec_enum_open decf tyname m i s k st : i < 2^32 ->
  dec_enum a_ops decf tyname m (mkA (0 :: write_var_u32 i ++ s) k st)
  = read_cases a_ops decf tyname (cases_of m) 0 (adi i) (mkA s k st).
Proof.
  intros Hi. unfold dec_enum, ad_open. change (d_rd a_ops) with a_reader. rewrite a_r_u8.
  cbn [bind N.eqb]. apply read_cases_first. exact Hi.
Qed.

Theorem C13_out_of_range : forall decf tyname m i s k st,
  nlen (cases_of m) <= i -> i < 2^32 ->
  dec_enum a_ops decf tyname m (mkA (0 :: write_var_u32 i ++ s) k st)
  = Err (EInvalidConstructorId i tyname).
Proof.
  intros decf tyname m i s k st Hn Hi. rewrite dec_enum_open by exact Hi.
  apply read_cases_miss. right. lia.
Qed.

Corollary C13_out_of_range' : forall decf tyname m i s k st,
  nlen (e_variants m) <= i -> i < 2^32 ->
  dec_enum a_ops decf tyname m (mkA (0 :: write_var_u32 i ++ s) k st)
  = Err (EInvalidConstructorId i tyname).
Proof. intros. apply C13_out_of_range; [rewrite nlen_cases_of|]; assumption. Qed.

Theorem C13_transient_de : forall decf tyname m i d var s k st,
  nth_error (cases_of m) (N.to_nat i) = Some (d, var) -> v_transient var = true -> i < 2^32 ->
  dec_enum a_ops decf tyname m (mkA (0 :: write_var_u32 i ++ s) k st)
  = Err (EDeTransientCtor (v_name var) tyname).
Proof.
  intros decf tyname m i d var s k st Hn Ht Hi. rewrite dec_enum_open by exact Hi.
  rewrite (read_cases_hit decf tyname i (cases_of m) 0 _ d var) by (rewrite ?N.sub_0_r; auto; lia).
  rewrite Ht. reflexivity.
Qed.

(* ---------- extension ---------- *)
Lemma read_cases_app {S Rg} (D : dops S Rg) decf tyname extra : forall cs idx ad s r,
  read_cases D decf tyname cs idx ad s = Ok r ->
  read_cases D decf tyname (cs ++ extra) idx ad s = Ok r.
Proof.
  induction cs as [|[d var] cs IH]; intros idx ad s r H.
  - cbn [read_cases] in H. destruct (read_ctor_idx D ad s) as [[[i ad'] s']| | |]; discriminate.
  - cbn [app read_cases] in *.
    destruct (read_ctor_idx D ad s) as [[[i ad'] s']| | |]; try discriminate.
    cbn [bind] in *. destruct (i =? idx); [exact H|]. apply IH. exact H.
Qed.

(* for every input model, not only layer A *)
Theorem C13_extension_gen : forall {S Rg} (D : dops S Rg) decf tyname m m' extra s0 r,
  cases_of m' = cases_of m ++ extra ->
  dec_enum D decf tyname m s0 = Ok r -> dec_enum D decf tyname m' s0 = Ok r.
Proof.
  intros S Rg D decf tyname m m' extra s0 r Hc H. unfold dec_enum in *.
  destruct (ad_open D [] s0) as [[ad s]| | |]; try discriminate. cbn [bind] in *.
  rewrite Hc. apply read_cases_app. exact H.
Qed.

Theorem C13_extension : forall decf tyname m m' extra s0 r,
  cases_of m' = cases_of m ++ extra ->
  dec_enum a_ops decf tyname m s0 = Ok r -> dec_enum a_ops decf tyname m' s0 = Ok r.
Proof. intros. eapply C13_extension_gen; eassumption. Qed.

(* the hypothesis of C13_extension holds when variants are appended to an unsorted enum *)
Lemma number_from_app {A} (l1 l2 : list A) : forall i,
  number_from i (l1 ++ l2) = number_from i l1 ++ number_from (i + nlen l1) l2.
Proof.
  induction l1 as [|x l1 IH]; intros i; cbn [app number_from nlen].
  - rewrite N.add_0_r. reflexivity.
  - rewrite IH. do 3 f_equal. lia.
Qed.

Lemma cases_of_append m new :
  e_sorted m = false ->
  cases_of (mkE false (e_variants m ++ new))
  = cases_of m ++ number_from (nlen (e_variants m)) new.
Proof.
  intros Hs. unfold cases_of. rewrite Hs. cbn [e_sorted e_variants].
  rewrite number_from_app, N.add_0_l. reflexivity.
Qed.

(* ================================================================== *)
(*                     C12 — the two sequence forms                    *)
(* ================================================================== *)

Theorem C12_encode_indep : forall f E k1 k2 e v st,
  byte_path k1 e = false -> byte_path k2 e = false ->
  enc f E (TSeq k1 e) v st = enc f E (TSeq k2 e) v st.
Proof.
  intros f E k1 k2 e v st H1 H2. destruct f as [|f]; [reflexivity|].
  cbn [enc]. rewrite H1, H2. reflexivity.
Qed.

(* the side condition holds for every container as soon as the element type is not u8,
   and for lists and sets whatever the element type *)
Lemma byte_path_not_u8 k e : is_u8 e = false -> byte_path k e = false.
Proof. intros H. unfold byte_path. rewrite H. reflexivity. Qed.

Lemma byte_path_not_vec k e :
  match k with KLinkedList | KHashSet | KBTreeSet => True | _ => False end -> byte_path k e = false.
Proof. unfold byte_path. destruct k; intros []; apply andb_false_r. Qed.

Lemma dec_unknown_S {S Rg} (D : dops S Rg) fuel d s :
  dec_unknown D (Datatypes.S fuel) d s =
    ('(tag, s) <- r_u8 (d_rd D) s ;;
     if tag =? 0 then Ok ([], s)
     else if tag =? 1 then
       '(x, s) <- d s ;; '(xs, s) <- dec_unknown D fuel d s ;; Ok (x :: xs, s)
     else Err EDeserializationFailure).
Proof. reflexivity. Qed.

Lemma rt_items_flagged e d w nv :
  rt_pair e d w nv ->
  forall fuel vs st b st' s k,
    forallb w vs = true -> enc_items_flagged fuel e vs st = Ok (b, st') ->
    dec_unknown a_ops (S fuel) d (mkA (b ++ s) k st) = Ok (map nv vs, mkA s k st').
Proof.
  intros RT. induction fuel as [|fl IH]; intros vs st b st' s k Hw Henc.
  - destruct vs as [|v vs]; [|discriminate]. cbn in Henc. injection Henc as <- <-. reflexivity.
  - destruct vs as [|v vs].
    + cbn in Henc. injection Henc as <- <-. reflexivity.
    + cbn [forallb] in Hw. apply andb_true_iff in Hw as [Hv Hw].
      cbn [enc_items_flagged] in Henc.
      destruct (e v st) as [[b1 st1]| | |] eqn:E1; try discriminate. cbn [bind] in Henc.
      destruct (enc_items_flagged fl e vs st1) as [[b2 st2]| | |] eqn:E2; try discriminate.
      cbn [bind] in Henc. apply ok_pair_inj in Henc as [<- <-].
      rewrite dec_unknown_S. change (d_rd a_ops) with a_reader. cbn [app]. rewrite a_r_u8.
      cbn [bind N.eqb Pos.eqb]. rewrite <- app_assoc.
      rewrite (RT v st b1 st1 (b2 ++ s) k Hv E1). cbn [bind].
      rewrite (IH vs st1 b2 st2 s k Hw E2). reflexivity.
Qed.

Theorem C12_unknown_form : forall e d w nv, rt_pair e d w nv ->
  forall fuel vs st b st' s k, forallb w vs = true -> enc_seq_unknown fuel e vs st = Ok (b, st') ->
  dec_seq_items a_ops (S fuel) d (mkA (b ++ s) k st) = Ok (map nv vs, mkA s k st').
Proof.
  intros e d w nv RT fuel vs st b st' s k Hw Henc. unfold enc_seq_unknown in Henc.
  destruct (enc_items_flagged fuel e vs st) as [[b1 st1]| | |] eqn:E1; try discriminate.
  cbn [bind] in Henc. apply ok_pair_inj in Henc as [<- <-].
  unfold dec_seq_items. change (d_rd a_ops) with a_reader. rewrite <- app_assoc.
  rewrite (a_read_var_i32 k st _ (-1)%Z (b1 ++ s))
    by (apply var_i32_roundtrip_list; change (2 ^ 31)%Z with 2147483648%Z; lia).
  cbv beta iota. change (-1 =? -1)%Z with true. cbv beta iota.
  apply (rt_items_flagged e d w nv RT); assumption.
Qed.

(* the two writers succeed together and leave the same string table *)
Lemma enc_items_flagged_of_items e : forall fuel vs st b st',
  enc_items fuel e vs st = Ok (b, st') ->
  exists b', enc_items_flagged fuel e vs st = Ok (b', st').
Proof.
  induction fuel as [|fl IH]; intros vs st b st' H.
  - destruct vs; [|discriminate]. cbn in H. apply ok_pair_inj in H as [<- <-]. eexists. reflexivity.
  - destruct vs as [|v vs].
    + cbn in H. apply ok_pair_inj in H as [<- <-]. eexists. reflexivity.
    + cbn [enc_items] in H. cbn [enc_items_flagged].
      destruct (e v st) as [[b1 st1]| | |]; try discriminate. cbn [bind] in *.
      destruct (enc_items fl e vs st1) as [[b2 st2]| | |] eqn:E2; try discriminate.
      cbn [bind] in H. apply ok_pair_inj in H as [<- <-].
      destruct (IH vs st1 b2 st2 E2) as [b' ->]. cbn [bind]. eexists. reflexivity.
Qed.

Lemma enc_seq_unknown_of_seq e fuel vs st b st' :
  enc_seq fuel e vs st = Ok (b, st') -> exists b', enc_seq_unknown fuel e vs st = Ok (b', st').
Proof.
  unfold enc_seq, enc_seq_unknown. destruct (nlen vs <? 2 ^ 31); [|discriminate].
  destruct (enc_items fuel e vs st) as [[b1 st1]| | |] eqn:E1; try discriminate.
  cbn [bind]. intros H. apply ok_pair_inj in H as [<- <-].
  destruct (enc_items_flagged_of_items e fuel vs st b1 st1 E1) as [b' ->]. cbn [bind].
  eexists. reflexivity.
Qed.

Theorem C12_forms_agree : forall e d w nv, rt_pair e d w nv ->
  forall fuel vs st b1 b2 st1 st2 s k, forallb w vs = true ->
  enc_seq fuel e vs st = Ok (b1, st1) -> enc_seq_unknown fuel e vs st = Ok (b2, st2) ->
  st1 = st2 /\
  dec_seq_items a_ops (S fuel) d (mkA (b1 ++ s) k st)
  = dec_seq_items a_ops (S fuel) d (mkA (b2 ++ s) k st).
Proof.
  intros e d w nv RT fuel vs st b1 b2 st1 st2 s k Hw H1 H2.
  assert (Hst : st1 = st2).
  { destruct (enc_seq_unknown_of_seq e fuel vs st b1 st1 H1) as [b' H']. congruence. }
  split; [exact Hst|].
  rewrite (C12_unknown_form e d w nv RT fuel vs st b2 st2 s k Hw H2).
  pose proof (rt_seq e d w nv RT fuel vs st b1 st1 s k Hw H1) as Hd.
  pose proof (dec_seq_items_mono a_ops fuel (S fuel) d d (mkA (b1 ++ s) k st)
                ltac:(lia) (extends_refl d)) as Hm.
  rewrite Hd in Hm. rewrite (Hm ltac:(discriminate)). subst. reflexivity.
Qed.

(* both forms decode to the value, with the common fuel *)
Corollary C12_forms_decode : forall e d w nv, rt_pair e d w nv ->
  forall fuel vs st b1 b2 st1 st2 s k, forallb w vs = true ->
  enc_seq fuel e vs st = Ok (b1, st1) -> enc_seq_unknown fuel e vs st = Ok (b2, st2) ->
  dec_seq_items a_ops (S fuel) d (mkA (b1 ++ s) k st) = Ok (map nv vs, mkA s k st1) /\
  dec_seq_items a_ops (S fuel) d (mkA (b2 ++ s) k st) = Ok (map nv vs, mkA s k st1).
Proof.
  intros e d w nv RT fuel vs st b1 b2 st1 st2 s k Hw H1 H2.
  destruct (C12_forms_agree e d w nv RT fuel vs st b1 b2 st1 st2 s k Hw H1 H2) as [-> Heq].
  rewrite Heq. split; apply (C12_unknown_form e d w nv RT fuel vs st b2 st2 s k Hw H2).
Qed.

(* ================================================================== *)
(*              C14 — transient fields never reach the wire            *)
(* ================================================================== *)

Fixpoint agree_written (fs : list field) (vs vs' : list val) : Prop :=
  match fs, vs, vs' with
  | [], [], [] => True
  | f :: fs', v :: r, v' :: r' => (f_transient f = None -> v = v') /\ agree_written fs' r r'
  | _, _, _ => False
  end.

Lemma enc_fields_v0_agree encf : forall fs vs vs' st,
  agree_written fs vs vs' -> enc_fields_v0 encf fs vs st = enc_fields_v0 encf fs vs' st.
Proof.
  induction fs as [|f fs IH]; intros [|v r] [|v' r'] st H; cbn [agree_written] in H;
    try contradiction; try reflexivity.
  destruct H as [Hv Hr]. cbn [enc_fields_v0]. destruct (f_transient f) eqn:E.
  - apply IH. exact Hr.
  - rewrite (Hv eq_refl). destruct (encf (f_ty f) v' st) as [[b1 st1]| | |]; cbn [bind]; try reflexivity.
    rewrite (IH r r' st1 Hr). reflexivity.
Qed.

Lemma enc_fields_chunked_agree encf steps : forall fs vs vs' ss st,
  agree_written fs vs vs' ->
  enc_fields_chunked encf steps fs vs ss st = enc_fields_chunked encf steps fs vs' ss st.
Proof.
  induction fs as [|f fs IH]; intros [|v r] [|v' r'] ss st H; cbn [agree_written] in H;
    try contradiction; try reflexivity.
  destruct H as [Hv Hr]. cbn [enc_fields_chunked]. destruct (f_transient f) eqn:E.
  - apply IH. exact Hr.
  - rewrite (Hv eq_refl). cbv zeta.
    destruct (encf (f_ty f) v' st) as [[b1 st1]| | |]; cbn [bind]; try reflexivity.
    destruct (app_nth _ _ b1); [|reflexivity].
    destruct (ser_record_index _ _ _) as [ss1| | |]; cbn [bind]; try reflexivity.
    apply IH. exact Hr.
Qed.

Theorem C14_no_bytes : forall encf m vs vs' st,
  agree_written (r_fields m) vs vs' -> enc_record encf m vs st = enc_record encf m vs' st.
Proof.
  intros encf m vs vs' st H. unfold enc_record. destruct (r_steps m) as [|s0 steps].
  - rewrite (enc_fields_v0_agree encf _ vs vs' st H). reflexivity.
  - cbv zeta. destruct (255 <=? _); [reflexivity|].
    destruct (prerender_names _ _ st) as [[pre st1]| | |]; cbn [bind]; try reflexivity.
    rewrite (enc_fields_chunked_agree encf _ _ vs vs' _ st1 H). reflexivity.
Qed.

(* ---------- the header of a chunked record ---------- *)
(* what prerender_names guarantees about the entry it prepares for each step *)
Definition pre_ok (all : list step) (s : step) (p : option bytes) : Prop :=
  match s with
  | SRemoved _ | SMadeTransient _ => p <> None
  | SMadeOptional n => in_removed all n = true -> p <> None
  | SAdded _ _ => True
  end.

Lemma prerender_names_spec : forall s all st pre st',
  prerender_names s all st = Ok (pre, st') -> Forall2 (pre_ok all) s pre.
Proof.
  induction s as [|x r IH]; intros all st pre st' H.
  - cbn [prerender_names] in H. apply ok_pair_inj in H as [<- _]. constructor.
  - destruct x as [n dflt|n|n|n]; cbn [prerender_names] in H.
    + destruct (prerender_names r all st) as [[rest st1]| | |] eqn:E; try discriminate.
      cbn [bind] in H. apply ok_pair_inj in H as [<- _].
      constructor; [exact I | eapply IH; exact E].
    + destruct (in_removed all n) eqn:Er.
      * destruct (enc_dedup n st) as [[b st0]| | |]; try discriminate. cbn [bind] in H.
        destruct (prerender_names r all st0) as [[rest st1]| | |] eqn:E; try discriminate.
        cbn [bind] in H. apply ok_pair_inj in H as [<- _].
        constructor; [intros _; discriminate | eapply IH; exact E].
      * destruct (prerender_names r all st) as [[rest st1]| | |] eqn:E; try discriminate.
        cbn [bind] in H. apply ok_pair_inj in H as [<- _].
        constructor; [cbn [pre_ok]; congruence | eapply IH; exact E].
    + destruct (enc_dedup n st) as [[b st0]| | |]; try discriminate. cbn [bind] in H.
      destruct (prerender_names r all st0) as [[rest st1]| | |] eqn:E; try discriminate.
      cbn [bind] in H. apply ok_pair_inj in H as [<- _].
      constructor; [discriminate | eapply IH; exact E].
    + destruct (enc_dedup n st) as [[b st0]| | |]; try discriminate. cbn [bind] in H.
      destruct (prerender_names r all st0) as [[rest st1]| | |] eqn:E; try discriminate.
      cbn [bind] in H. apply ok_pair_inj in H as [<- _].
      constructor; [discriminate | eapply IH; exact E].
Qed.

Lemma Forall2_len {A B} (R : A -> B -> Prop) l l' : Forall2 R l l' -> length l = length l'.
Proof. induction 1; cbn [length]; congruence. Qed.

Lemma prerender_names_length s all st pre st' :
  prerender_names s all st = Ok (pre, st') -> length pre = length s.
Proof. intros H. apply prerender_names_spec in H. symmetry. eapply Forall2_len. exact H. Qed.

Lemma bind_err {A B} (m : outcome A) (k : A -> outcome B) e :
  bind m k = Err e -> m = Err e \/ exists a, m = Ok a /\ k a = Err e.
Proof.
  destruct m as [a|e0|p|]; cbn [bind]; intros H; try discriminate.
  - right. exists a. split; [reflexivity | exact H].
  - left. congruence.
Qed.

Lemma chunk_size_entry_err chunks i e : chunk_size_entry chunks i = Err e -> e = ELengthTooLarge.
Proof.
  unfold chunk_size_entry. destruct (nth_error chunks i); [|discriminate].
  destruct (_ <? _); [discriminate|]. congruence.
Qed.

Lemma field_position_byte_not_err c pos e : field_position_byte c pos <> Err e.
Proof.
  unfold field_position_byte. destruct (c =? 0); [|discriminate]. cbv zeta.
  destruct (_ =? _)%Z; discriminate.
Qed.

(* the only errors of the header are ELengthTooLarge (a chunk over i32::MAX bytes) and
   EUnknownFieldRef for a FieldMadeOptional step whose field is neither written nor removed *)
Theorem C14_header_ok : forall all steps pre ss i e,
  Forall2 (pre_ok all) steps pre ->
  (forall n, In (SMadeOptional n) steps ->
             assoc_name n (ss_idx ss) <> None \/ in_removed all n = true) ->
  header_entries steps pre ss i = Err e -> e = ELengthTooLarge.
Proof.
  intros all steps pre ss i e HF. revert i. induction HF as [|s p r pr Hp HF IH]; intros i Hmo H.
  - cbn [header_entries] in H. discriminate.
  - cbn [header_entries] in H. apply bind_err in H as [H | (e0 & _ & H)].
    + destruct s as [n dflt|n|n|n]; cbn [pre_ok] in Hp.
      * eapply chunk_size_entry_err. exact H.
      * destruct (assoc_name n (ss_idx ss)) as [[c pos]|] eqn:Ea.
        -- apply bind_err in H as [H | (b & _ & H)]; [|discriminate].
           apply field_position_byte_not_err in H. contradiction.
        -- destruct (Hmo n (or_introl eq_refl)) as [Hw | Hr]; [congruence|].
           destruct p; [discriminate|]. specialize (Hp Hr). congruence.
      * destruct p; [discriminate | congruence].
      * destruct p; [discriminate | congruence].
    + apply bind_err in H as [H | (rest & _ & H)]; [|discriminate].
      apply (IH (S i)); [|exact H]. intros n Hn. apply Hmo. right. exact Hn.
Qed.

Corollary C14_header_no_unknown_ref : forall steps st pre st' ss i n,
  prerender_names steps steps st = Ok (pre, st') ->
  (forall n, In (SMadeOptional n) steps ->
             assoc_name n (ss_idx ss) <> None \/ in_removed steps n = true) ->
  header_entries steps pre ss i <> Err (EUnknownFieldRef n).
Proof.
  intros steps st pre st' ss i n Hpre Hmo H. apply prerender_names_spec in Hpre.
  apply (C14_header_ok steps steps pre ss i _ Hpre Hmo) in H. discriminate.
Qed.

(* ---------- the same at the level of enc_record and enc ---------- *)
Definition is_written (f : field) : bool :=
  match f_transient f with None => true | Some _ => false end.
Definition written_names (fs : list field) : list name := map f_name (filter is_written fs).

(* every FieldMadeOptional step names a field that is written, or that another step removed
   or made transient *)
Definition mo_ok (m : rmeta) : Prop :=
  forall n, In (SMadeOptional n) (r_steps m) ->
            In n (written_names (r_fields m)) \/ in_removed (r_steps m) n = true.

Definition noref {A} (m : outcome A) : Prop := forall n, m <> Err (EUnknownFieldRef n).

Lemma noref_bind {A B} (m : outcome A) (k : A -> outcome B) :
  noref m -> (forall a, m = Ok a -> noref (k a)) -> noref (bind m k).
Proof.
  intros Hm Hk n H. apply bind_err in H as [H | (a & Ha & H)].
  - exact (Hm n H).
  - exact (Hk a Ha n H).
Qed.

Ltac nr := let n := fresh "n" in intros n; discriminate.

Lemma noref_ok {A} (a : A) : noref (Ok a).
Proof. nr. Qed.

Lemma assoc_name_cons_some {A} n n' (x : A) l :
  (n' = n \/ assoc_name n l <> None) -> assoc_name n ((n', x) :: l) <> None.
Proof.
  cbn [assoc_name]. intros [-> | H].
  - rewrite bytes_eqb_refl. discriminate.
  - destruct (bytes_eqb n' n); [discriminate | exact H].
Qed.

Lemma ser_record_index_idx ss n chunk ss' :
  ser_record_index ss n chunk = Ok ss' ->
  exists x, ss_idx ss' = (n, x) :: ss_idx ss.
Proof.
  unfold ser_record_index. destruct (assoc_N chunk (ss_last ss)) as [li|].
  - destruct (li + 1 <? 256); [|discriminate]. intros H. injection H as <-. eexists. reflexivity.
  - intros H. injection H as <-. eexists. reflexivity.
Qed.

Lemma enc_fields_chunked_idx encf steps : forall fs vs ss st ss' st',
  enc_fields_chunked encf steps fs vs ss st = Ok (ss', st') ->
  forall n, assoc_name n (ss_idx ss) <> None \/ In n (written_names fs) ->
            assoc_name n (ss_idx ss') <> None.
Proof.
  induction fs as [|f fs IH]; intros [|v vs] ss st ss' st' H n Hn; cbn [enc_fields_chunked] in H;
    try discriminate.
  - apply ok_pair_inj in H as [<- _]. destruct Hn as [Hn | []]. exact Hn.
  - unfold written_names in Hn. cbn [filter] in Hn. unfold is_written at 1 in Hn.
    destruct (f_transient f) as [dflt|].
    + eapply IH; [exact H | exact Hn].
    + cbv zeta in H. destruct (encf (f_ty f) v st) as [[b st1]| | |]; try discriminate.
      cbn [bind] in H. destruct (app_nth _ _ b) as [chunks|]; [|discriminate].
      destruct (ser_record_index _ _ _) as [ss1| | |] eqn:Es; try discriminate. cbn [bind] in H.
      apply ser_record_index_idx in Es as [x Ex]. cbn [ss_idx] in Ex.
      eapply IH; [exact H|]. cbn [map In] in Hn. destruct Hn as [Hn | [Hn | Hn]].
      * left. rewrite Ex. apply assoc_name_cons_some. right. exact Hn.
      * left. rewrite Ex. apply assoc_name_cons_some. left. exact Hn.
      * right. exact Hn.
Qed.

Lemma enc_dedup_noref bs st : noref (enc_dedup bs st).
Proof.
  intros n. unfold enc_dedup, enc_string. destruct (str_id bs st).
  - destruct (_ <? _); discriminate.
  - destruct (_ <? _); [|discriminate]. destruct (_ <? _); discriminate.
Qed.

Lemma prerender_names_noref : forall s all st, noref (prerender_names s all st).
Proof.
  induction s as [|x r IH]; intros all st; cbn [prerender_names]; [apply noref_ok|].
  destruct x as [n dflt|n|n|n]; try destruct (in_removed all n);
    repeat first [ apply noref_ok | apply enc_dedup_noref | apply IH
                 | apply noref_bind; [| intros [? ?] _] ].
Qed.

Lemma enc_fields_v0_noref encf : (forall t v st, noref (encf t v st)) ->
  forall fs vs st, noref (enc_fields_v0 encf fs vs st).
Proof.
  intros He. induction fs as [|f fs IH]; intros [|v vs] st; cbn [enc_fields_v0];
    try apply noref_ok; try nr.
  destruct (f_transient f); [apply IH|].
  apply noref_bind; [apply He|]. intros [b1 st1] _.
  apply noref_bind; [apply IH|]. intros [b2 st2] _. apply noref_ok.
Qed.

Lemma enc_fields_chunked_noref encf steps : (forall t v st, noref (encf t v st)) ->
  forall fs vs ss st, noref (enc_fields_chunked encf steps fs vs ss st).
Proof.
  intros He. induction fs as [|f fs IH]; intros [|v vs] ss st; cbn [enc_fields_chunked];
    try apply noref_ok; try nr.
  destruct (f_transient f); [apply IH|]. cbv zeta.
  apply noref_bind; [apply He|]. intros [b1 st1] _.
  destruct (app_nth _ _ b1); [|nr].
  apply noref_bind; [|intros; apply IH].
  unfold ser_record_index. intros n. destruct (assoc_N _ _); [destruct (_ <? _)|]; discriminate.
Qed.

Theorem C14_record_no_unknown_ref : forall encf m vs st,
  (forall t v st, noref (encf t v st)) -> mo_ok m -> noref (enc_record encf m vs st).
Proof.
  intros encf m vs st He Hmo. unfold enc_record. destruct (r_steps m) as [|s0 steps] eqn:Es.
  - apply noref_bind; [apply enc_fields_v0_noref; exact He|]. intros [b st1] _. apply noref_ok.
  - cbv zeta. destruct (255 <=? _); [nr|]. rewrite <- Es in *.
    apply noref_bind; [apply prerender_names_noref|]. intros [pre st1] Hpre.
    apply noref_bind; [apply enc_fields_chunked_noref; exact He|]. intros [ss st2] Hfs.
    apply noref_bind.
    { intros n H. apply chunk_size_entry_err in H. discriminate. }
    intros e0 _. apply noref_bind; [|intros; apply noref_ok].
    intros n. eapply C14_header_no_unknown_ref; [exact Hpre|].
    intros n' Hn'. destruct (Hmo n' Hn') as [Hw | Hr]; [left | right; exact Hr].
    eapply enc_fields_chunked_idx; [exact Hfs | right; exact Hw].
Qed.

Definition mo_ok_decl (d : tdecl) : Prop :=
  match d_body d with
  | DRecord m => mo_ok m
  | DEnum m => Forall (fun v => mo_ok (v_rec v)) (e_variants m)
  end.

Lemma mo_ok_tuple ts : mo_ok (tuple_meta ts).
Proof. intros n []. Qed.

Lemma case_index_In : forall cs tag i idx var,
  case_index cs tag i = Some (idx, var) -> In (tag, var) cs.
Proof.
  induction cs as [|[d v] r IH]; intros tag i idx var H; cbn [case_index] in H; [discriminate|].
  destruct (d =? tag) eqn:E.
  - apply N.eqb_eq in E. subst. injection H as _ ->. left. reflexivity.
  - right. eapply IH. exact H.
Qed.

Lemma enc_items_noref e : (forall v st, noref (e v st)) ->
  forall fuel vs st, noref (enc_items fuel e vs st).
Proof.
  intros He. induction fuel as [|fl IH]; intros [|v vs] st; cbn [enc_items];
    try apply noref_ok; try nr.
  apply noref_bind; [apply He|]. intros [b1 st1] _.
  apply noref_bind; [apply IH|]. intros [b2 st2] _. apply noref_ok.
Qed.

Lemma enc_seq_noref e fuel vs st : (forall v st, noref (e v st)) -> noref (enc_seq fuel e vs st).
Proof.
  intros He. unfold enc_seq. destruct (_ <? _); [|nr].
  apply noref_bind; [apply enc_items_noref; exact He|]. intros [b st1] _. apply noref_ok.
Qed.

Lemma of_opt_noref o st : noref (of_opt o st).
Proof. destruct o; nr. Qed.

Lemma enc_string_noref bs st : noref (enc_string bs st).
Proof. unfold enc_string. destruct (_ <? _); nr. Qed.

Lemma enc_bytes_noref bs st : noref (enc_bytes bs st).
Proof. unfold enc_bytes. destruct (_ <? _); nr. Qed.

Lemma enc_prim_noref p v st : noref (enc_prim p v st).
Proof.
  unfold enc_prim.
  destruct p; try apply of_opt_noref;
    destruct v as [x|z|bs|tag vs]; try nr;
    try apply enc_string_noref; try apply enc_bytes_noref; try apply enc_dedup_noref.
  all: repeat first
         [ nr
         | apply noref_ok
         | apply of_opt_noref | apply enc_string_noref
         | apply noref_bind; [| intros [? ?] _]
         | match goal with
           | |- noref (match ?x with _ => _ end) => destruct x
           | |- noref (if ?c then _ else _) => destruct c
           end ].
Qed.

(* a record whose field was made optional and later made transient (or removed) remains
   encodable: the encoder never fails with UnknownFieldReferenceInEvolutionStep when every
   FieldMadeOptional step names a field that is written or that another step removed or made
   transient *)
Theorem C14_enc_no_unknown_ref : forall f E, Forall mo_ok_decl E ->
  forall t v st, noref (enc f E t v st).
Proof.
  intros f E HE. induction f as [|f IH]; intros t v st; cbn [enc]; [nr|].
  destruct t as [p | t' | r e | ts | k e | k kt vt | w t' | | n].
  - apply enc_prim_noref.
  - destruct v as [?|?|?|tag vs]; try nr.
    destruct tag as [|[?|?|]]; try nr.
    + destruct vs; nr.
    + destruct vs as [|x [|? ?]]; try nr.
      apply noref_bind; [apply IH|]. intros [b st1] _. apply noref_ok.
  - destruct v as [?|?|?|tag vs]; try nr.
    destruct tag as [|[?|?|]]; try nr;
      (destruct vs as [|x [|? ?]]; try nr;
       apply noref_bind; [apply IH|]; intros [b st1] _; apply noref_ok).
  - destruct v as [?|?|?|tag vs]; try nr.
    destruct tag; try nr.
    apply C14_record_no_unknown_ref; [exact IH | apply mo_ok_tuple].
  - destruct (byte_path k e).
    + destruct v; try nr. unfold enc_bytes.
      destruct (_ <? _); nr.
    + destruct v as [?|?|?|tag vs]; try nr.
      destruct tag; try nr. apply enc_seq_noref. apply IH.
  - destruct v as [?|?|?|tag vs]; try nr.
    destruct tag; try nr. apply enc_seq_noref. apply IH.
  - apply IH.
  - destruct v as [?|?|?|tag vs]; try nr.
    destruct tag; try nr. destruct vs; nr.
  - destruct (lookup_decl E n) as [d|] eqn:Hd; [|nr].
    unfold lookup_decl in Hd. apply nth_error_In in Hd.
    rewrite Forall_forall in HE. specialize (HE d Hd). unfold mo_ok_decl in HE.
    destruct (d_body d) as [m|m].
    + destruct v as [?|?|?|tag vs]; try nr.
      destruct tag; try nr.
      apply C14_record_no_unknown_ref; [exact IH | exact HE].
    + unfold enc_enum. destruct v as [?|?|?|tag vs]; try nr.
      destruct (case_index (cases_of m) tag 0) as [[idx var]|] eqn:Ec; [|nr].
      destruct (v_transient var); [nr|].
      destruct (_ <=? _); [nr|].
      apply noref_bind; [|intros [b st1] _; apply noref_ok].
      apply C14_record_no_unknown_ref; [exact IH|].
      apply case_index_In in Ec. apply cases_of_In in Ec. cbn [snd] in Ec.
      rewrite Forall_forall in HE. apply HE. exact Ec.
Qed.

(* ================================================================== *)
(*                 C17 — the panics of the encoder                     *)
(* ================================================================== *)

Lemma C17_dedup_overflow : forall bs st p, enc_dedup bs st = Panic p -> 2^31 - 1 <= nlen st.
Proof.
  intros bs st p. unfold enc_dedup, enc_string. change (2 ^ 31) with 2147483648.
  destruct (str_id bs st) as [id|] eqn:Eid.
  - destruct (id <? 2147483648) eqn:E; [intros H; discriminate H|]. intros _.
    unfold str_id in Eid. apply str_find_bound in Eid. lia.
  - destruct (nlen st + 1 <? 2147483648) eqn:E.
    + destruct (nlen bs <? 2147483648); intros H; discriminate H.
    + intros _. lia.
Qed.

Lemma enc_dedup_panic_kind bs st p : enc_dedup bs st = Panic p -> p = POverflow.
Proof.
  unfold enc_dedup, enc_string. destruct (str_id bs st).
  - destruct (_ <? _); [discriminate | congruence].
  - destruct (_ <? _); [destruct (_ <? _); discriminate | congruence].
Qed.

(* the table only grows, and a panic is the overflow of the string-id counter in some
   enc_dedup call made on an extension of the initial table *)
Definition ext_of (st st' : strtab) : Prop := exists x, st' = st ++ x.
Definition dpanic (st : strtab) (p : pkind) : Prop :=
  p = POverflow /\ exists bs x, enc_dedup bs (st ++ x) = Panic POverflow.

Definition egoodP {A} (P : A -> Prop) (st : strtab) (m : outcome (A * strtab)) : Prop :=
  match m with
  | Ok (a, st') => P a /\ ext_of st st'
  | Panic p => dpanic st p
  | _ => True
  end.
Definition egood {A} (st : strtab) (m : outcome (A * strtab)) : Prop := egoodP (fun _ => True) st m.

Lemma ext_of_refl st : ext_of st st.
Proof. exists []. symmetry. apply app_nil_r. Qed.

Lemma ext_of_trans a b c : ext_of a b -> ext_of b c -> ext_of a c.
Proof. intros [x ->] [y ->]. exists (x ++ y). symmetry. apply app_assoc. Qed.

Lemma dpanic_ext st st1 p : ext_of st st1 -> dpanic st1 p -> dpanic st p.
Proof.
  intros [x ->] [Hp (bs & y & H)]. split; [exact Hp|]. exists bs, (x ++ y).
  rewrite app_assoc. exact H.
Qed.

Lemma egoodP_ext {A} (P : A -> Prop) st st1 m : ext_of st st1 -> egoodP P st1 m -> egoodP P st m.
Proof.
  intros He. destruct m as [[a st2]| | |]; cbn [egoodP]; auto.
  - intros [Pa H]. split; [exact Pa | eapply ext_of_trans; eassumption].
  - apply dpanic_ext. exact He.
Qed.

Lemma egoodP_bind {A B} (P : A -> Prop) (Q : B -> Prop) st (m : outcome (A * strtab))
    (k : A * strtab -> outcome (B * strtab)) :
  egoodP P st m ->
  (forall a st1, m = Ok (a, st1) -> P a -> ext_of st st1 -> egoodP Q st1 (k (a, st1))) ->
  egoodP Q st (bind m k).
Proof.
  intros Hm Hk. destruct m as [[a st1]| | |]; cbn [bind]; cbn [egoodP] in *; auto.
  destruct Hm as [Pa He]. eapply egoodP_ext; [exact He|]. apply Hk; auto.
Qed.

Lemma egood_bind {A B} (Q : B -> Prop) st (m : outcome (A * strtab))
    (k : A * strtab -> outcome (B * strtab)) :
  egood st m ->
  (forall a st1, m = Ok (a, st1) -> ext_of st st1 -> egoodP Q st1 (k (a, st1))) ->
  egoodP Q st (bind m k).
Proof. intros Hm Hk. eapply egoodP_bind; [exact Hm|]. intros; auto. Qed.

Lemma egoodP_ok {A} (P : A -> Prop) a st : P a -> egoodP P st (Ok (a, st)).
Proof. intros H. split; [exact H | apply ext_of_refl]. Qed.

Lemma egood_ok {A} (a : A) st : egood st (Ok (a, st)).
Proof. apply egoodP_ok. exact I. Qed.

Lemma egoodP_weaken {A} (P Q : A -> Prop) st m :
  egoodP P st m -> (forall a, P a -> Q a) -> egoodP Q st m.
Proof. destruct m as [[a st1]| | |]; cbn [egoodP]; auto. intros [H1 H2] H. auto. Qed.

(* a step that does not touch the string table *)
Lemma is_panic_bind {A B} (m : outcome A) (k : A -> outcome B) :
  is_panic m = false -> (forall a, m = Ok a -> is_panic (k a) = false) -> is_panic (bind m k) = false.
Proof. destruct m; cbn [bind is_panic]; auto; discriminate. Qed.

Lemma egoodP_bind_pure {A B} (Q : B -> Prop) st (m : outcome A) (k : A -> outcome (B * strtab)) :
  is_panic m = false -> (forall a, m = Ok a -> egoodP Q st (k a)) -> egoodP Q st (bind m k).
Proof. destruct m; cbn [bind is_panic]; intros H Hk; auto; try exact I. discriminate. Qed.

(* ---------- primitives ---------- *)
Lemma enc_string_good bs st : egood st (enc_string bs st).
Proof. unfold enc_string. destruct (_ <? _); [apply egood_ok | exact I]. Qed.

Lemma enc_bytes_good bs st : egood st (enc_bytes bs st).
Proof. unfold enc_bytes. destruct (_ <? _); [apply egood_ok | exact I]. Qed.

Lemma enc_dedup_good bs st : egood st (enc_dedup bs st).
Proof.
  unfold enc_dedup. destruct (str_id bs st) as [id|] eqn:Eid.
  - destruct (id <? 2 ^ 31) eqn:E; [apply egood_ok|].
    split; [reflexivity|]. exists bs, []. rewrite app_nil_r. unfold enc_dedup. rewrite Eid, E.
    reflexivity.
  - destruct (nlen st + 1 <? 2 ^ 31) eqn:E.
    + unfold enc_string. destruct (nlen bs <? 2 ^ 31); [|exact I].
      split; [exact I | exists [bs]; reflexivity].
    + split; [reflexivity|]. exists bs, []. rewrite app_nil_r. unfold enc_dedup. rewrite Eid, E.
      reflexivity.
Qed.

Lemma of_opt_good o st : egood st (of_opt o st).
Proof. destruct o; [apply egood_ok | exact I]. Qed.

Lemma enc_prim_good p v st : egood st (enc_prim p v st).
Proof.
  unfold enc_prim.
  destruct p; try apply of_opt_good;
    destruct v as [x|z|bs|tag vs]; try exact I; try apply egood_ok;
    try apply enc_string_good; try apply enc_bytes_good; try apply enc_dedup_good.
  all: repeat first
         [ exact I
         | apply egood_ok
         | apply of_opt_good | apply enc_string_good
         | eapply egood_bind; [| intros ? ? _ _; cbv beta iota]
         | match goal with
           | |- egoodP _ _ (match ?x with _ => _ end) => destruct x
           | |- egoodP _ _ (if ?c then _ else _) => destruct c
           | |- egood _ (match ?x with _ => _ end) => destruct x
           | |- egood _ (if ?c then _ else _) => destruct c
           end ].
Qed.

(* ---------- sequences ---------- *)
Lemma enc_items_good e : (forall v st, egood st (e v st)) ->
  forall fuel vs st, egood st (enc_items fuel e vs st).
Proof.
  intros He. induction fuel as [|fl IH]; intros [|v vs] st; cbn [enc_items];
    try apply egood_ok; try exact I.
  eapply egood_bind; [apply He|]. intros b1 st1 _ _. cbv beta iota.
  eapply egood_bind; [apply IH|]. intros b2 st2 _ _. cbv beta iota. apply egood_ok.
Qed.

Lemma enc_seq_good e fuel vs st : (forall v st, egood st (e v st)) -> egood st (enc_seq fuel e vs st).
Proof.
  intros He. unfold enc_seq. destruct (_ <? _); [|exact I].
  eapply egood_bind; [apply enc_items_good; exact He|]. intros b st1 _ _. cbv beta iota.
  apply egood_ok.
Qed.

(* ---------- version-0 records ---------- *)
Lemma enc_fields_v0_good E encf :
  (forall t, wf_ty E t = true -> forall v st, egood st (encf t v st)) ->
  forall fs vs st, TotalProofs.fields_ok E fs = true -> egood st (enc_fields_v0 encf fs vs st).
Proof.
  intros He. induction fs as [|f fs IH]; intros [|v vs] st Hfs; cbn [enc_fields_v0];
    try apply egood_ok; try exact I.
  cbn [TotalProofs.fields_ok forallb] in Hfs. apply andb_true_iff in Hfs as [Hf Hfs].
  destruct (f_transient f); [apply IH; exact Hfs|].
  eapply egood_bind; [apply He; exact Hf|]. intros b1 st1 _ _. cbv beta iota.
  eapply egood_bind; [apply IH; exact Hfs|]. intros b2 st2 _ _. cbv beta iota. apply egood_ok.
Qed.

(* ---------- chunked records: the AdtSerializer invariant ---------- *)
(* the buffers are one per generation; every recorded position is below the number `n` of
   fields written so far *)
Definition ss_inv (steps : list step) (n : N) (ss : ser_st) : Prop :=
  length (ss_chunks ss) = S (length steps) /\
  Forall (fun p => snd p < n) (ss_last ss) /\
  Forall (fun e => snd (snd e) < n) (ss_idx ss).

Lemma ss_inv_mono steps n n' ss : n <= n' -> ss_inv steps n ss -> ss_inv steps n' ss.
Proof.
  intros Hn (H1 & H2 & H3). split; [exact H1|]. split.
  - eapply Forall_impl; [|exact H2]. cbv beta. intros; lia.
  - eapply Forall_impl; [|exact H3]. cbv beta. intros; lia.
Qed.

Lemma assoc_N_Forall (P : N -> Prop) k : forall l b,
  Forall (fun p => P (snd p)) l -> assoc_N k l = Some b -> P b.
Proof.
  induction l as [|[a c] r IH]; intros b HF H; cbn [assoc_N] in H; [discriminate|].
  inversion HF as [|? ? Hc Hr]; subst. destruct (a =? k).
  - injection H as <-. exact Hc.
  - eapply IH; eassumption.
Qed.

Lemma assoc_name_Forall {A} (P : A -> Prop) k : forall (l : list (name * A)) b,
  Forall (fun p => P (snd p)) l -> assoc_name k l = Some b -> P b.
Proof.
  induction l as [|[a c] r IH]; intros b HF H; cbn [assoc_name] in H; [discriminate|].
  inversion HF as [|? ? Hc Hr]; subst. destruct (bytes_eqb a k).
  - injection H as <-. exact Hc.
  - eapply IH; eassumption.
Qed.

Lemma app_nth_some : forall l i b, (i < length l)%nat -> exists l', app_nth l i b = Some l'.
Proof.
  induction l as [|x r IH]; intros i b Hi; cbn [length] in Hi; [lia|].
  destruct i as [|i]; cbn [app_nth]; [eexists; reflexivity|].
  destruct (IH i b ltac:(lia)) as [r' ->]. eexists. reflexivity.
Qed.

Lemma app_nth_length : forall l i b l', app_nth l i b = Some l' -> length l' = length l.
Proof.
  induction l as [|x r IH]; intros i b l' H; cbn [app_nth] in H; [discriminate|].
  destruct i as [|i].
  - injection H as <-. reflexivity.
  - destruct (app_nth r i b) as [r'|] eqn:E; [|discriminate]. injection H as <-.
    cbn [length]. f_equal. eapply IH. exact E.
Qed.

Lemma ser_record_index_ok steps n ss nm chunk :
  ss_inv steps n ss -> n <= 254 ->
  exists ss', ser_record_index ss nm chunk = Ok ss' /\ ss_inv steps (n + 1) ss'.
Proof.
  intros (H1 & H2 & H3) Hn. unfold ser_record_index.
  assert (M2 : Forall (fun p : N * N => snd p < n + 1) (ss_last ss)).
  { eapply Forall_impl; [|exact H2]. cbv beta. intros; lia. }
  assert (M3 : Forall (fun e : name * (N * N) => snd (snd e) < n + 1) (ss_idx ss)).
  { eapply Forall_impl; [|exact H3]. cbv beta. intros; lia. }
  destruct (assoc_N chunk (ss_last ss)) as [li|] eqn:Ea.
  - assert (Hli : li < n) by (eapply (assoc_N_Forall (fun b => b < n)); eassumption).
    assert (li + 1 <? 256 = true) as -> by lia.
    eexists. split; [reflexivity|]. unfold ss_inv. cbn [ss_chunks ss_last ss_idx].
    split; [exact H1|]. split; constructor; auto; cbn [snd]; lia.
  - eexists. split; [reflexivity|]. unfold ss_inv. cbn [ss_chunks ss_last ss_idx].
    split; [exact H1|]. split; constructor; auto; cbn [snd]; lia.
Qed.

Lemma enc_fields_chunked_good E encf steps :
  (forall t, wf_ty E t = true -> forall v st, egood st (encf t v st)) ->
  forall fs vs ss st n,
    TotalProofs.fields_ok E fs = true -> ss_inv steps n ss -> n + nlen fs <= 127 ->
    egoodP (ss_inv steps (n + nlen fs)) st (enc_fields_chunked encf steps fs vs ss st).
Proof.
  intros He. induction fs as [|f fs IH]; intros [|v vs] ss st n Hfs Hinv Hn;
    cbn [enc_fields_chunked]; try exact I.
  - apply egoodP_ok. cbn [nlen]. rewrite N.add_0_r. exact Hinv.
  - cbn [TotalProofs.fields_ok forallb] in Hfs. apply andb_true_iff in Hfs as [Hf Hfs].
    cbn [nlen] in *. replace (n + N.succ (nlen fs)) with (n + 1 + nlen fs) by lia.
    destruct (f_transient f).
    + apply IH; [exact Hfs | eapply ss_inv_mono; [|exact Hinv]; lia | lia].
    + cbv zeta. eapply egood_bind; [apply He; exact Hf|]. intros b st1 _ _. cbv beta iota.
      pose proof (field_generation_bound steps (f_name f)) as Hg.
      set (chunk := match field_generation steps (f_name f) with Some c => c | None => 0 end) in *.
      destruct Hinv as (H1 & H2 & H3).
      assert (Hlt : (N.to_nat chunk < length (ss_chunks ss))%nat) by (rewrite H1; lia).
      destruct (app_nth_some (ss_chunks ss) (N.to_nat chunk) b Hlt) as [chunks Hc].
      rewrite Hc. apply app_nth_length in Hc.
      destruct (ser_record_index_ok steps n (mkSer chunks (ss_last ss) (ss_idx ss)) (f_name f) chunk)
        as (ss1 & Hs & Hinv1).
      { split; [cbn [ss_chunks]; congruence | split; assumption]. }
      { lia. }
      rewrite Hs. cbn [bind]. apply IH; [exact Hfs | exact Hinv1 | lia].
Qed.

Lemma prerender_names_good : forall s all st, egood st (prerender_names s all st).
Proof.
  induction s as [|x r IH]; intros all st; cbn [prerender_names]; [apply egood_ok|].
  destruct x as [n dflt|n|n|n]; try destruct (in_removed all n);
    repeat first [ apply egood_ok | apply enc_dedup_good | apply IH
                 | eapply egood_bind; [| intros ? ? _ _; cbv beta iota] ].
Qed.

Lemma chunk_size_entry_no_panic chunks i :
  (i < length chunks)%nat -> is_panic (chunk_size_entry chunks i) = false.
Proof.
  intros Hi. unfold chunk_size_entry. destruct (nth_error chunks i) eqn:E.
  - destruct (_ <? _); reflexivity.
  - apply nth_error_None in E. lia.
Qed.

Lemma field_position_byte_no_panic c pos : pos < 128 -> is_panic (field_position_byte c pos) = false.
Proof.
  intros Hp. unfold field_position_byte. destruct (c =? 0); [|reflexivity]. cbv zeta.
  unfold to_signed. change (2 ^ (8 - 1)) with 128. assert (pos <? 128 = true) as -> by lia.
  assert ((Z.of_N pos =? -128)%Z = false) as -> by lia. reflexivity.
Qed.

Lemma header_entries_no_panic all : forall steps pre ss i,
  Forall2 (pre_ok all) steps pre ->
  (i + length steps = length (ss_chunks ss))%nat ->
  Forall (fun e => snd (snd e) < 128) (ss_idx ss) ->
  is_panic (header_entries steps pre ss i) = false.
Proof.
  intros steps pre ss i HF. revert i. induction HF as [|s p r pr Hp HF IH]; intros i Hi Hidx.
  - reflexivity.
  - cbn [header_entries]. cbn [length] in Hi. apply is_panic_bind.
    + destruct s as [n dflt|n|n|n]; cbn [pre_ok] in Hp.
      * apply chunk_size_entry_no_panic. lia.
      * destruct (assoc_name n (ss_idx ss)) as [[c pos]|] eqn:Ea.
        -- apply is_panic_bind; [|reflexivity]. apply field_position_byte_no_panic.
           apply (assoc_name_Forall (fun cp : N * N => snd cp < 128) n _ _ Hidx Ea).
        -- destruct p; reflexivity.
      * destruct p; [reflexivity | congruence].
      * destruct p; [reflexivity | congruence].
    + intros e _. apply is_panic_bind; [|reflexivity]. apply IH; [lia | exact Hidx].
Qed.

Lemma enc_record_good E encf m :
  (forall t, wf_ty E t = true -> forall v st, egood st (encf t v st)) ->
  rmeta_ok E m -> forall vs st, egood st (enc_record encf m vs st).
Proof.
  intros He (Hv & Hl & Hf) vs st. unfold enc_record.
  destruct (r_steps m) as [|s0 steps0] eqn:Es.
  - eapply egood_bind; [eapply enc_fields_v0_good; eassumption|]. intros b st1 _ _.
    cbv beta iota. apply egood_ok.
  - rewrite <- Es in *. cbv zeta. assert (255 <=? version_of (r_steps m) = false) as -> by lia.
    eapply egood_bind; [apply prerender_names_good|]. intros pre st1 Hpre _. cbv beta iota.
    apply prerender_names_spec in Hpre.
    eapply egoodP_bind.
    { apply (enc_fields_chunked_good E encf (r_steps m) He (r_fields m) vs _ st1 0 Hf).
      - split; [cbn [ss_chunks]; apply repeat_length|]. split; constructor.
      - rewrite nlen_length. lia. }
    intros ss st2 _ (H1 & H2 & H3) _. cbv beta iota.
    apply egoodP_bind_pure; [apply chunk_size_entry_no_panic; lia|]. intros e0 _.
    apply egoodP_bind_pure; [|intros hdr _; apply egood_ok].
    apply (header_entries_no_panic (r_steps m)); [exact Hpre | lia|].
    eapply Forall_impl; [|exact H3]. cbv beta. intros a Ha. rewrite nlen_length in Ha. lia.
Qed.

Lemma enc_enum_good E encf tyname m :
  (forall t, wf_ty E t = true -> forall v st, egood st (encf t v st)) ->
  forallb (fun v => wf_rmeta E (v_rec v)) (e_variants m) = true ->
  forall v st, egood st (enc_enum encf tyname m v st).
Proof.
  intros He Hm v st. unfold enc_enum. destruct v as [?|?|?|tag vs]; try exact I.
  destruct (case_index (cases_of m) tag 0) as [[idx var]|] eqn:Ec; [|exact I].
  destruct (v_transient var); [exact I|]. destruct (_ <=? _); [exact I|].
  eapply egood_bind; [|intros b st1 _ _; cbv beta iota; apply egood_ok].
  apply enc_record_good with (E := E); [exact He|]. apply wf_rmeta_ok.
  apply case_index_In in Ec. apply cases_of_In in Ec. cbn [snd] in Ec.
  rewrite forallb_forall in Hm. apply Hm. exact Ec.
Qed.

(* ---------- the encoder ---------- *)
Theorem C17_enc_good : forall f E, wf_env E = true ->
  forall t, wf_ty E t = true -> forall v st, egood st (enc f E t v st).
Proof.
  intros f E HE. induction f as [|f IH]; intros t Ht v st; cbn [enc]; [exact I|].
  destruct t as [p | t' | r e | ts | k e | k kt vt | w t' | | n].
  - apply enc_prim_good.
  - cbn [wf_ty] in Ht. destruct v as [?|?|?|tag vs]; try exact I.
    destruct tag as [|[?|?|]]; try exact I.
    + destruct vs; [apply egood_ok | exact I].
    + destruct vs as [|x [|? ?]]; try exact I.
      eapply egood_bind; [apply IH; exact Ht|]. intros b st1 _ _. cbv beta iota. apply egood_ok.
  - cbn [wf_ty] in Ht. apply andb_true_iff in Ht as [Hr He].
    destruct v as [?|?|?|tag vs]; try exact I.
    destruct tag as [|[?|?|]]; try exact I; destruct vs as [|x [|? ?]]; try exact I.
    + eapply egood_bind; [apply IH; exact He|]. intros b st1 _ _. cbv beta iota. apply egood_ok.
    + eapply egood_bind; [apply IH; exact Hr|]. intros b st1 _ _. cbv beta iota. apply egood_ok.
  - destruct v as [?|?|?|tag vs]; try exact I. destruct tag; try exact I.
    apply enc_record_good with (E := E); [exact IH | apply tuple_meta_ok; exact Ht].
  - cbn [wf_ty] in Ht. destruct (byte_path k e).
    + destruct v; try exact I. apply enc_bytes_good.
    + destruct v as [?|?|?|tag vs]; try exact I. destruct tag; try exact I.
      apply enc_seq_good. apply IH. exact Ht.
  - cbn [wf_ty] in Ht. destruct v as [?|?|?|tag vs]; try exact I. destruct tag; try exact I.
    apply enc_seq_good. apply IH. cbn [wf_ty nlen forallb].
    apply andb_true_iff in Ht. destruct Ht as [H1 H2]. rewrite H1, H2. reflexivity.
  - cbn [wf_ty] in Ht. apply IH. exact Ht.
  - destruct v as [?|?|?|tag vs]; try exact I. destruct tag; try exact I.
    destruct vs; [apply egood_ok | exact I].
  - cbn [wf_ty] in Ht. destruct (lookup_decl E n) as [d|] eqn:Hd; [|discriminate Ht].
    unfold lookup_decl in Hd. apply nth_error_In in Hd.
    unfold wf_env in HE. rewrite forallb_forall in HE. specialize (HE d Hd).
    unfold wf_decl in HE. destruct (d_body d) as [m|m].
    + destruct v as [?|?|?|tag vs]; try exact I. destruct tag; try exact I.
      apply enc_record_good with (E := E); [exact IH | apply wf_rmeta_ok; exact HE].
    + apply enc_enum_good with (E := E); [exact IH | exact HE].
Qed.

Theorem C17_enc_panic_only_string_ids : forall f E t v st p,
  wf_env E = true -> wf_ty E t = true -> enc f E t v st = Panic p -> p = POverflow.
Proof.
  intros f E t v st p HE Ht H. pose proof (C17_enc_good f E HE t Ht v st) as G.
  unfold egood in G. rewrite H in G. destruct G as [G _]. exact G.
Qed.

(* the stronger form: a panic of the encoder is the overflow of the string-id counter in an
   enc_dedup call on a table that extends the initial one and already holds 2^31-1 strings *)
Theorem C17_enc_panic_origin : forall f E t v st p,
  wf_env E = true -> wf_ty E t = true -> enc f E t v st = Panic p ->
  p = POverflow /\
  exists bs x, enc_dedup bs (st ++ x) = Panic POverflow /\ 2^31 - 1 <= nlen st + nlen x.
Proof.
  intros f E t v st p HE Ht H. pose proof (C17_enc_good f E HE t Ht v st) as G.
  unfold egood in G. rewrite H in G. destruct G as [G (bs & x & Hd)]. split; [exact G|].
  exists bs, x. split; [exact Hd|]. apply C17_dedup_overflow in Hd. rewrite nlen_app in Hd. exact Hd.
Qed.

(* and a successful encoding only appends to the string table *)
Theorem C17_enc_table_grows : forall f E t v st b st',
  wf_env E = true -> wf_ty E t = true -> enc f E t v st = Ok (b, st') -> exists x, st' = st ++ x.
Proof.
  intros f E t v st b st' HE Ht H. pose proof (C17_enc_good f E HE t Ht v st) as G.
  unfold egood in G. rewrite H in G. destruct G as [_ G]. exact G.
Qed.

(* ================================================================== *)
Print Assumptions C12_encode_indep.
Print Assumptions C12_unknown_form.
Print Assumptions C12_forms_agree.
Print Assumptions C12_forms_decode.
Print Assumptions C13_layout.
Print Assumptions C13_index_declaration_order.
Print Assumptions C13_sorted.
Print Assumptions nlen_cases_of.
Print Assumptions C13_transient_ser.
Print Assumptions C13_out_of_range.
Print Assumptions C13_out_of_range'.
Print Assumptions C13_transient_de.
Print Assumptions C13_extension.
Print Assumptions C13_extension_gen.
Print Assumptions C14_no_bytes.
Print Assumptions prerender_names_spec.
Print Assumptions C14_header_ok.
Print Assumptions C14_header_no_unknown_ref.
Print Assumptions C14_record_no_unknown_ref.
Print Assumptions C14_enc_no_unknown_ref.
Print Assumptions C17_dedup_overflow.
Print Assumptions C17_enc_good.
Print Assumptions C17_enc_panic_only_string_ids.
Print Assumptions C17_enc_panic_origin.
Print Assumptions C17_enc_table_grows.
