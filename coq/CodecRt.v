(* CodecRt.v — round trip of the codecs on layer A (C01, C02, C07, C09): decoding the
   encoding of a value, followed by any suffix, yields the value (transient fields reset
   to their defaults), leaves exactly the suffix, and the same string table. *)
From Coq Require Import NArith ZArith List Lia Bool.
From Coq Require Import ZifyBool ZifyN ZifyNat.
From Desert Require Import Bits Outcome IO IOProofs VarintProofs Types Calendar Codec CodecWf CodecLemmas ChronoLemmas BigDec BigDecLemmas.
Import ListNotations.
Open Scope N_scope.

Ltac Zify.zify_post_hook ::= Z.div_mod_to_equations.

(* ---------- BigInt ---------- *)
Lemma pow256 k : 256 ^ k = 2 ^ (8 * k).
Proof. change 256 with (2 ^ 8). rewrite <- N.pow_mul_r. reflexivity. Qed.

Lemma bigint_nbytes_bound z :
  let k := bigint_nbytes z in
  1 <= k /\ (- 2 ^ (Z.of_N (8 * k) - 1) <= z < 2 ^ (Z.of_N (8 * k) - 1))%Z.
Proof.
  unfold bigint_nbytes.
  set (m := Z.to_N (if (z <? 0)%Z then (- z - 1)%Z else z)).
  set (bits := if m =? 0 then 0 else N.log2 m + 1).
  assert (Hm: m < 2 ^ bits).
  { unfold bits. destruct (m =? 0) eqn:E; [cbn; lia|].
    rewrite N.add_1_r. apply N.log2_spec. lia. }
  set (k := bits / 8 + 1). cbv zeta.
  assert (Hk: bits <= 8 * k - 1) by (unfold k; lia).
  assert (Hp: 2 ^ bits <= 2 ^ (8 * k - 1)) by (apply N.pow_le_mono_r; lia).
  assert (Hz: Z.of_N (2 ^ (8 * k - 1)) = (2 ^ (Z.of_N (8 * k) - 1))%Z).
  { rewrite N2Z.inj_pow. f_equal. unfold k. lia. }
  split; [unfold k; lia|]. rewrite <- Hz.
  unfold m in Hm. destruct (z <? 0)%Z eqn:E; lia.
Qed.

Lemma bigint_roundtrip z : bigint_of_be (bigint_to_be z) = z.
Proof.
  pose proof (bigint_nbytes_bound z) as [Hk Hz]. unfold bigint_to_be.
  set (k := bigint_nbytes z) in *.
  assert (Ek: N.to_nat k = Datatypes.S (N.to_nat (k - 1))) by lia.
  set (u := Z.to_N (z mod 2 ^ Z.of_N (8 * k))).
  assert (P: (0 < 2 ^ Z.of_N (8 * k))%Z) by (apply Z.pow_pos_nonneg; lia).
  assert (E2: (2 ^ Z.of_N (8 * k) = 2 * 2 ^ (Z.of_N (8 * k) - 1))%Z).
  { rewrite <- Z.pow_succ_r by lia. f_equal. lia. }
  assert (Hu: u < 256 ^ k).
  { unfold u. rewrite pow256. apply N2Z.inj_lt. rewrite N2Z.inj_pow, Z2N.id.
    - apply Z.mod_pos_bound. exact P.
    - apply Z.mod_pos_bound. exact P. }
  assert (Hof: of_be (be_bytes (N.to_nat k) u) = u).
  { rewrite of_be_be_bytes, N2Nat.id. apply N.mod_small. exact Hu. }
  assert (Hlen: nlen (be_bytes (N.to_nat k) u) = k) by (rewrite nlen_be_bytes; lia).
  unfold bigint_of_be. rewrite Hof, Hlen.
  rewrite Ek. cbn [be_bytes].
  replace (N.of_nat (N.to_nat (k - 1))) with (k - 1) by lia.
  assert (Hq: 256 ^ k = 256 ^ (k - 1) * 256).
  { replace k with (k - 1 + 1) at 1 by lia. rewrite N.pow_add_r. reflexivity. }
  assert (Hpos: 0 < 256 ^ (k - 1)) by (apply N.neq_0_lt_0, N.pow_nonzero; discriminate).
  assert (Hb0: u / 256 ^ (k - 1) < 256) by (apply N.div_lt_upper_bound; lia).
  rewrite (N.mod_small _ 256) by exact Hb0.
  assert (Hhalf: Z.of_N (256 ^ (k - 1) * 128) = (2 ^ (Z.of_N (8 * k) - 1))%Z).
  { rewrite pow256. change 128 with (2 ^ 7). rewrite <- N.pow_add_r, N2Z.inj_pow. f_equal. lia. }
  assert (Hfull: Z.of_N (256 ^ k) = (2 ^ Z.of_N (8 * k))%Z) by (rewrite pow256, N2Z.inj_pow; reflexivity).
  destruct (Z_lt_le_dec z 0) as [Hn|Hn].
  - (* negative: u = z + 2^(8k) >= 2^(8k-1), so the first byte is >= 128 *)
    assert (Eu: Z.of_N u = (z + 2 ^ Z.of_N (8 * k))%Z).
    { unfold u. rewrite Z2N.id by (apply Z.mod_pos_bound; exact P).
      rewrite <- (Z.mod_add z 1) by lia. rewrite Z.mod_small by lia. lia. }
    assert (Hge: 256 ^ (k - 1) * 128 <= u) by lia.
    assert (128 <= u / 256 ^ (k - 1)).
    { apply N.div_le_lower_bound; lia. }
    assert (u / 256 ^ (k - 1) <? 128 = false) as -> by lia. lia.
  - assert (Eu: Z.of_N u = z).
    { unfold u. rewrite Z2N.id by (apply Z.mod_pos_bound; exact P). apply Z.mod_small. lia. }
    assert (Hlt: u < 256 ^ (k - 1) * 128) by lia.
    assert (u / 256 ^ (k - 1) < 128) by (apply N.div_lt_upper_bound; lia).
    assert (u / 256 ^ (k - 1) <? 128 = true) as -> by lia. exact Eu.
Qed.

(* ---------- strings and byte blocks ---------- *)
Lemma rt_bytes bs st b st' s k :
  enc_bytes bs st = Ok (b, st') ->
  dec_bytes a_ops (mkA (b ++ s) k st) = Ok (VB bs, mkA s k st').
Proof.
  unfold enc_bytes, dec_bytes. destruct (nlen bs <? 2 ^ 32) eqn:E; [|discriminate].
  intros H. injection H as <- <-. rewrite <- app_assoc.
  cbn [a_ops d_rd].
  rewrite (a_read_var_u32 k st _ (nlen bs) (bs ++ s)) by (apply var_u32_roundtrip_list; lia).
  cbn [bind]. rewrite a_r_bytes_app. reflexivity.
Qed.

Lemma rt_string bs st b st' s k :
  utf8_valid bs = true -> enc_string bs st = Ok (b, st') ->
  dec_string a_ops (mkA (b ++ s) k st) = Ok (VB bs, mkA s k st').
Proof.
  unfold enc_string, dec_string. intros Hu. destruct (nlen bs <? 2 ^ 31) eqn:E; [|discriminate].
  intros H. injection H as <- <-. rewrite <- app_assoc.
  cbn [a_ops d_rd].
  rewrite (a_read_var_i32 k st _ (Z.of_N (nlen bs)) (bs ++ s))
    by (apply var_i32_roundtrip_list; change (2^31)%Z with (Z.of_N (2^31)); lia).
  cbn [bind]. rewrite as_usize_of_N by (change (2^64) with 18446744073709551616; change (2^31) with 2147483648 in E; lia).
  rewrite a_r_bytes_app. cbn [bind]. unfold dec_utf8. rewrite Hu. reflexivity.
Qed.

Lemma rt_dedup bs st b st' s k :
  utf8_valid bs = true -> enc_dedup bs st = Ok (b, st') ->
  dec_dedup a_ops (mkA (b ++ s) k st) = Ok (VB bs, mkA s k st').
Proof.
  unfold enc_dedup, dec_dedup. intros Hu.
  destruct (str_id bs st) as [id|] eqn:Eid.
  - destruct (id <? 2 ^ 31) eqn:Elt; [|discriminate].
    intros H. injection H as <- <-. cbn [a_ops d_rd].
    assert (Hpos: 1 <= id) by (apply str_find_get in Eid; lia).
    change (2^31) with 2147483648 in Elt.
    rewrite (a_read_var_i32 k st _ (- Z.of_N id)%Z s)
      by (apply var_i32_roundtrip_list; change (2^31)%Z with 2147483648%Z; lia).
    cbn [bind].
    assert ((- Z.of_N id <? 0)%Z = true) as -> by lia.
    assert ((- Z.of_N id =? - 2 ^ 31)%Z = false) as -> by (change (2^31)%Z with 2147483648%Z; lia).
    cbn [a_ops d_str_get a_strs]. rewrite Z.opp_involutive, (str_get_of_id _ _ _ Eid). reflexivity.
  - destruct (nlen st + 1 <? 2 ^ 31) eqn:Elt; [|discriminate].
    unfold enc_string. destruct (nlen bs <? 2 ^ 31) eqn:E; [|discriminate].
    intros H. injection H as <- <-. rewrite <- app_assoc. cbn [a_ops d_rd].
    rewrite (a_read_var_i32 k st _ (Z.of_N (nlen bs)) (bs ++ s))
      by (apply var_i32_roundtrip_list; change (2^31)%Z with (Z.of_N (2^31)); lia).
    cbn [bind].
    assert ((Z.of_N (nlen bs) <? 0)%Z = false) as -> by lia.
    rewrite as_usize_of_N by (change (2^64) with 18446744073709551616; change (2^31) with 2147483648 in E; lia).
    rewrite a_r_bytes_app. cbn [bind]. unfold dec_utf8. rewrite Hu. cbn [bind].
    cbn [a_ops d_str_store a_cur a_stack a_strs]. rewrite str_store_new by exact Eid. reflexivity.
Qed.

Lemma ok_pair_inj {A B} (a c : A) (b d : B) : @Ok (A * B) (a, b) = Ok (c, d) -> a = c /\ b = d.
Proof. intros H. injection H. auto. Qed.

(* width-specialised forms (the decoder says `read_be rd 4`, not `N.of_nat 4`) *)
Lemma a_be_rt k st (w : nat) (wn : N) n s :
  wn = N.of_nat w -> n < 256 ^ wn ->
  read_be a_reader wn (mkA (be_bytes w n ++ s) k st) = Ok (n, mkA s k st).
Proof. intros -> H. apply a_be_roundtrip. exact H. Qed.

Lemma a_signed_rt k st (w : nat) (wn bits : N) z s :
  wn = N.of_nat w -> 0 < bits -> 2 ^ bits = 256 ^ wn ->
  (- 2 ^ (Z.of_N bits - 1) <= z < 2 ^ (Z.of_N bits - 1))%Z ->
  read_signed a_reader wn bits (mkA (be_bytes w (to_unsigned bits z) ++ s) k st) = Ok (z, mkA s k st).
Proof. intros -> H1 H2 H3. apply a_signed_roundtrip; assumption. Qed.

(* ---------- features/chrono.rs helpers ---------- *)
Lemma to_signed8_small n : n < 128 -> to_signed 8 n = Z.of_N n.
Proof.
  intros H. unfold to_signed. change (2 ^ (8 - 1)) with 128.
  assert (n <? 128 = true) as -> by lia. reflexivity.
Qed.

Lemma rt_small lo hi n s k st :
  hi < 128 -> (lo <=? n) && (n <=? hi) = true ->
  dec_small a_ops lo hi (mkA ([n] ++ s) k st) = Ok (VN n, mkA s k st).
Proof.
  intros Hhi Hn. unfold dec_small. change (d_rd a_ops) with a_reader.
  rewrite (a_read_i8 k st _ (Z.of_N n) s).
  - cbn [bind].
    assert (((Z.of_N lo <=? Z.of_N n) && (Z.of_N n <=? Z.of_N hi))%Z = true) as -> by lia.
    rewrite N2Z.id. reflexivity.
  - unfold read_i8. cbn [app list_reader r_u8 bind]. rewrite to_signed8_small by lia. reflexivity.
Qed.

Lemma rt_offset z s k st :
  valid_offset z = true ->
  dec_offset a_ops (mkA ((0 :: write_var_i32 z) ++ s) k st) = Ok (VZ z, mkA s k st).
Proof.
  intros Hz. unfold dec_offset. change (d_rd a_ops) with a_reader.
  rewrite <- app_comm_cons, a_r_u8. cbn [bind]. change (0 =? 0) with true. cbv iota.
  rewrite (a_read_var_i32 k st _ z s)
    by (apply var_i32_roundtrip_list, valid_offset_i32; exact Hz).
  cbn [bind]. rewrite Hz. reflexivity.
Qed.

Lemma rt_tz nm st b st' s k :
  tz_known nm = true -> enc_string nm st = Ok (b, st') ->
  dec_tz a_ops (mkA ((1 :: b) ++ s) k st) = Ok (VB nm, mkA s k st').
Proof.
  intros Hk Henc. unfold dec_tz. change (d_rd a_ops) with a_reader.
  rewrite <- app_comm_cons, a_r_u8. cbn [bind]. change (1 =? 1) with true. cbv iota.
  rewrite (rt_string nm st b st' s k (tz_known_utf8 _ Hk) Henc). cbn [bind].
  rewrite Hk. reflexivity.
Qed.

Lemma rt_ndate v b s k st :
  wf_ndate v = true -> enc_ndate v = Some b ->
  dec_ndate a_ops (mkA (b ++ s) k st) = Ok (v, mkA s k st).
Proof.
  intros Hwf Henc. apply wf_ndate_inv in Hwf as (y & m & d & -> & Hv).
  cbn [enc_ndate] in Henc. injection Henc as <-.
  unfold dec_ndate. change (d_rd a_ops) with a_reader. rewrite <- app_assoc.
  rewrite (a_read_var_u32 k st _ (to_unsigned 32 y) ([m; d] ++ s))
    by (apply var_u32_roundtrip_list, to_unsigned_lt).
  cbn [bind app]. rewrite a_r_u8. cbn [bind]. rewrite a_r_u8. cbn [bind]. cbv zeta.
  rewrite (valid_ymd_i32 _ _ _ Hv), Hv. reflexivity.
Qed.

Lemma rt_ntime v b s k st :
  wf_ntime v = true -> enc_ntime v = Some b ->
  dec_ntime a_ops (mkA (b ++ s) k st) = Ok (v, mkA s k st).
Proof.
  intros Hwf Henc. apply wf_ntime_inv in Hwf as (h & mi & sec & ns & -> & Hv).
  cbn [enc_ntime] in Henc. injection Henc as <-.
  unfold dec_ntime. change (d_rd a_ops) with a_reader.
  cbn [app]. rewrite a_r_u8. cbn [bind]. rewrite a_r_u8. cbn [bind]. rewrite a_r_u8. cbn [bind].
  rewrite (a_read_var_u32 k st _ ns s)
    by (apply var_u32_roundtrip_list, (valid_hmsn_u32 _ _ _ _ Hv)).
  cbn [bind]. rewrite Hv. reflexivity.
Qed.

Lemma rt_ndt v b s k st :
  wf_ndt v = true -> enc_ndt v = Some b ->
  dec_ndt a_ops (mkA (b ++ s) k st) = Ok (v, mkA s k st).
Proof.
  intros Hwf Henc. apply wf_ndt_inv in Hwf as (d & t & -> & Hd & Ht).
  cbn [enc_ndt] in Henc.
  destruct (enc_ndate d) as [a|] eqn:Ea; [|discriminate].
  destruct (enc_ntime t) as [c|] eqn:Ec; [|discriminate].
  injection Henc as <-. unfold dec_ndt. rewrite <- app_assoc.
  rewrite (rt_ndate d a (c ++ s) k st Hd Ea). cbn [bind].
  rewrite (rt_ntime t c s k st Ht Ec). reflexivity.
Qed.

Lemma of_opt_inv o st b st' : of_opt o st = Ok (b, st') -> o = Some b /\ st' = st.
Proof.
  unfold of_opt. destruct o as [x|]; [|discriminate].
  intros H. apply ok_pair_inj in H as [<- <-]. auto.
Qed.

(* the primitives of features/chrono.rs and the two public var-int writers; kept apart from
   rt_prim because simplifying `tz_known` would unfold the table of zone names *)
Definition is_ext_prim (p : prim) : bool :=
  match p with
  | PBigDecimal
  | PWeekday | PMonth | PFixedOffset | PTz | PDateTimeUtc | PNaiveDate | PNaiveTime | PNaiveDateTime
  | PDateTimeLocal | PDateTimeFixed | PDateTimeTz | PVarU32 | PVarI32 => true
  | _ => false
  end.

Lemma rt_prim_ext p v st b st' s k :
  is_ext_prim p = true ->
  wf_prim_val p v = true -> enc_prim p v st = Ok (b, st') ->
  dec_prim a_ops p (mkA (b ++ s) k st) = Ok (v, mkA s k st').
Proof.
  intros Hx Hwf Henc.
  destruct p; try discriminate Hx; clear Hx; unfold wf_prim_val in Hwf; unfold enc_prim in Henc.
  - (* BigDecimal *)
    destruct v as [n|z|bs|tag vs]; try discriminate Hwf.
    destruct tag; try discriminate Hwf.
    destruct vs as [|[n1|i|b1|t1 v1] [|[n2|sc|b2|t2 v2] [|? ?]]]; try discriminate Hwf.
    unfold dec_prim.
    rewrite (rt_string _ _ _ _ s k (bd_render_utf8 i sc) Henc). cbn [bind].
    rewrite (bd_roundtrip_normal _ _ Hwf), (bd_normal_norm _ _ Hwf). reflexivity.
  - (* Weekday *)
    destruct v as [n|z|bs|tag vs]; try discriminate Hwf.
    apply ok_pair_inj in Henc as [<- <-]. unfold dec_prim.
    apply rt_small; [reflexivity | exact Hwf].
  - (* Month *)
    destruct v as [n|z|bs|tag vs]; try discriminate Hwf.
    apply ok_pair_inj in Henc as [<- <-]. unfold dec_prim.
    apply rt_small; [reflexivity | exact Hwf].
  - (* FixedOffset *)
    destruct v as [n|z|bs|tag vs]; try discriminate Hwf.
    apply ok_pair_inj in Henc as [<- <-]. unfold dec_prim.
    apply rt_offset. exact Hwf.
  - (* Tz *)
    destruct v as [n|z|nm|tag vs]; try discriminate Hwf.
    destruct (enc_string nm st) as [[b0 st0]| | |] eqn:E; cbn [bind] in Henc; try discriminate Henc.
    apply ok_pair_inj in Henc as [<- <-]. unfold dec_prim.
    apply rt_tz; assumption.
  - (* DateTime<Utc> *)
    destruct v as [n|z|bs|tag vs]; try discriminate Hwf.
    destruct tag; try discriminate Hwf.
    destruct vs as [|[|secs| |] [|[nanos| | |] [|? ?]]]; try discriminate Hwf.
    apply ok_pair_inj in Henc as [<- <-]. unfold dec_prim. change (d_rd a_ops) with a_reader.
    pose proof (valid_ts_i64 _ _ Hwf) as [H1 H2].
    rewrite <- app_assoc.
    rewrite (a_signed_rt k st 8 8 64) by (try reflexivity; exact H1).
    cbn [bind]. rewrite (a_be_rt k st 4 4) by (try reflexivity; exact H2). cbn [bind].
    rewrite Hwf. reflexivity.
  - (* NaiveDate *)
    apply of_opt_inv in Henc as [Henc ->]. unfold dec_prim. apply rt_ndate; assumption.
  - (* NaiveTime *)
    apply of_opt_inv in Henc as [Henc ->]. unfold dec_prim. apply rt_ntime; assumption.
  - (* NaiveDateTime *)
    apply of_opt_inv in Henc as [Henc ->]. unfold dec_prim. apply rt_ndt; assumption.
  - (* DateTime<Local> *)
    apply of_opt_inv in Henc as [Henc ->]. unfold dec_prim. apply rt_ndt; assumption.
  - (* DateTime<FixedOffset> *)
    destruct v as [n|z|bs|tag vs]; try discriminate Hwf.
    destruct tag; try discriminate Hwf.
    destruct vs as [|dt [|[|off| |] [|? ?]]]; try discriminate Hwf.
    apply andb_true_iff in Hwf as [Hwf H3]. apply andb_true_iff in Hwf as [H1 H2].
    destruct (enc_ndt dt) as [b0|] eqn:E; cbn [of_opt bind] in Henc; try discriminate Henc.
    apply ok_pair_inj in Henc as [<- <-]. unfold dec_prim.
    rewrite <- app_assoc. rewrite (rt_ndt dt b0 _ k st H1 E). cbn [bind].
    rewrite (rt_offset off s k st H2). cbn [bind]. rewrite H3. reflexivity.
  - (* DateTime<Tz> *)
    destruct v as [n|z|bs|tag vs]; try discriminate Hwf.
    destruct tag; try discriminate Hwf.
    destruct vs as [|dt [|[| |nm|] [|? ?]]]; try discriminate Hwf.
    apply andb_true_iff in Hwf as [H1 H2].
    destruct (enc_ndt dt) as [b0|] eqn:E; cbn [of_opt bind] in Henc; try discriminate Henc.
    destruct (enc_string nm st) as [[b1 st1]| | |] eqn:E1; cbn [bind] in Henc; try discriminate Henc.
    apply ok_pair_inj in Henc as [<- <-]. unfold dec_prim.
    rewrite <- app_assoc. rewrite (rt_ndt dt b0 _ k st H1 E). cbn [bind].
    rewrite (rt_tz nm st b1 st1 s k H2 E1). reflexivity.
  - (* var_u32 *)
    destruct v as [n|z|bs|tag vs]; try discriminate Hwf.
    apply ok_pair_inj in Henc as [<- <-]. unfold dec_prim. change (d_rd a_ops) with a_reader.
    rewrite (a_read_var_u32 k st _ n s) by (apply var_u32_roundtrip_list; apply N.ltb_lt; exact Hwf).
    reflexivity.
  - (* var_i32 *)
    destruct v as [n|z|bs|tag vs]; try discriminate Hwf.
    apply ok_pair_inj in Henc as [<- <-]. unfold dec_prim. change (d_rd a_ops) with a_reader.
    rewrite (a_read_var_i32 k st _ z s) by (apply var_i32_roundtrip_list; lia).
    reflexivity.
Qed.

(* ---------- primitives ---------- *)
Lemma rt_prim p v st b st' s k :
  wf_prim_val p v = true -> enc_prim p v st = Ok (b, st') ->
  dec_prim a_ops p (mkA (b ++ s) k st) = Ok (v, mkA s k st').
Proof.
  intros Hwf Henc.
  destruct (is_ext_prim p) eqn:Hx; [apply rt_prim_ext; assumption|].
  destruct p; try discriminate Hx; clear Hx; cbn in Hwf;
    try (destruct v as [n|z|bs|tag vs]; try discriminate; []);
    try discriminate.
  - (* u8 *) cbn in Henc. injection Henc as <- <-. reflexivity.
  - (* i8 *) unfold enc_prim in Henc. apply ok_pair_inj in Henc as [<- <-]. unfold dec_prim. change (d_rd a_ops) with a_reader.
    rewrite (a_read_i8 k st _ z s); [reflexivity|].
    unfold read_i8. cbn. rewrite to_signed_to_unsigned by (cbn in *; lia). reflexivity.
  - (* u16 *) unfold enc_prim in Henc. apply ok_pair_inj in Henc as [<- <-]. unfold dec_prim. change (d_rd a_ops) with a_reader.
    rewrite (a_be_rt k st 2 2) by (try reflexivity; cbn in *; lia). reflexivity.
  - (* i16 *) unfold enc_prim in Henc. apply ok_pair_inj in Henc as [<- <-]. unfold dec_prim. change (d_rd a_ops) with a_reader.
    rewrite (a_signed_rt k st 2 2 16) by (cbn in *; try reflexivity; lia). reflexivity.
  - (* u32 *) unfold enc_prim in Henc. apply ok_pair_inj in Henc as [<- <-]. unfold dec_prim. change (d_rd a_ops) with a_reader.
    rewrite (a_be_rt k st 4 4) by (try reflexivity; cbn in *; lia). reflexivity.
  - (* i32 *) unfold enc_prim in Henc. apply ok_pair_inj in Henc as [<- <-]. unfold dec_prim. change (d_rd a_ops) with a_reader.
    rewrite (a_signed_rt k st 4 4 32) by (cbn in *; try reflexivity; lia). reflexivity.
  - (* u64 *) unfold enc_prim in Henc. apply ok_pair_inj in Henc as [<- <-]. unfold dec_prim. change (d_rd a_ops) with a_reader.
    rewrite (a_be_rt k st 8 8) by (try reflexivity; cbn in *; lia). reflexivity.
  - (* i64 *) unfold enc_prim in Henc. apply ok_pair_inj in Henc as [<- <-]. unfold dec_prim. change (d_rd a_ops) with a_reader.
    rewrite (a_signed_rt k st 8 8 64) by (cbn in *; try reflexivity; lia). reflexivity.
  - (* u128 *) unfold enc_prim in Henc. apply ok_pair_inj in Henc as [<- <-]. unfold dec_prim. change (d_rd a_ops) with a_reader.
    rewrite (a_be_rt k st 16 16) by (try reflexivity; cbn in *; lia). reflexivity.
  - (* i128 *) unfold enc_prim in Henc. apply ok_pair_inj in Henc as [<- <-]. unfold dec_prim. change (d_rd a_ops) with a_reader.
    rewrite (a_signed_rt k st 16 16 128) by (cbn in *; try reflexivity; lia). reflexivity.
  - (* f32 *) unfold enc_prim in Henc. apply ok_pair_inj in Henc as [<- <-]. unfold dec_prim. change (d_rd a_ops) with a_reader.
    rewrite (a_be_rt k st 4 4) by (try reflexivity; cbn in *; lia). reflexivity.
  - (* f64 *) unfold enc_prim in Henc. apply ok_pair_inj in Henc as [<- <-]. unfold dec_prim. change (d_rd a_ops) with a_reader.
    rewrite (a_be_rt k st 8 8) by (try reflexivity; cbn in *; lia). reflexivity.
  - (* bool *) cbn in Henc. injection Henc as <- <-. cbn.
    assert (n = 0 \/ n = 1) as [-> | ->] by lia; reflexivity.
  - (* unit *) destruct tag; try discriminate. destruct vs; try discriminate.
    cbn in Henc. injection Henc as <- <-. reflexivity.
  - (* char *) unfold enc_prim in Henc. destruct (n <? 65536) eqn:E; [|discriminate].
    apply ok_pair_inj in Henc as [<- <-]. unfold dec_prim. change (d_rd a_ops) with a_reader.
    rewrite (a_be_rt k st 2 2) by (try reflexivity; cbn; lia). cbn [bind].
    apply andb_true_iff in Hwf as [_ Hs]. apply negb_true_iff in Hs. rewrite Hs. reflexivity.
  - (* String *) cbn in Henc. unfold dec_prim. apply rt_string; assumption.
  - (* DeduplicatedString *) cbn in Henc. unfold dec_prim. apply rt_dedup; assumption.
  - (* Duration *)
    destruct tag; try discriminate.
    destruct vs as [|[secs| | |] [|[nanos| | |] [|? ?]]]; try discriminate.
    unfold enc_prim in Henc. apply ok_pair_inj in Henc as [<- <-]. unfold dec_prim. change (d_rd a_ops) with a_reader.
    apply andb_true_iff in Hwf as [H1 H2].
    rewrite <- app_assoc.
    rewrite (a_be_rt k st 8 8) by (try reflexivity; cbn; change (2^64) with 18446744073709551616 in H1; lia).
    cbn [bind]. rewrite (a_be_rt k st 4 4) by (try reflexivity; cbn; lia). cbn [bind].
    assert (nanos / 1000000000 = 0) as -> by lia. rewrite N.add_0_r.
    change (2 ^ 64) with 18446744073709551616. rewrite H1.
    rewrite N.mod_small by lia. reflexivity.
  - (* Bytes *) cbn in Henc. unfold dec_prim. apply rt_bytes. exact Henc.
  - (* Uuid *) unfold enc_prim in Henc. apply ok_pair_inj in Henc as [<- <-]. unfold dec_prim. change (d_rd a_ops) with a_reader.
    assert (16 = nlen bs) as -> by lia. rewrite a_r_bytes_app. reflexivity.
  - (* BigInt *) cbn in Henc. unfold dec_prim.
    rewrite (rt_bytes _ _ _ _ s k Henc). cbn [bind]. rewrite bigint_roundtrip. reflexivity.
Qed.
