(* CodecB.v — layer B instance of the decoder: the DeserializationContext model of IO.v
   (absolute cursor arithmetic, region stack) plus the string table (definitions only). *)
From Coq Require Import NArith ZArith List Bool.
From Desert Require Import Outcome IO Types Codec.
Import ListNotations.
Open Scope N_scope.

Record bstate := mkB { b_ctx : rctx; b_strs : strtab }.

Definition b_reader : reader bstate :=
  {| r_u8 := fun s => '(b, c) <- r_u8 ctx_reader (b_ctx s) ;; Ok (b, mkB c (b_strs s));
     r_bytes := fun n s => '(bs, c) <- r_bytes ctx_reader n (b_ctx s) ;; Ok (bs, mkB c (b_strs s));
     r_skip := fun n s => '(u, c) <- r_skip ctx_reader n (b_ctx s) ;; Ok (u, mkB c (b_strs s)) |}.

Definition b_ops : dops bstate iregion :=
  {| d_rd := b_reader;
     (* adt/deserializer.rs:55-59: let start = context.pos(); context.skip(size)?;
        inputs.push(InputRegion::new(start, size)) *)
     d_take := fun n s =>
       let start := ctx_pos (b_ctx s) in
       '(_, c) <- r_skip ctx_reader n (b_ctx s) ;;
       rg <- iregion_new start n ;;
       Ok (rg, mkB c (b_strs s));
     d_push := fun rg s => c <- push_region (b_ctx s) rg ;; Ok (mkB c (b_strs s));
     d_pop := fun s => '(rg, c) <- pop_region (b_ctx s) ;; Ok (rg, mkB c (b_strs s));
     d_empty := iregion_empty;
     d_str_get := fun s id => str_get (b_strs s) id;
     d_str_store := fun bs s => mkB (b_ctx s) (str_store bs (b_strs s)) |}.

(* desert::deserialize on a fresh context: the value, the bytes still readable, the table *)
Definition decodeB (f : nat) (E : env) (t : ty) (bs : bytes) (st : strtab)
  : outcome (val * N * strtab) :=
  '(v, s) <- dec b_ops f E t (mkB (rctx_new bs) st) ;;
  let cur := rc_cur (b_ctx s) in
  Ok (v, rg_end cur - (rg_start cur + rg_pos cur), b_strs s).
