//! C18: two derived types with the SAME name in the same module (declared inside function bodies), with
//! different evolution histories. Whatever is keyed by a type's name or module path rather than by the type
//! itself would make the second one behave like the first one used.
use desert::BinaryCodec;

fn job_a(id: u32, name: &str, priority: u8, bytes: Option<&[u8]>) -> String {
    #[derive(BinaryCodec, Debug, PartialEq)]
    #[evolution(FieldAdded("priority", 3u8))]
    struct Job {
        id: u32,
        name: String,
        priority: u8,
    }
    match bytes {
        None => match desert::serialize_to_byte_vec(&Job { id, name: name.to_string(), priority }) {
            Ok(b) => format!("ok {}", crate::util::hex(&b)),
            Err(e) => format!("err {}", crate::dynval::err_class(&e)),
        },
        Some(b) => match desert::deserialize::<Job>(b) {
            Ok(j) => format!("ok {} {} {}", j.id, j.name, j.priority),
            Err(e) => format!("err {}", crate::dynval::err_class(&e)),
        },
    }
}

fn job_b(id: u32, name: &str, priority: u8, bytes: Option<&[u8]>) -> String {
    #[derive(BinaryCodec, Debug, PartialEq)]
    #[evolution(FieldAdded("name", "x".to_string()))]
    struct Job {
        id: u32,
        name: String,
        priority: u8,
    }
    match bytes {
        None => match desert::serialize_to_byte_vec(&Job { id, name: name.to_string(), priority }) {
            Ok(b) => format!("ok {}", crate::util::hex(&b)),
            Err(e) => format!("err {}", crate::dynval::err_class(&e)),
        },
        Some(b) => match desert::deserialize::<Job>(b) {
            Ok(j) => format!("ok {} {} {}", j.id, j.name, j.priority),
            Err(e) => format!("err {}", crate::dynval::err_class(&e)),
        },
    }
}

/// `samename <order>`: order is a string over {a, b}: each letter encodes (7, "build", 3) with that Job and
/// decodes its own bytes again; one line per letter
pub fn run(args: &[String]) {
    crate::util::quiet_panics();
    for ch in args[0].chars() {
        let f = if ch == 'a' { job_a } else { job_b };
        let r = crate::util::guarded(move || {
            let e = f(7, "build", 3, None);
            let d = match e.strip_prefix("ok ") {
                Some(h) => f(0, "", 0, Some(&crate::util::unhex(h))),
                None => "-".to_string(),
            };
            format!("{ch} {e} ; {d}")
        });
        match r {
            Ok(s) => println!("{s}"),
            Err(p) => println!("{ch} panic {}", p.replace('\n', " ")),
        }
    }
}
