//! C18: two derived types with the SAME name in the same module (declared inside function bodies), with
//! different evolution histories. Whatever is keyed by a type's name or module path rather than by the type
//! itself would make the second one behave like the first one used.
use desert::BinaryCodec;

fn job_a(id: u32, name: &str, priority: u8, bytes: Option<&[u8]>) -> String {
    #[derive(BinaryCodec, Debug, PartialEq)]
    #[evolution(FieldAdded("priority", 3u8))]
    struct Job {
        id: u32,
        name: String,
        priority: u8,
    }
    match bytes {
        None => match desert::serialize_to_byte_vec(&Job { id, name: name.to_string(), priority }) {
            Ok(b) => format!("ok {}", crate::util::hex(&b)),
            Err(e) => format!("err {}", crate::dynval::err_class(&e)),
        },
        Some(b) => match desert::deserialize::<Job>(b) {
            Ok(j) => format!("ok {} {} {}", j.id, j.name, j.priority),
            Err(e) => format!("err {}", crate::dynval::err_class(&e)),
        },
    }
}

fn job_b(id: u32, name: &str, priority: u8, bytes: Option<&[u8]>) -> String {
    #[derive(BinaryCodec, Debug, PartialEq)]
    #[evolution(FieldAdded("name", "x".to_string()))]
    struct Job {
        id: u32,
        name: String,
        priority: u8,
    }
    match bytes {
        None => match desert::serialize_to_byte_vec(&Job { id, name: name.to_string(), priority }) {
            Ok(b) => format!("ok {}", crate::util::hex(&b)),
            Err(e) => format!("err {}", crate::dynval::err_class(&e)),
        },
        Some(b) => match desert::deserialize::<Job>(b) {
            Ok(j) => format!("ok {} {} {}", j.id, j.name, j.priority),
            Err(e) => format!("err {}", crate::dynval::err_class(&e)),
        },
    }
}

/// `samename <order>`: order is a string over {a, b}: each letter encodes (7, "build", 3) with that Job and
/// decodes its own bytes again; one line per letter
pub fn run(args: &[String]) {
    crate::util::quiet_panics();
    for ch in args[0].chars() {
        let f = if ch == 'a' { job_a } else { job_b };
        let r = crate::util::guarded(move || {
            let e = f(7, "build", 3, None);
            let d = match e.strip_prefix("ok ") {
                Some(h) => f(0, "", 0, Some(&crate::util::unhex(h))),
                None => "-".to_string(),
            };
            format!("{ch} {e} ; {d}")
        });
        match r {
            Ok(s) => println!("{s}"),
            Err(p) => println!("{ch} panic {}", p.replace('\n', " ")),
        }
    }
}


/// C18: `localtz FILE` - each line `Y M D H MI S`: a local date-time of the process's time zone (TZ). The value
/// `Local.from_local_datetime(..)` is encoded and decoded; the decoded value must be the same INSTANT with the same
/// offset (the codec stream prints local date-times only). One line per input: `ok <unix seconds> <offset seconds>`
/// for the original and for the decoded value.
pub fn localtz(args: &[String]) {
    use chrono::{Offset, TimeZone};
    let text = std::fs::read_to_string(&args[0]).expect("case file");
    for line in text.lines() {
        let t: Vec<i64> = line.split_whitespace().map(|x| x.parse().unwrap()).collect();
        if t.len() != 6 {
            continue;
        }
        let naive = chrono::NaiveDate::from_ymd_opt(t[0] as i32, t[1] as u32, t[2] as u32)
            .and_then(|d| d.and_hms_opt(t[3] as u32, t[4] as u32, t[5] as u32));
        let orig = naive.and_then(|n| chrono::Local.from_local_datetime(&n).single());
        match orig {
            None => println!("skip"),
            Some(o) => {
                let r = desert::serialize_to_byte_vec(&o).and_then(|b| desert::deserialize::<chrono::DateTime<chrono::Local>>(&b));
                match r {
                    Ok(d) => println!(
                        "ok {} {} ; {} {}",
                        o.timestamp(),
                        o.offset().fix().local_minus_utc(),
                        d.timestamp(),
                        d.offset().fix().local_minus_utc()
                    ),
                    Err(e) => println!("err {e:?}"),
                }
            }
        }
    }
}
