//! The main correspondence stream: encode / decode / round-trip of run-time chosen
//! (environment, type, value | bytes) cases through the public entry points.
use crate::dynval::*;
use crate::sx::{parse_all, Sx};
use crate::util::*;
use desert::{BinaryInput, BinaryOutput, BinarySerializer, DeserializationContext};
use std::io::{BufRead, Write};

/// A user-defined codec of the kind the public push_buffer / pop_buffer API exists for: the payload is rendered into a
/// temporary buffer, then written length-prefixed.
struct Framed<'a>(&'a Dyn);
impl desert::BinarySerializer for Framed<'_> {
    fn serialize<O: BinaryOutput>(&self, ctx: &mut desert::SerializationContext<O>) -> desert::Result<()> {
        ctx.push_buffer(Vec::new());
        let r = self.0.serialize(ctx);
        let payload = ctx.pop_buffer();
        r?;
        ctx.write_var_u32(payload.len() as u32);
        ctx.write_bytes(&payload);
        Ok(())
    }
}

fn vu(mut v: u32) -> Vec<u8> {
    let mut out = Vec::new();
    loop {
        if v < 128 {
            out.push(v as u8);
            return out;
        }
        out.push((v & 0x7f) as u8 | 0x80);
        v >>= 7;
    }
}

fn enc_line(ty: &Ty, v: &Sx) -> (String, Option<Vec<u8>>) {
    let d = build(ty, v);
    // under a caller-pushed buffer the value's bytes are the same, on every output, and the size calculator agrees
    let framed = desert::serialize_to_byte_vec(&Framed(&d));
    let framed_size = desert::serialize(&Framed(&d), desert::SizeCalculator::new()).map(|sc| sc.size());
    if let (Ok(f), Ok(plain)) = (&framed, desert::serialize_to_byte_vec(&d)) {
        let mut want = vu(plain.len() as u32);
        want.extend_from_slice(&plain);
        if *f != want {
            return (format!("entry-points-differ under-a-pushed-buffer={} plain={}", hex(f), hex(&plain)), None);
        }
        match framed_size {
            Ok(n) if n == f.len() => {}
            other => return (format!("entry-points-differ under-a-pushed-buffer: vec={} size-calculator={:?}", f.len(), other.ok()), None),
        }
    }
    // both convenience entry points (Vec<u8> and BytesMut sinks) must agree
    let via_bytes = desert::serialize_to_bytes(&d);
    // ... and the size calculator must report exactly the number of bytes written (or fail likewise)
    let size = desert::serialize(&d, desert::SizeCalculator::new()).map(|sc| sc.size());
    match desert::serialize_to_byte_vec(&d) {
        Ok(bytes) => match via_bytes {
            Ok(b) if b[..] == bytes[..] => match size {
                Ok(n) if n == bytes.len() => (format!("ok {} {}", hex(&bytes), print_val(&d, false)), Some(bytes)),
                Ok(n) => (format!("entry-points-differ vec={} size-calculator={}", bytes.len(), n), None),
                Err(e) => (format!("entry-points-differ vec=ok size-calculator=err {}", err_class(&e)), None),
            },
            Ok(b) => (format!("entry-points-differ vec={} bytes={}", hex(&bytes), hex(&b)), None),
            Err(e) => (format!("entry-points-differ vec=ok bytes=err {}", err_class(&e)), None),
        },
        Err(e) => match via_bytes {
            Err(e2) if err_class(&e2) == err_class(&e) => (format!("err {}", err_class(&e)), None),
            _ => (format!("entry-points-differ vec=err {}", err_class(&e)), None),
        },
    }
}

/// decode without printing the value (known finding F30: the decoded value is far larger than the input)
fn dec_quiet_line(ty: &Ty, bytes: &[u8]) -> String {
    reset_all();
    let mut ctx = DeserializationContext::new(bytes);
    window_begin();
    let r = decode(ty, &mut ctx);
    window_end();
    match r {
        Ok(_) => "ok".into(),
        Err(e) => format!("err {}", err_class(&e)),
    }
}

fn dec_line(ty: &Ty, bytes: &[u8]) -> String {
    reset_all();
    let mut ctx = DeserializationContext::new(bytes);
    window_begin();
    let r = decode(ty, &mut ctx);
    window_end();
    match r {
        Ok(v) => {
            let mut rest = 0usize;
            while ctx.read_u8().is_ok() {
                rest += 1;
            }
            format!("ok {} {}", print_val(&v, true), rest)
        }
        Err(e) => format!("err {}", err_class(&e)),
    }
}

pub fn cases(args: &[String]) {
    quiet_panics();
    let f = std::fs::File::open(&args[0]).expect("case file");
    let with_alloc = args.iter().any(|a| a == "--alloc");
    let limit_ms: u64 = args
        .iter()
        .find_map(|a| a.strip_prefix("--limit-ms=").map(|v| v.parse().unwrap()))
        .unwrap_or(10_000);
    start_watchdog(limit_ms);
    let out = std::io::stdout();
    let mut out = std::io::LineWriter::new(out.lock());
    let mut index = 0u64;
    let mut writer_env: Env = Vec::new();
    let mut reader_env: Env = Vec::new();
    // a declaration whose metadata cannot be built (AdtMetadata::new panics): with the derive macro the metadata
    // is built lazily inside the first encode / decode of the type, so every case under that declaration panics
    let mut env_panic: Option<String> = None;
    for line in std::io::BufReader::new(f).lines() {
        let line = line.unwrap();
        let line = line.trim();
        if line.is_empty() {
            continue;
        }
        case_begin(index);
        index += 1;
        reset_max_req();
        let (cmd, rest) = line.split_once(' ').unwrap_or((line, ""));
        let sx = parse_all(rest);
        let res: Result<String, String> = match cmd {
            "E" => {
                env_panic = None;
                let sx0 = sx[0].clone();
                match guarded(std::panic::AssertUnwindSafe(move || parse_env(&sx0))) {
                    Ok(e) => {
                        writer_env = e;
                        set_env(writer_env.clone());
                    }
                    Err(p) => env_panic = Some(p),
                }
                Ok("env".to_string())
            }
            _ if env_panic.is_some() && cmd != "E2" => Err(env_panic.clone().unwrap()),
            // a case the watchdog cut short in an earlier run of this file (see gen/common.py)
            "hang" => Ok("hang".to_string()),
            "E2" => {
                // the reading definition for `xrt`
                let sx0 = sx[0].clone();
                match guarded(std::panic::AssertUnwindSafe(move || parse_env(&sx0))) {
                    Ok(e) => reader_env = e,
                    Err(p) => env_panic = Some(p),
                }
                Ok("env".to_string())
            }
            "xrt" => {
                // encode with the writer's environment / type, decode with the reader's
                let ty = parse_ty(&sx[0]);
                let v = sx[1].clone();
                let ty_r = parse_ty(&sx[2]);
                let suffix = unhex(sx[3].atom());
                set_env(writer_env.clone());
                let e = guarded(std::panic::AssertUnwindSafe(move || enc_line(&ty, &v)));
                let r = match e {
                    Err(p) => format!("panic {} ; -", p.replace('\n', " ")),
                    Ok((l, None)) => format!("{l} ; -"),
                    Ok((l, Some(mut bytes))) => {
                        bytes.extend_from_slice(&suffix);
                        set_env(reader_env.clone());
                        let d = guarded(std::panic::AssertUnwindSafe(move || dec_line(&ty_r, &bytes)));
                        match d {
                            Ok(dl) => format!("{l} ; {dl}"),
                            Err(p) => format!("{l} ; panic {}", p.replace('\n', " ")),
                        }
                    }
                };
                set_env(writer_env.clone());
                Ok(r)
            }
            "enc" => {
                let ty = parse_ty(&sx[0]);
                let v = sx[1].clone();
                guarded(std::panic::AssertUnwindSafe(move || enc_line(&ty, &v).0))
            }
            "encit" => {
                // the top-level sequence written through serialize_iterator with an inexact size hint
                let ty = parse_ty(&sx[0]);
                let v = sx[1].clone();
                guarded(std::panic::AssertUnwindSafe(move || {
                    let d = build(&ty, &v);
                    let items: Vec<Dyn> = match d {
                        Dyn::Vec(x) | Dyn::Slice(x) | Dyn::Arr(x) => x,
                        Dyn::LL(x) => x.into_iter().collect(),
                        _ => panic!("encit needs an ordered sequence"),
                    };
                    struct Inexact<'a>(std::slice::Iter<'a, Dyn>);
                    impl<'a> Iterator for Inexact<'a> {
                        type Item = &'a Dyn;
                        fn next(&mut self) -> Option<&'a Dyn> {
                            self.0.next()
                        }
                        fn size_hint(&self) -> (usize, Option<usize>) {
                            (0, None)
                        }
                    }
                    let mut ctx = desert::SerializationContext::new(Vec::<u8>::new());
                    match desert::serialize_iterator(&mut Inexact(items.iter()), &mut ctx) {
                        Ok(()) => format!("ok {}", hex(&ctx.into_output())),
                        Err(e) => format!("err {}", err_class(&e)),
                    }
                }))
            }
            "dec" => {
                let ty = parse_ty(&sx[0]);
                let bytes = unhex(sx[1].atom());
                guarded(std::panic::AssertUnwindSafe(move || dec_line(&ty, &bytes)))
            }
            "decq" => {
                let ty = parse_ty(&sx[0]);
                let bytes = unhex(sx[1].atom());
                guarded(std::panic::AssertUnwindSafe(move || dec_quiet_line(&ty, &bytes)))
            }
            "rt" => {
                // encode, then decode the encoding followed by a suffix
                let ty = parse_ty(&sx[0]);
                let v = sx[1].clone();
                let suffix = unhex(sx[2].atom());
                let ty2 = ty.clone();
                let e = guarded(std::panic::AssertUnwindSafe(move || enc_line(&ty2, &v)));
                match e {
                    Err(p) => Ok(format!("panic {} ; -", p.replace('\n', " "))),
                    Ok((l, None)) => Ok(format!("{l} ; -")),
                    Ok((l, Some(mut bytes))) => {
                        bytes.extend_from_slice(&suffix);
                        let d = guarded(std::panic::AssertUnwindSafe(move || dec_line(&ty, &bytes)));
                        Ok(match d {
                            Ok(dl) => format!("{l} ; {dl}"),
                            Err(p) => format!("{l} ; panic {}", p.replace('\n', " ")),
                        })
                    }
                }
            }
            _ => panic!("bad command {cmd}"),
        };
        let alloc = if with_alloc && cmd != "E" && cmd != "E2" { format!(" A{},{}", max_req(), window_peak()) } else { String::new() };
        match res {
            Ok(s) => writeln!(out, "{s}{alloc}").unwrap(),
            Err(p) => writeln!(out, "panic {}{alloc}", p.replace('\n', " ")).unwrap(),
        }
    }
}
