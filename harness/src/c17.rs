//! C17: encoding never panics - exhaustive and extreme-size probes that need no case file.
use crate::dynval::err_class;
use crate::util::*;
use desert::{serialize_iterator, serialize_to_byte_vec, SerializationContext};

/// every Unicode scalar value: Ok(2 bytes big-endian) below 0x10000, UnsupportedCharacter above
fn chars() -> String {
    let mut ok = 0u32;
    let mut unsupported = 0u32;
    for cp in 0u32..=0x10ffff {
        let Some(c) = char::from_u32(cp) else { continue };
        let r = guarded(move || serialize_to_byte_vec(&c));
        match r {
            Err(_) => return format!("CHARS fail panic at U+{cp:X}"),
            Ok(Ok(b)) => {
                if cp >= 0x10000 || b != [(cp >> 8) as u8, cp as u8] {
                    return format!("CHARS fail U+{cp:X} encoded as {}", hex(&b));
                }
                ok += 1;
            }
            Ok(Err(e)) => {
                if cp < 0x10000 || err_class(&e) != "UnsupportedCharacter" {
                    return format!("CHARS fail U+{cp:X} gave {}", err_class(&e));
                }
                unsupported += 1;
            }
        }
    }
    format!("CHARS ok {ok} {unsupported}")
}

struct Fake {
    hint: usize,
    yield_n: usize,
}
impl Iterator for Fake {
    type Item = u8;
    fn next(&mut self) -> Option<u8> {
        if self.yield_n == 0 {
            None
        } else {
            self.yield_n -= 1;
            Some(7)
        }
    }
    fn size_hint(&self) -> (usize, Option<usize>) {
        (self.hint, Some(self.hint))
    }
}

fn lens() -> Vec<String> {
    let mut out = Vec::new();
    // zero-width elements: the length check is all that happens
    for n in [(1usize << 31) - 1, 1 << 31, (1 << 31) + 1, 1 << 32, usize::MAX >> 1] {
        let r = guarded(move || {
            let v: Vec<()> = vec![(); n];
            serialize_to_byte_vec(&v)
        });
        out.push(match r {
            Err(p) => format!("LEN vec_unit {n} panic {p}"),
            Ok(Ok(b)) => format!("LEN vec_unit {n} ok {}", hex(&b)),
            Ok(Err(e)) => format!("LEN vec_unit {n} err {}", err_class(&e)),
        });
    }
    // strings around the 31-bit limit of their length prefix, counted by the size calculator (the bytes are never
    // touched: zeroed pages, no validation, no copy)
    for n in [(1usize << 31) - 1, 1 << 31, (1 << 31) + 5, (1usize << 32) - 1] {
        let r = guarded(move || {
            let s = unsafe { String::from_utf8_unchecked(vec![0u8; n]) };
            desert::serialize(&s, desert::SizeCalculator::new()).map(|c| c.size())
        });
        out.push(match r {
            Err(p) => format!("LEN str {n} panic {p}"),
            Ok(Ok(size)) => format!("LEN str {n} ok size={size}"),
            Ok(Err(e)) => format!("LEN str {n} err {}", err_class(&e)),
        });
    }
    // fixed-size arrays of zero-width elements: the length is a const generic, the array costs no memory
    fn arr<const N: usize>(out: &mut Vec<String>) {
        let r = guarded(move || serialize_to_byte_vec(&[(); N]));
        out.push(match r {
            Err(p) => format!("LEN arr_unit {N} panic {p}"),
            Ok(Ok(b)) => format!("LEN arr_unit {N} ok {}", hex(&b)),
            Ok(Err(e)) => format!("LEN arr_unit {N} err {}", err_class(&e)),
        });
    }
    arr::<{ 1usize << 31 }>(&mut out);
    arr::<{ (1usize << 31) + 1 }>(&mut out);
    arr::<{ 1usize << 32 }>(&mut out);
    arr::<{ usize::MAX >> 1 }>(&mut out);
    // iterators whose exact size hint exceeds i32::MAX
    for hint in [(1usize << 31) - 1, 1 << 31, 1 << 32, usize::MAX] {
        let r = guarded(move || {
            let mut ctx = SerializationContext::new(Vec::<u8>::new());
            serialize_iterator(&mut Fake { hint, yield_n: 3 }, &mut ctx).map(|_| ctx.into_output())
        });
        out.push(match r {
            Err(p) => format!("LEN hint {hint} panic {p}"),
            Ok(Ok(b)) => format!("LEN hint {hint} ok {}", hex(&b)),
            Ok(Err(e)) => format!("LEN hint {hint} err {}", err_class(&e)),
        });
    }
    out
}

/// date-times at the ends of chrono's range, seen through every kind of offset: the local time the
/// format stores may not be representable; that must be an error, not an unwind
fn datetimes() -> Vec<String> {
    use chrono::{DateTime, FixedOffset, TimeZone, Utc};
    let mut out = Vec::new();
    let ends = [DateTime::<Utc>::MIN_UTC, DateTime::<Utc>::MAX_UTC];
    for (i, end) in ends.iter().enumerate() {
        for delta in [0i64, 1, 3599, 3600, 86398, 86399, 86400, 200000] {
            let utc = if i == 0 { *end + chrono::TimeDelta::seconds(delta) } else { *end - chrono::TimeDelta::seconds(delta) };
            for off in [0i32, 1, -1, 3600, -3600, 86399, -86399] {
                let v = utc.with_timezone(&FixedOffset::east_opt(off).unwrap());
                let r = guarded(move || serialize_to_byte_vec(&v));
                out.push(format!("DT fixed {} {off} {}", utc.timestamp(), match r {
                    Err(_) => "panic".to_string(),
                    Ok(Ok(b)) => format!("ok {}", hex(&b)),
                    Ok(Err(e)) => format!("err {}", err_class(&e)),
                }));
            }
            for tz in [chrono_tz::Tz::UTC, chrono_tz::Tz::Asia__Tokyo, chrono_tz::Tz::America__Los_Angeles] {
                let v = tz.from_utc_datetime(&utc.naive_utc());
                let r = guarded(move || serialize_to_byte_vec(&v));
                out.push(format!("DT tz {} {} {}", utc.timestamp(), tz.name(), match r {
                    Err(_) => "panic".to_string(),
                    Ok(Ok(b)) => format!("ok {}", hex(&b)),
                    Ok(Err(e)) => format!("err {}", err_class(&e)),
                }));
            }
            let v = utc.with_timezone(&chrono::Local);
            let local_off = chrono::Offset::fix(v.offset()).local_minus_utc();
            let r = guarded(move || serialize_to_byte_vec(&v));
            out.push(format!("DT local {} {local_off} {}", utc.timestamp(), match r {
                Err(_) => "panic".to_string(),
                Ok(Ok(b)) => format!("ok {}", hex(&b)),
                Ok(Err(e)) => format!("err {}", err_class(&e)),
            }));
        }
    }
    out
}

pub fn run(args: &[String]) {
    quiet_panics();
    if args.first().map(|a| a == "datetimes-only").unwrap_or(false) {
        for l in datetimes() {
            println!("{l}");
        }
        return;
    }
    println!("{}", chars());
    for l in lens() {
        println!("{l}");
    }
    for l in datetimes() {
        println!("{l}");
    }
}
