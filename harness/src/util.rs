use std::fmt::Write;

pub fn hex(bytes: &[u8]) -> String {
    let mut s = String::with_capacity(bytes.len() * 2);
    for b in bytes {
        write!(s, "{:02x}", b).unwrap();
    }
    if s.is_empty() {
        s.push('-');
    }
    s
}

pub fn unhex(s: &str) -> Vec<u8> {
    if s == "-" {
        return Vec::new();
    }
    let b = s.as_bytes();
    assert!(b.len() % 2 == 0, "odd hex");
    (0..b.len() / 2)
        .map(|i| u8::from_str_radix(&s[2 * i..2 * i + 2], 16).expect("hex"))
        .collect()
}

/// Run `f`, mapping a panic to Err(message).
pub fn guarded<T>(f: impl FnOnce() -> T + std::panic::UnwindSafe) -> Result<T, String> {
    std::panic::catch_unwind(f).map_err(|e| {
        if let Some(s) = e.downcast_ref::<&str>() {
            s.to_string()
        } else if let Some(s) = e.downcast_ref::<String>() {
            s.clone()
        } else {
            "panic".to_string()
        }
    })
}

pub fn quiet_panics() {
    std::panic::set_hook(Box::new(|_| {}));
}


// ---------------------------------------------------------------------------------
// counting allocator: the largest single request since the last reset, and the bytes live at the
// highest point of a measured window (decode_window_begin .. decode_window_end)
use std::alloc::{GlobalAlloc, Layout, System};
use std::sync::atomic::{AtomicU64, AtomicUsize, Ordering};

pub struct Counting;
pub static MAX_REQ: AtomicUsize = AtomicUsize::new(0);
pub static LIVE: AtomicUsize = AtomicUsize::new(0);
pub static PEAK: AtomicUsize = AtomicUsize::new(0);
pub static WINDOW_BASE: AtomicUsize = AtomicUsize::new(0);
pub static WINDOW_PEAK: AtomicUsize = AtomicUsize::new(0);

#[inline]
fn grew(by: usize) {
    let live = LIVE.fetch_add(by, Ordering::Relaxed) + by;
    PEAK.fetch_max(live, Ordering::Relaxed);
}

unsafe impl GlobalAlloc for Counting {
    unsafe fn alloc(&self, l: Layout) -> *mut u8 {
        MAX_REQ.fetch_max(l.size(), Ordering::Relaxed);
        grew(l.size());
        System.alloc(l)
    }
    unsafe fn dealloc(&self, p: *mut u8, l: Layout) {
        LIVE.fetch_sub(l.size(), Ordering::Relaxed);
        System.dealloc(p, l)
    }
    unsafe fn realloc(&self, p: *mut u8, l: Layout, new_size: usize) -> *mut u8 {
        MAX_REQ.fetch_max(new_size, Ordering::Relaxed);
        if new_size >= l.size() {
            grew(new_size - l.size());
        } else {
            LIVE.fetch_sub(l.size() - new_size, Ordering::Relaxed);
        }
        System.realloc(p, l, new_size)
    }
    unsafe fn alloc_zeroed(&self, l: Layout) -> *mut u8 {
        MAX_REQ.fetch_max(l.size(), Ordering::Relaxed);
        grew(l.size());
        System.alloc_zeroed(l)
    }
}

pub fn reset_max_req() {
    MAX_REQ.store(0, Ordering::Relaxed);
    WINDOW_PEAK.store(0, Ordering::Relaxed);
}
pub fn max_req() -> usize {
    MAX_REQ.load(Ordering::Relaxed)
}
/// start of a measured window: what is live now is the baseline
pub fn window_begin() {
    let live = LIVE.load(Ordering::Relaxed);
    WINDOW_BASE.store(live, Ordering::Relaxed);
    PEAK.store(live, Ordering::Relaxed);
}
/// end of a measured window: the most that was live above the baseline (kept until reset_max_req)
pub fn window_end() {
    let over = PEAK.load(Ordering::Relaxed).saturating_sub(WINDOW_BASE.load(Ordering::Relaxed));
    WINDOW_PEAK.fetch_max(over, Ordering::Relaxed);
}
pub fn window_peak() -> usize {
    WINDOW_PEAK.load(Ordering::Relaxed)
}

// ---------------------------------------------------------------------------------
// watchdog: a case that runs longer than the limit ends the process with exit code 3
// after reporting its index on stderr (the driver resumes after it)
pub static CASE_INDEX: AtomicU64 = AtomicU64::new(0);
pub static CASE_START_MS: AtomicU64 = AtomicU64::new(0);

fn now_ms() -> u64 {
    std::time::SystemTime::now().duration_since(std::time::UNIX_EPOCH).unwrap().as_millis() as u64
}

pub fn case_begin(index: u64) {
    CASE_INDEX.store(index, Ordering::SeqCst);
    CASE_START_MS.store(now_ms(), Ordering::SeqCst);
}

pub fn start_watchdog(limit_ms: u64) {
    CASE_START_MS.store(now_ms(), Ordering::SeqCst);
    std::thread::spawn(move || loop {
        std::thread::sleep(std::time::Duration::from_millis(50));
        let st = CASE_START_MS.load(Ordering::SeqCst);
        if st != 0 && now_ms().saturating_sub(st) > limit_ms {
            eprintln!("HANG {}", CASE_INDEX.load(Ordering::SeqCst));
            std::process::exit(3);
        }
    });
}
