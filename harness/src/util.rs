use std::fmt::Write;

pub fn hex(bytes: &[u8]) -> String {
    let mut s = String::with_capacity(bytes.len() * 2);
    for b in bytes {
        write!(s, "{:02x}", b).unwrap();
    }
    if s.is_empty() {
        s.push('-');
    }
    s
}

pub fn unhex(s: &str) -> Vec<u8> {
    if s == "-" {
        return Vec::new();
    }
    let b = s.as_bytes();
    assert!(b.len() % 2 == 0, "odd hex");
    (0..b.len() / 2)
        .map(|i| u8::from_str_radix(&s[2 * i..2 * i + 2], 16).expect("hex"))
        .collect()
}

/// Run `f`, mapping a panic to Err(message).
pub fn guarded<T>(f: impl FnOnce() -> T + std::panic::UnwindSafe) -> Result<T, String> {
    std::panic::catch_unwind(f).map_err(|e| {
        if let Some(s) = e.downcast_ref::<&str>() {
            s.to_string()
        } else if let Some(s) = e.downcast_ref::<String>() {
            s.clone()
        } else {
            "panic".to_string()
        }
    })
}

pub fn quiet_panics() {
    std::panic::set_hook(Box::new(|_| {}));
}
