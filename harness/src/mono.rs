//! Monomorphic catalogue: concrete Rust types at the boundaries of the library's type-directed
//! special cases (the castaway test for `u8` in `Vec<T>` / `[T; N]`, `transmute` layouts), which the
//! dynamic route (element type `Dyn`) cannot reach. Keyed by the type expression of the case language.
use crate::sx::Sx;
use crate::sxv::*;
use std::collections::LinkedList;
use std::rc::Rc;
use std::sync::Arc;

macro_rules! mono {
    ($($name:literal => $t:ty),* $(,)?) => {
        pub const MONO_TYPES: &[&str] = &[$($name),*];
        pub fn mono_enc(name: &str, s: &Sx) -> Option<desert::Result<Vec<u8>>> {
            Some(match name {
                $($name => {
                    let v = <$t as Sxv>::from_sx(s);
                    let bytes = desert::serialize_to_byte_vec(&v);
                    // the size calculator must count exactly the bytes written
                    let size = desert::serialize(&v, desert::SizeCalculator::new()).map(|c| c.size());
                    match (&bytes, size) {
                        (Ok(b), Ok(n)) if b.len() != n => panic!("size calculator reports {} bytes, {} were written", n, b.len()),
                        (Ok(_), Err(e)) => panic!("size calculator fails ({e:?}) where the value encodes"),
                        _ => {}
                    }
                    bytes
                })*
                _ => return slice_enc(name, s),
            })
        }
        pub fn mono_dec(name: &str, bytes: &[u8]) -> Option<desert::Result<(String, usize)>> {
            Some(match name {
                $($name => dec_with_rest::<$t>(bytes),)*
                _ => return slice_dec(name, bytes),
            })
        }
    };
}

mono! {
    "(arr 0 bool)" => [bool; 0],
    "(arr 1 bool)" => [bool; 1],
    "(arr 3 bool)" => [bool; 3],
    "(arr 2 i8)" => [i8; 2],
    "(arr 17 i8)" => [i8; 17],
    "(arr 2 (arr 1 u8))" => [[u8; 1]; 2],
    "(arr 2 (arr 2 u8))" => [[u8; 2]; 2],
    "(arr 3 (arr 0 u8))" => [[u8; 0]; 3],
    "(arr 3 u16)" => [u16; 3],
    "(arr 2 char)" => [char; 2],
    "(arr 2 (tup u8))" => [(u8,); 2],
    "(arr 2 (opt u8))" => [Option<u8>; 2],
    "(arr 2 str)" => [String; 2],
    "(arr 2 unit)" => [(); 2],
    "(arr 0 u8)" => [u8; 0],
    "(arr 1 u8)" => [u8; 1],
    "(arr 33 u8)" => [u8; 33],
    "(arr 2 (box u8))" => [Box<u8>; 2],
    "(vec i8)" => Vec<i8>,
    "(vec bool)" => Vec<bool>,
    "(vec (arr 1 u8))" => Vec<[u8; 1]>,
    "(vec u8)" => Vec<u8>,
    "(vec (vec u8))" => Vec<Vec<u8>>,
    "(vec (box u8))" => Vec<Box<u8>>,
    "(vec (opt u8))" => Vec<Option<u8>>,
    "(vec (tup u8))" => Vec<(u8,)>,
    "(vec u16)" => Vec<u16>,
    "(vec (arr 0 u8))" => Vec<[u8; 0]>,
    "(ll (arr 0 u8))" => LinkedList<[u8; 0]>,
    "(vec i64)" => Vec<i64>,
    "(vec u32)" => Vec<u32>,
    "(vec i128)" => Vec<i128>,
    "(ll i64)" => LinkedList<i64>,
    "(arr 3 i64)" => [i64; 3],
    "(vec (arr 64 u16))" => Vec<[u16; 64]>,
    "(vec (arr 100 i32))" => Vec<[i32; 100]>,
    "(vec (arr 127 bool))" => Vec<[bool; 127]>,
    "(vec (arr 63 u16))" => Vec<[u16; 63]>,
    "(ll (arr 64 i8))" => LinkedList<[i8; 64]>,
    "(opt (arr 64 u16))" => Option<[u16; 64]>,
    "(tup u8 (arr 100 i32))" => (u8, [i32; 100]),
    "(arr 127 u8)" => [u8; 127],
    "(arr 128 u8)" => [u8; 128],
    "(arr 255 u8)" => [u8; 255],
    "(arr 256 u8)" => [u8; 256],
    "(arr 1022 u8)" => [u8; 1022],
    "(arr 1023 u8)" => [u8; 1023],
    "(arr 1024 u8)" => [u8; 1024],
    "(arr 1025 u8)" => [u8; 1025],
    "(ll u8)" => LinkedList<u8>,
    "(ll i8)" => LinkedList<i8>,
    "(box (arr 4 u8))" => Box<[u8; 4]>,
    "(box (vec u8))" => Box<Vec<u8>>,
    "(rc (vec u8))" => Rc<Vec<u8>>,
    "(arc (arr 2 i8))" => Arc<[i8; 2]>,
    "(opt (vec u8))" => Option<Vec<u8>>,
    "(opt (arr 2 bool))" => Option<[bool; 2]>,
    "(res (vec u8) (arr 2 i8))" => Result<Vec<u8>, [i8; 2]>,
    "(tup (vec u8) (arr 2 i8))" => (Vec<u8>, [i8; 2]),
    "(tup (arr 3 bool) (vec i8))" => ([bool; 3], Vec<i8>),
}

// Unsized slices are write-only types (`impl BinarySerializer for [T]`, reached through `&[T]`, `Rc<[T]>`, `Box<Vec<T>>`
// derefs): what they write is read back as `Vec<T>`. Both ways of reaching the impl must give the same bytes.
macro_rules! slices {
    ($($name:literal => $t:ty),* $(,)?) => {
        pub const SLICE_TYPES: &[&str] = &[$($name),*];
        fn slice_enc(name: &str, s: &Sx) -> Option<desert::Result<Vec<u8>>> {
            Some(match name {
                $($name => {
                    let v = <Vec<$t> as Sxv>::from_sx(s);
                    let by_ref = desert::serialize_to_byte_vec(&&v[..]);
                    let by_rc = desert::serialize_to_byte_vec(&Rc::<[$t]>::from(v));
                    match (by_ref, by_rc) {
                        (Ok(a), Ok(b)) if a == b => Ok(a),
                        (Ok(a), Ok(b)) => panic!("&[T] and Rc<[T]> write different bytes: {:?} / {:?}", a, b),
                        (Err(e), _) | (_, Err(e)) => Err(e),
                    }
                })*
                _ => return None,
            })
        }
        fn slice_dec(name: &str, bytes: &[u8]) -> Option<desert::Result<(String, usize)>> {
            Some(match name {
                $($name => dec_with_rest::<Vec<$t>>(bytes),)*
                _ => return None,
            })
        }
    };
}

slices! {
    "(slice i8)" => i8,
    "(slice bool)" => bool,
    "(slice u8)" => u8,
    "(slice u16)" => u16,
    "(slice (arr 1 u8))" => [u8; 1],
    "(slice (opt u8))" => Option<u8>,
    "(slice (tup u8))" => (u8,),
    "(slice unit)" => (),
    "(slice str)" => String,
    "(slice (arr 0 u8))" => [u8; 0],
    "(slice i64)" => i64,
}
