//! Static route: the compiled catalogue of real #[derive(BinaryCodec)] types.
//! Lines: `senc NAME VAL` | `sdec NAME HEX` | `srt NAME VAL SUFFIX` | `sx WNAME VAL RNAME SUFFIX`
//! (encode as WNAME, decode as RNAME). Output format as in the codec stream.
use crate::catalogue::{static_dec, static_enc};
use crate::dynval::err_class;
use crate::sx::parse_all;
use crate::util::*;
use std::io::{BufRead, Write};

fn enc(name: &str, v: &crate::sx::Sx) -> (String, Option<Vec<u8>>) {
    match static_enc(name, v).unwrap_or_else(|| panic!("no catalogue type {name}")) {
        Ok(b) => (format!("ok {}", hex(&b)), Some(b)),
        Err(e) => (format!("err {}", err_class(&e)), None),
    }
}

fn dec(name: &str, bytes: &[u8]) -> String {
    match static_dec(name, bytes).unwrap_or_else(|| panic!("no catalogue type {name}")) {
        Ok((v, rest)) => format!("ok {v} {rest}"),
        Err(e) => format!("err {}", err_class(&e)),
    }
}

pub fn cases(args: &[String]) {
    quiet_panics();
    let f = std::fs::File::open(&args[0]).expect("case file");
    start_watchdog(10_000);
    let out = std::io::stdout();
    let mut out = std::io::LineWriter::new(out.lock());
    let mut index = 0u64;
    for line in std::io::BufReader::new(f).lines() {
        let line = line.unwrap();
        let line = line.trim().to_string();
        if line.is_empty() {
            continue;
        }
        case_begin(index);
        index += 1;
        if line == "hang" {
            // a case the watchdog cut short in an earlier run of this file (see gen/common.py)
            writeln!(out, "hang").unwrap();
            continue;
        }
        let (cmd, rest) = line.split_once(' ').unwrap();
        let sx = parse_all(rest);
        let r = match cmd {
            "senc" => {
                let n = sx[0].atom().to_string();
                let v = sx[1].clone();
                guarded(std::panic::AssertUnwindSafe(move || enc(&n, &v).0))
            }
            "sdec" => {
                let n = sx[0].atom().to_string();
                let b = unhex(sx[1].atom());
                guarded(std::panic::AssertUnwindSafe(move || dec(&n, &b)))
            }
            "srt" | "sx" => {
                let wn = sx[0].atom().to_string();
                let v = sx[1].clone();
                let (rn, sfx) = if cmd == "srt" {
                    (wn.clone(), unhex(sx[2].atom()))
                } else {
                    (sx[2].atom().to_string(), unhex(sx[3].atom()))
                };
                let e = guarded(std::panic::AssertUnwindSafe(move || enc(&wn, &v)));
                match e {
                    Err(p) => Ok(format!("panic {} ; -", p.replace('\n', " "))),
                    Ok((l, None)) => Ok(format!("{l} ; -")),
                    Ok((l, Some(mut b))) => {
                        b.extend_from_slice(&sfx);
                        match guarded(std::panic::AssertUnwindSafe(move || dec(&rn, &b))) {
                            Ok(d) => Ok(format!("{l} ; {d}")),
                            Err(p) => Ok(format!("{l} ; panic {}", p.replace('\n', " "))),
                        }
                    }
                }
            }
            "mrt" => {
                // monomorphic catalogue: `mrt TYPE VALUE SUFFIX`, keyed by the text of TYPE
                let name = sx[0].show();
                let v = sx[1].clone();
                let sfx = unhex(sx[2].atom());
                let n2 = name.clone();
                let e = guarded(std::panic::AssertUnwindSafe(move || {
                    match crate::mono::mono_enc(&name, &v).unwrap_or_else(|| panic!("no monomorphic type {name}")) {
                        Ok(b) => (format!("ok {}", if b.is_empty() { "-".to_string() } else { hex(&b) }), Some(b)),
                        Err(e) => (format!("err {}", err_class(&e)), None),
                    }
                }));
                match e {
                    Err(p) => Ok(format!("panic {} ; -", p.replace('\n', " "))),
                    Ok((l, None)) => Ok(format!("{l} ; -")),
                    Ok((l, Some(mut b))) => {
                        b.extend_from_slice(&sfx);
                        match guarded(std::panic::AssertUnwindSafe(move || match crate::mono::mono_dec(&n2, &b).unwrap() {
                            Ok((v, rest)) => format!("ok {v} {rest}"),
                            Err(e) => format!("err {}", err_class(&e)),
                        })) {
                            Ok(d) => Ok(format!("{l} ; {d}")),
                            Err(p) => Ok(format!("{l} ; panic {}", p.replace('\n', " "))),
                        }
                    }
                }
            }
            "mdec" => {
                let name = sx[0].show();
                let b = unhex(sx[1].atom());
                guarded(std::panic::AssertUnwindSafe(move || match crate::mono::mono_dec(&name, &b).unwrap_or_else(|| panic!("no monomorphic type {name}")) {
                    Ok((v, rest)) => format!("ok {v} {rest}"),
                    Err(e) => format!("err {}", err_class(&e)),
                }))
            }
            _ => panic!("bad static command {cmd}"),
        };
        match r {
            Ok(s) => writeln!(out, "{s}").unwrap(),
            Err(p) => writeln!(out, "panic {}", p.replace('\n', " ")).unwrap(),
        }
    }
}

/// C18: N threads released by a barrier make the FIRST use (in this fresh process) of the same
/// derived types, each running all jobs of the file in its own shuffled order. One output line per
/// job: the result if all threads agree, `DIVERGE ...` otherwise.
pub fn contend(args: &[String]) {
    quiet_panics();
    let text = std::fs::read_to_string(&args[0]).expect("case file");
    let threads: usize = args.get(1).map(|s| s.parse().unwrap()).unwrap_or(16);
    let seed: u64 = args.get(2).map(|s| s.parse().unwrap()).unwrap_or(1);
    let jobs: std::sync::Arc<Vec<String>> =
        std::sync::Arc::new(text.lines().map(|l| l.trim().to_string()).filter(|l| !l.is_empty()).collect());
    let barrier = std::sync::Arc::new(std::sync::Barrier::new(threads));
    let mut handles = Vec::new();
    for t in 0..threads {
        let jobs = jobs.clone();
        let barrier = barrier.clone();
        handles.push(std::thread::spawn(move || {
            // a per-thread permutation (xorshift)
            let mut order: Vec<usize> = (0..jobs.len()).collect();
            let mut x = seed.wrapping_mul(0x9E3779B97F4A7C15) ^ ((t as u64 + 1) << 32) | 1;
            for i in (1..order.len()).rev() {
                x ^= x << 13;
                x ^= x >> 7;
                x ^= x << 17;
                order.swap(i, (x % (i as u64 + 1)) as usize);
            }
            let mut out = vec![String::new(); jobs.len()];
            barrier.wait();
            for j in order {
                let line = &jobs[j];
                let (cmd, rest) = line.split_once(' ').unwrap();
                let sx = parse_all(rest);
                assert_eq!(cmd, "srt");
                let n = sx[0].atom().to_string();
                let v = sx[1].clone();
                let sfx = unhex(sx[2].atom());
                let r = guarded(std::panic::AssertUnwindSafe(|| match enc(&n, &v) {
                    (l, None) => format!("{l} ; -"),
                    (l, Some(mut b)) => {
                        b.extend_from_slice(&sfx);
                        format!("{l} ; {}", dec(&n, &b))
                    }
                }));
                out[j] = r.unwrap_or_else(|p| format!("panic {p}"));
            }
            out
        }));
    }
    let results: Vec<Vec<String>> = handles.into_iter().map(|h| h.join().expect("thread")).collect();
    let stdout = std::io::stdout();
    let mut w = std::io::BufWriter::new(stdout.lock());
    for j in 0..jobs.len() {
        let first = &results[0][j];
        if results.iter().all(|r| &r[j] == first) {
            writeln!(w, "{first}").unwrap();
        } else {
            let all: Vec<&str> = results.iter().map(|r| r[j].as_str()).collect();
            writeln!(w, "DIVERGE {}", all.join(" || ")).unwrap();
        }
    }
}

/// C05 / F27: `deep <N> [thread]` decodes a derived recursive type (catalogue `List { head: i32, tail:
/// Option<Box<List>> }`) from an input nested N levels deep, on the main thread or on a spawned thread with
/// the default stack. The decoded value is leaked so that only the decoder's own recursion is measured. A stack
/// overflow aborts the process (SIGABRT), which is what the caller observes.
fn zigzag_vi(n: usize) -> Vec<u8> {
    let mut z = (n as u32) << 1;
    let mut out = Vec::new();
    loop {
        if z < 128 {
            out.push(z as u8);
            return out;
        }
        out.push((z & 0x7f) as u8 | 0x80);
        z >>= 7;
    }
}

/// `deep N [main|thread] [ev]`: a recursive list nested N deep; with `ev` the list type has an evolution step, so
/// every level is a record with a header and two chunks (the decoder opens a chunk region per level)
pub fn deep(args: &[String]) {
    let n: usize = args[0].parse().unwrap();
    let on_thread = args.get(1).map(|s| s == "thread").unwrap_or(false);
    if args.get(2).map(|s| s == "ev").unwrap_or(false) {
        // ListEv { head, tail, note } with FieldAdded("note"): 01 size(c0) size(c1) c0 c1, built inside out
        let mut inner: Vec<u8> = vec![1, 10, 2, 0, 0, 0, 0, 0, 0];
        for _ in 0..n {
            let mut c0 = vec![0, 0, 0, 7, 1];
            c0.extend_from_slice(&inner);
            let mut rec = vec![1];
            rec.extend_from_slice(&zigzag_vi(c0.len()));
            rec.push(2);
            rec.extend_from_slice(&c0);
            rec.push(0);
            inner = rec;
        }
        let run = move || {
            let r = desert::deserialize::<crate::catalogue::ListEv>(&inner);
            let s = match &r {
                Ok(_) => "ok".to_string(),
                Err(e) => format!("err {}", err_class(e)),
            };
            std::mem::forget(r);
            s
        };
        let s = if on_thread { std::thread::spawn(run).join().unwrap_or_else(|_| "panic".to_string()) } else { std::panic::catch_unwind(run).unwrap_or_else(|_| "panic".to_string()) };
        println!("DEEP {n} {s}");
        return;
    }
    let mut bytes = Vec::with_capacity(6 * n + 6);
    for _ in 0..n {
        bytes.extend_from_slice(&[0, 0, 0, 0, 1, 1]);
    }
    bytes.extend_from_slice(&[0, 0, 0, 0, 1, 0]);
    let run = move || {
        let r = desert::deserialize::<crate::catalogue::List>(&bytes);
        let s = match &r {
            Ok(_) => "ok".to_string(),
            Err(e) => format!("err {}", err_class(e)),
        };
        std::mem::forget(r);
        s
    };
    let s = if on_thread { std::thread::spawn(run).join().unwrap() } else { run() };
    println!("DEEP {n} {s}");
}
