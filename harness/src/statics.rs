//! Static route: the compiled catalogue of real #[derive(BinaryCodec)] types.
//! Lines: `senc NAME VAL` | `sdec NAME HEX` | `srt NAME VAL SUFFIX` | `sx WNAME VAL RNAME SUFFIX`
//! (encode as WNAME, decode as RNAME). Output format as in the codec stream.
use crate::catalogue::{static_dec, static_enc};
use crate::dynval::err_class;
use crate::sx::parse_all;
use crate::util::*;
use std::io::{BufRead, Write};

fn enc(name: &str, v: &crate::sx::Sx) -> (String, Option<Vec<u8>>) {
    match static_enc(name, v).unwrap_or_else(|| panic!("no catalogue type {name}")) {
        Ok(b) => (format!("ok {}", hex(&b)), Some(b)),
        Err(e) => (format!("err {}", err_class(&e)), None),
    }
}

fn dec(name: &str, bytes: &[u8]) -> String {
    match static_dec(name, bytes).unwrap_or_else(|| panic!("no catalogue type {name}")) {
        Ok((v, rest)) => format!("ok {v} {rest}"),
        Err(e) => format!("err {}", err_class(&e)),
    }
}

pub fn cases(args: &[String]) {
    quiet_panics();
    let f = std::fs::File::open(&args[0]).expect("case file");
    start_watchdog(10_000);
    let out = std::io::stdout();
    let mut out = std::io::LineWriter::new(out.lock());
    let mut index = 0u64;
    for line in std::io::BufReader::new(f).lines() {
        let line = line.unwrap();
        let line = line.trim().to_string();
        if line.is_empty() {
            continue;
        }
        case_begin(index);
        index += 1;
        let (cmd, rest) = line.split_once(' ').unwrap();
        let sx = parse_all(rest);
        let r = match cmd {
            "senc" => {
                let n = sx[0].atom().to_string();
                let v = sx[1].clone();
                guarded(std::panic::AssertUnwindSafe(move || enc(&n, &v).0))
            }
            "sdec" => {
                let n = sx[0].atom().to_string();
                let b = unhex(sx[1].atom());
                guarded(std::panic::AssertUnwindSafe(move || dec(&n, &b)))
            }
            "srt" | "sx" => {
                let wn = sx[0].atom().to_string();
                let v = sx[1].clone();
                let (rn, sfx) = if cmd == "srt" {
                    (wn.clone(), unhex(sx[2].atom()))
                } else {
                    (sx[2].atom().to_string(), unhex(sx[3].atom()))
                };
                let e = guarded(std::panic::AssertUnwindSafe(move || enc(&wn, &v)));
                match e {
                    Err(p) => Ok(format!("panic {} ; -", p.replace('\n', " "))),
                    Ok((l, None)) => Ok(format!("{l} ; -")),
                    Ok((l, Some(mut b))) => {
                        b.extend_from_slice(&sfx);
                        match guarded(std::panic::AssertUnwindSafe(move || dec(&rn, &b))) {
                            Ok(d) => Ok(format!("{l} ; {d}")),
                            Err(p) => Ok(format!("{l} ; panic {}", p.replace('\n', " "))),
                        }
                    }
                }
            }
            _ => panic!("bad static command {cmd}"),
        };
        match r {
            Ok(s) => writeln!(out, "{s}").unwrap(),
            Err(p) => writeln!(out, "panic {}", p.replace('\n', " ")).unwrap(),
        }
    }
}
