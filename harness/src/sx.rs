//! Minimal s-expressions for case files.
#[derive(Clone, Debug, PartialEq)]
pub enum Sx {
    Atom(String),
    List(Vec<Sx>),
}

impl Sx {
    pub fn atom(&self) -> &str {
        match self {
            Sx::Atom(s) => s,
            _ => panic!("expected atom, got {:?}", self),
        }
    }
    pub fn list(&self) -> &[Sx] {
        match self {
            Sx::List(l) => l,
            _ => panic!("expected list, got {:?}", self),
        }
    }
    /// canonical text: atoms as they are, lists in parentheses separated by single spaces
    pub fn show(&self) -> String {
        match self {
            Sx::Atom(s) => s.clone(),
            Sx::List(l) => format!("({})", l.iter().map(|x| x.show()).collect::<Vec<_>>().join(" ")),
        }
    }
    pub fn head(&self) -> &str {
        match self {
            Sx::Atom(s) => s,
            Sx::List(l) => l[0].atom(),
        }
    }
}

/// Parse all top-level s-expressions of a line.
pub fn parse_all(s: &str) -> Vec<Sx> {
    let b = s.as_bytes();
    let mut i = 0;
    let mut out = Vec::new();
    loop {
        while i < b.len() && b[i].is_ascii_whitespace() {
            i += 1;
        }
        if i >= b.len() {
            break;
        }
        out.push(parse_one(b, &mut i));
    }
    out
}

fn parse_one(b: &[u8], i: &mut usize) -> Sx {
    while *i < b.len() && b[*i].is_ascii_whitespace() {
        *i += 1;
    }
    if b[*i] == b'(' {
        *i += 1;
        let mut items = Vec::new();
        loop {
            while *i < b.len() && b[*i].is_ascii_whitespace() {
                *i += 1;
            }
            if *i >= b.len() {
                panic!("unterminated list");
            }
            if b[*i] == b')' {
                *i += 1;
                return Sx::List(items);
            }
            items.push(parse_one(b, i));
        }
    } else {
        let start = *i;
        while *i < b.len() && !b[*i].is_ascii_whitespace() && b[*i] != b'(' && b[*i] != b')' {
            *i += 1;
        }
        Sx::Atom(String::from_utf8(b[start..*i].to_vec()).unwrap())
    }
}
