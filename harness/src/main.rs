//! Correspondence harness: runs the real desert library (built from /repo's working tree)
//! on case files and prints one canonical observation per case.
mod catalogue;
mod c17;
mod codec;
mod compress;
mod local;
mod mono;
mod statics;
mod sxv;
mod dynval;
mod graph;
mod ioops;
mod sx;
mod util;
mod varint;

#[global_allocator]
static GLOBAL: util::Counting = util::Counting;

fn main() {
    let args: Vec<String> = std::env::args().collect();
    if args.len() < 2 {
        eprintln!("usage: dharness <command> [args]");
        std::process::exit(2);
    }
    let rest = &args[2..];
    match args[1].as_str() {
        "codec" => codec::cases(rest),
        "static" => statics::cases(rest),
        "tznames" => {
            for tz in chrono_tz::TZ_VARIANTS.iter() {
                println!("{}", tz.name());
            }
        }
        "contend" => statics::contend(rest),
        "deep" => statics::deep(rest),
        "samename" => local::run(rest),
        "localtz" => local::localtz(rest),
        "monotypes" => {
            for t in mono::MONO_TYPES.iter().chain(mono::SLICE_TYPES) {
                println!("{t}");
            }
        }
        "compress" => compress::cases(rest),
        "c17" => c17::run(rest),
        "graph" => graph::cases(rest),
        "ioops" => ioops::cases(rest),
        "ioops-huge" => ioops::huge(rest),
        "varint-cases" => varint::cases(rest),
        "varint-sweep" => varint::sweep(rest),
        other => {
            eprintln!("unknown command {other}");
            std::process::exit(2);
        }
    }
}
