//! C16: compressed blocks through every sink and source, truncations, damage, allocation.
use crate::dynval::err_class;
use crate::util::*;
use bytes::BytesMut;
use desert::{BinaryInput, BinaryOutput, DeserializationContext, OwnedInput, SizeCalculator, SliceInput};
use flate2::Compression;
use std::io::{BufRead, Write};

fn frame(level: u32, d: &[u8]) -> Vec<u8> {
    let mut v: Vec<u8> = Vec::new();
    v.write_compressed(d, Compression::new(level)).unwrap();
    v
}

fn read3(data: &[u8]) -> (Vec<Option<Vec<u8>>>, Vec<usize>) {
    let mut res = Vec::new();
    let mut rest = Vec::new();
    let mut si = SliceInput::new(data);
    res.push(si.read_compressed().ok());
    rest.push(si.data.len() - si.pos);
    let mut oi = OwnedInput::new(data.to_vec());
    res.push(oi.read_compressed().ok());
    let mut n = 0;
    while oi.read_u8().is_ok() {
        n += 1;
    }
    rest.push(n);
    let mut ctx = DeserializationContext::new(data);
    res.push(ctx.read_compressed().ok());
    let mut n = 0;
    while ctx.read_u8().is_ok() {
        n += 1;
    }
    rest.push(n);
    (res, rest)
}

fn parse_vu(b: &[u8]) -> Option<(u32, usize)> {
    let mut v = 0u64;
    for i in 0..5 {
        let x = *b.get(i)?;
        v |= ((x & 0x7f) as u64) << (7 * i);
        if x & 0x80 == 0 || i == 4 {
            return Some((v as u32, i + 1));
        }
    }
    None
}

/// Lines: `rt LEVEL HEX SFX` | `trunc LEVEL HEX` | `flip LEVEL HEX` | `raw HEX`
pub fn cases(args: &[String]) {
    quiet_panics();
    let f = std::fs::File::open(&args[0]).expect("case file");
    start_watchdog(60_000);
    let out = std::io::stdout();
    let mut out = std::io::LineWriter::new(out.lock());
    let mut index = 0u64;
    for line in std::io::BufReader::new(f).lines() {
        let line = line.unwrap();
        let t: Vec<String> = line.split_whitespace().map(|s| s.to_string()).collect();
        if t.is_empty() {
            continue;
        }
        case_begin(index);
        index += 1;
        let r = guarded(std::panic::AssertUnwindSafe(move || match t[0].as_str() {
            "rt" | "rtc" | "rtr" => {
                let level: u32 = t[1].parse().unwrap();
                // rtc LEVEL BYTE LEN SUFFIX: LEN copies of one byte (large, extremely compressible blocks)
                // rtr LEVEL SEED LEN SUFFIX: LEN pseudo-random bytes (large incompressible blocks)
                let (d, sfx) = if t[0] == "rtc" {
                    (vec![t[2].parse::<u8>().unwrap(); t[3].parse::<usize>().unwrap()], unhex(&t[4]))
                } else if t[0] == "rtr" {
                    let mut x: u64 = t[2].parse::<u64>().unwrap() | 1;
                    let n: usize = t[3].parse().unwrap();
                    let mut d = Vec::with_capacity(n);
                    while d.len() < n {
                        x ^= x << 13;
                        x ^= x >> 7;
                        x ^= x << 17;
                        d.extend_from_slice(&x.to_le_bytes()[..(n - d.len()).min(8)]);
                    }
                    (d, unhex(&t[4]))
                } else {
                    (unhex(&t[2]), unhex(&t[3]))
                };
                let v = frame(level, &d);
                let mut bm = BytesMut::new();
                bm.write_compressed(&d, Compression::new(level)).unwrap();
                let mut sc = SizeCalculator::new();
                sc.write_compressed(&d, Compression::new(level)).unwrap();
                // a SerializationContext as sink: into a pushed (chunk) buffer, and straight through
                let mut cx = desert::SerializationContext::new(Vec::<u8>::new());
                cx.push_buffer(vec![0xAA]);
                cx.write_compressed(&d, Compression::new(level)).unwrap();
                let buffered = cx.pop_buffer();
                cx.write_compressed(&d, Compression::new(level)).unwrap();
                let direct = cx.into_output();
                let mut cs = desert::SerializationContext::new(SizeCalculator::new());
                cs.write_compressed(&d, Compression::new(level)).unwrap();
                let ctx_ok = buffered[0] == 0xAA && buffered[1..] == v[..] && direct == v && cs.into_output().size() == v.len();
                // the frame does not depend on what this thread compressed before: a fresh thread writes the same bytes
                let (d2, lv) = (d.clone(), level);
                let fresh = std::thread::spawn(move || frame(lv, &d2)).join().unwrap();
                let sinks = v[..] == bm[..] && sc.size() == v.len() && ctx_ok && fresh == v;
                // the frame records the true lengths
                let (ulen, a) = parse_vu(&v).unwrap();
                let (clen, b) = parse_vu(&v[a..]).unwrap();
                let layout = ulen as usize == d.len() && a + b + clen as usize == v.len();
                let mut data = v.clone();
                data.extend_from_slice(&sfx);
                reset_max_req();
                let (res, rest) = read3(&data);
                let alloc = max_req();
                let same = res.iter().all(|x| x.as_deref() == Some(&d[..]));
                let rest_ok = rest.iter().all(|x| *x == sfx.len());
                format!(
                    "rt len={} frame={} sinks={sinks} layout={layout} decoded={same} rest={rest_ok} alloc={alloc}",
                    d.len(),
                    v.len()
                )
            }
            "trunc" => {
                let level: u32 = t[1].parse().unwrap();
                let d = unhex(&t[2]);
                let v = frame(level, &d);
                let mut bad = 0;
                for k in 0..v.len() {
                    let (res, _) = read3(&v[..k]);
                    if res.iter().any(|x| x.is_some()) {
                        bad += 1;
                    }
                }
                format!("trunc cuts={} accepted={bad}", v.len())
            }
            "flip" => {
                let level: u32 = t[1].parse().unwrap();
                let d = unhex(&t[2]);
                let v = frame(level, &d);
                let mut n = 0usize;
                let mut over = 0usize;
                let mut worst = 0usize;
                let mut try_one = |m: &[u8]| {
                    reset_max_req();
                    let mut si = SliceInput::new(m);
                    let r = si.read_compressed();
                    let produced = r.as_ref().map(|x| x.len()).unwrap_or(0);
                    let alloc = max_req();
                    n += 1;
                    // no single request above max(64 KiB, 2 x bytes actually produced) (+ the frame itself)
                    let bound = std::cmp::max(65536, 2 * produced) + 64;
                    if alloc > bound {
                        over += 1;
                    }
                    worst = worst.max(alloc);
                };
                for i in 0..v.len() {
                    for bit in 0..8 {
                        let mut m = v.clone();
                        m[i] ^= 1 << bit;
                        try_one(&m);
                    }
                }
                // header rewrites: both lengths replaced by boundary values
                let (_, a) = parse_vu(&v).unwrap();
                let (_, b) = parse_vu(&v[a..]).unwrap();
                for ul in [0u32, 1, 65535, 65536, 1 << 20, 1 << 31, u32::MAX] {
                    for cl in [None, Some(0u32), Some(1), Some(u32::MAX)] {
                        let mut m: Vec<u8> = Vec::new();
                        m.write_var_u32(ul);
                        match cl {
                            None => m.extend_from_slice(&v[a..]),
                            Some(c) => {
                                m.write_var_u32(c);
                                m.extend_from_slice(&v[a + b..]);
                            }
                        }
                        try_one(&m);
                    }
                }
                format!("flip variants={n} over_bound={over} worst_alloc={worst}")
            }
            "huge" => {
                // a block that does not fit the frame's u32 length field (F18): 2^32 + EXTRA zero bytes
                // (never touched unless the writer goes on to compress them)
                let extra: usize = t[1].parse().unwrap();
                let n = (1usize << 32) + extra;
                let d = vec![0u8; n];
                let mut v: Vec<u8> = Vec::new();
                match v.write_compressed(&d, Compression::fast()) {
                    Err(e) => format!("huge err {} written={}", err_class(&e), v.len()),
                    Ok(()) => {
                        let (ulen, _) = parse_vu(&v).unwrap();
                        format!("huge ok written={} ulen={ulen} true={n}", v.len())
                    }
                }
            }
            "raw" => {
                let data = unhex(&t[1]);
                reset_max_req();
                let (res, rest) = read3(&data);
                let alloc = max_req();
                format!(
                    "raw {:?} rest={:?} alloc={alloc}",
                    res.iter().map(|x| x.as_ref().map(|v| hex(v))).collect::<Vec<_>>(),
                    rest
                )
            }
            _ => panic!("bad compress line"),
        }));
        match r {
            Ok(s) => writeln!(out, "{s}").unwrap(),
            Err(p) => writeln!(out, "panic {}", p.replace('\n', " ")).unwrap(),
        }
    }
}
