//! Dynamic route: a self-describing value `Dyn` whose BinarySerializer / BinaryDeserializer
//! impls dispatch to the library's own generic impls (`Vec<T>`, `Option<T>`, tuples, maps,
//! `[T; N]`, ...) with `T = Dyn`, for type expressions chosen at run time.  Records and enums
//! go through the public AdtSerializer / AdtDeserializer API exactly as the derive macro's
//! output does (field by field, in declaration order).
use crate::sx::Sx;
use crate::util::{hex, unhex};
use bigdecimal::num_bigint::BigInt;
use desert::adt::{AdtDeserializer, AdtMetadata, AdtSerializer};
use desert::{
    BinaryDeserializer, BinaryInput, BinaryOutput, BinarySerializer, DeduplicatedString,
    DeserializationContext, Error, Evolution, Result, SerializationContext,
};
use std::cell::RefCell;
use std::cmp::Ordering;
use std::collections::{BTreeMap, BTreeSet, HashMap, HashSet, LinkedList};
use std::hash::{Hash, Hasher};
use std::marker::PhantomData;
use std::rc::Rc;
use std::sync::Arc;
use std::time::Duration;

// ------------------------------------------------------------------------------------
// types and declarations

#[derive(Clone, Debug, PartialEq)]
pub enum Ty {
    Prim(String),
    Opt(Rc<Ty>),
    Res(Rc<Ty>, Rc<Ty>),
    Tup(Vec<Rc<Ty>>),
    Seq(String, usize, Rc<Ty>), // kind: vec slice ll hset bset arr ; array length
    Map(String, Rc<Ty>, Rc<Ty>),
    Wrap(String, Rc<Ty>),
    Phantom,
    Named(usize),
}

#[derive(Clone, Debug)]
pub enum Step {
    Added(String, Sx),
    MadeOptional(String),
    Removed(String),
    MadeTransient(String),
}

#[derive(Clone, Debug)]
pub struct Field {
    pub name: String,
    pub ty: Rc<Ty>,
    pub opt: bool,
    pub transient: Option<Sx>,
}

#[derive(Clone, Debug)]
pub struct RMeta {
    pub fields: Vec<Field>,
    pub steps: Vec<Step>,
    pub meta: &'static AdtMetadata,
}

#[derive(Clone, Debug)]
pub struct Variant {
    pub name: String,
    pub transient: bool,
    pub rec: RMeta,
}

#[derive(Clone, Debug)]
pub enum Decl {
    Record(String, RMeta),
    Enum(String, bool, Vec<Variant>, &'static AdtMetadata),
}

pub type Env = Vec<Decl>;

fn name_of_hex(h: &str) -> String {
    String::from_utf8(unhex(h)).expect("names in case files are UTF-8")
}

pub fn parse_ty(s: &Sx) -> Rc<Ty> {
    Rc::new(match s {
        Sx::Atom(a) if a == "phantom" => Ty::Phantom,
        Sx::Atom(a) => Ty::Prim(a.clone()),
        Sx::List(l) => {
            let h = l[0].atom();
            match h {
                "opt" => Ty::Opt(parse_ty(&l[1])),
                "res" => Ty::Res(parse_ty(&l[1]), parse_ty(&l[2])),
                "tup" => Ty::Tup(l[1..].iter().map(parse_ty).collect()),
                "vec" | "slice" | "ll" | "hset" | "bset" => Ty::Seq(h.to_string(), 0, parse_ty(&l[1])),
                "arr" => Ty::Seq(h.to_string(), l[1].atom().parse().unwrap(), parse_ty(&l[2])),
                "hmap" | "bmap" => Ty::Map(h.to_string(), parse_ty(&l[1]), parse_ty(&l[2])),
                "box" | "rc" | "arc" | "ref" => Ty::Wrap(h.to_string(), parse_ty(&l[1])),
                "named" => Ty::Named(l[1].atom().parse().unwrap()),
                _ => panic!("bad type {h}"),
            }
        }
    })
}

thread_local! {
    static META_CACHE: RefCell<HashMap<String, &'static AdtMetadata>> = RefCell::new(HashMap::new());
}

fn metadata_for(steps: &[Step]) -> &'static AdtMetadata {
    let key: String = steps
        .iter()
        .map(|s| match s {
            Step::Added(n, _) => format!("A{}:{n};", n.len()),
            Step::MadeOptional(n) => format!("O{}:{n};", n.len()),
            Step::Removed(n) => format!("R{}:{n};", n.len()),
            Step::MadeTransient(n) => format!("T{}:{n};", n.len()),
        })
        .collect();
    META_CACHE.with(|c| {
        let mut c = c.borrow_mut();
        if let Some(m) = c.get(&key) {
            return *m;
        }
        let mut ev = vec![Evolution::InitialVersion];
        for s in steps {
            ev.push(match s {
                Step::Added(n, _) => Evolution::FieldAdded { name: n.clone() },
                Step::MadeOptional(n) => Evolution::FieldMadeOptional { name: n.clone() },
                Step::Removed(n) => Evolution::FieldRemoved { name: n.clone() },
                Step::MadeTransient(n) => Evolution::FieldMadeTransient { name: n.clone() },
            });
        }
        let m: &'static AdtMetadata = Box::leak(Box::new(AdtMetadata::new(ev)));
        c.insert(key, m);
        m
    })
}

fn parse_rmeta(fields: &Sx, steps: &Sx) -> RMeta {
    let fields = fields
        .list()
        .iter()
        .map(|f| {
            let l = f.list();
            // (f NAME TY OPT TRANS)
            Field {
                name: name_of_hex(l[1].atom()),
                ty: parse_ty(&l[2]),
                opt: l[3].atom() == "1",
                transient: if l[4] == Sx::Atom("-".into()) { None } else { Some(l[4].clone()) },
            }
        })
        .collect();
    let steps: Vec<Step> = steps
        .list()
        .iter()
        .map(|s| {
            let l = s.list();
            let n = name_of_hex(l[1].atom());
            match l[0].atom() {
                "add" => Step::Added(n, l[2].clone()),
                "opt" => Step::MadeOptional(n),
                "rem" => Step::Removed(n),
                "tra" => Step::MadeTransient(n),
                o => panic!("bad step {o}"),
            }
        })
        .collect();
    let meta = metadata_for(&steps);
    RMeta { fields, steps, meta }
}

/// `(env DECL ...)` with DECL = `(rec NAME (FIELD...) (STEP...))` | `(enum NAME SORTED (VARIANT...))`,
/// VARIANT = `(v NAME TRANSIENT (FIELD...) (STEP...))`.
pub fn parse_env(s: &Sx) -> Env {
    match s {
        Sx::Atom(_) => Vec::new(),
        Sx::List(l) => l[1..]
            .iter()
            .map(|d| {
                let d = d.list();
                match d[0].atom() {
                    "rec" => Decl::Record(name_of_hex(d[1].atom()), parse_rmeta(&d[2], &d[3])),
                    "enum" => Decl::Enum(
                        name_of_hex(d[1].atom()),
                        d[2].atom() == "1",
                        d[3].list()
                            .iter()
                            .map(|v| {
                                let v = v.list();
                                Variant {
                                    name: name_of_hex(v[1].atom()),
                                    transient: v[2].atom() == "1",
                                    rec: parse_rmeta(&v[3], &v[4]),
                                }
                            })
                            .collect(),
                        metadata_for(&[]),
                    ),
                    o => panic!("bad decl {o}"),
                }
            })
            .collect(),
    }
}

// ------------------------------------------------------------------------------------
// values

#[derive(Clone, Debug)]
pub enum Dyn {
    U8(u8),
    I8(i8),
    U16(u16),
    I16(i16),
    U32(u32),
    /// a hand-written codec that calls write_var_u32 / write_var_i32 directly (public BinaryOutput API)
    VarU32(u32),
    VarI32(i32),
    I32(i32),
    U64(u64),
    I64(i64),
    U128(u128),
    I128(i128),
    F32(u32),
    F64(u64),
    Bool(bool),
    Unit,
    Char(char),
    Str(String),
    Dedup(String),
    Dur(Duration),
    Bytes(bytes::Bytes),
    Uuid(uuid::Uuid),
    BigInt(BigInt),
    BigDec(bigdecimal::BigDecimal),
    Weekday(chrono::Weekday),
    Month(chrono::Month),
    FixedOffset(chrono::FixedOffset),
    Tz(chrono_tz::Tz),
    DtUtc(chrono::DateTime<chrono::Utc>),
    NDate(chrono::NaiveDate),
    NTime(chrono::NaiveTime),
    NDt(chrono::NaiveDateTime),
    DtLocal(chrono::DateTime<chrono::Local>),
    DtFixed(chrono::DateTime<chrono::FixedOffset>),
    DtTz(chrono::DateTime<chrono_tz::Tz>),
    Opt(Option<Box<Dyn>>),
    Res(std::result::Result<Box<Dyn>, Box<Dyn>>),
    Tup(Vec<Dyn>),
    Vec(Vec<Dyn>),
    Slice(Vec<Dyn>),
    Arr(Vec<Dyn>),
    LL(LinkedList<Dyn>),
    HSet(HashSet<Dyn>),
    BSet(BTreeSet<Dyn>),
    ByteVec(Vec<u8>),
    ByteSlice(Vec<u8>),
    ByteArr(Vec<u8>),
    HMap(HashMap<Dyn, Dyn>),
    BMap(BTreeMap<Dyn, Dyn>),
    Wrap(String, Box<Dyn>),
    Phantom,
    Rec(usize, Vec<Dyn>),
    Enum(usize, usize, Vec<Dyn>),
}

impl Dyn {
    /// canonical text, order-independent for hash containers: basis of Eq / Hash / Ord
    fn key(&self) -> String {
        print_val(self, true)
    }
    fn rank(&self) -> u8 {
        match self {
            Dyn::Opt(None) => 0,
            Dyn::Opt(Some(_)) => 1,
            Dyn::Res(Ok(_)) => 0,
            Dyn::Res(Err(_)) => 1,
            _ => 0,
        }
    }
}

impl PartialEq for Dyn {
    fn eq(&self, other: &Self) -> bool {
        self.key() == other.key()
    }
}
impl Eq for Dyn {}
impl Hash for Dyn {
    fn hash<H: Hasher>(&self, state: &mut H) {
        self.key().hash(state)
    }
}
impl PartialOrd for Dyn {
    fn partial_cmp(&self, other: &Self) -> Option<Ordering> {
        Some(self.cmp(other))
    }
}
impl Ord for Dyn {
    /// the natural order of the Rust type the value stands for, where both sides agree in shape
    fn cmp(&self, other: &Self) -> Ordering {
        use Dyn::*;
        match (self, other) {
            (U8(a), U8(b)) => a.cmp(b),
            (I8(a), I8(b)) => a.cmp(b),
            (U16(a), U16(b)) => a.cmp(b),
            (I16(a), I16(b)) => a.cmp(b),
            (U32(a), U32(b)) | (VarU32(a), VarU32(b)) => a.cmp(b),
            (VarI32(a), VarI32(b)) => a.cmp(b),
            (I32(a), I32(b)) => a.cmp(b),
            (U64(a), U64(b)) => a.cmp(b),
            (I64(a), I64(b)) => a.cmp(b),
            (U128(a), U128(b)) => a.cmp(b),
            (I128(a), I128(b)) => a.cmp(b),
            (Bool(a), Bool(b)) => a.cmp(b),
            (Char(a), Char(b)) => a.cmp(b),
            (Str(a), Str(b)) | (Dedup(a), Dedup(b)) => a.cmp(b),
            (Dur(a), Dur(b)) => a.cmp(b),
            (Bytes(a), Bytes(b)) => a.cmp(b),
            (Uuid(a), Uuid(b)) => a.cmp(b),
            (BigInt(a), BigInt(b)) => a.cmp(b),
            (DtUtc(a), DtUtc(b)) => a.cmp(b),
            (NDate(a), NDate(b)) => a.cmp(b),
            (NTime(a), NTime(b)) => a.cmp(b),
            (NDt(a), NDt(b)) => a.cmp(b),
            (ByteVec(a), ByteVec(b)) | (ByteSlice(a), ByteSlice(b)) | (ByteArr(a), ByteArr(b)) => a.cmp(b),
            (Opt(Some(a)), Opt(Some(b))) => a.cmp(b),
            (Res(Ok(a)), Res(Ok(b))) | (Res(Err(a)), Res(Err(b))) => a.cmp(b),
            (Tup(a), Tup(b)) | (Vec(a), Vec(b)) | (Slice(a), Slice(b)) | (Arr(a), Arr(b)) => a.cmp(b),
            (LL(a), LL(b)) => a.cmp(b),
            (BSet(a), BSet(b)) => a.cmp(b),
            (BMap(a), BMap(b)) => a.cmp(b),
            (Wrap(_, a), Wrap(_, b)) => a.cmp(b),
            (Rec(_, a), Rec(_, b)) => a.cmp(b),
            (Enum(_, i, a), Enum(_, j, b)) => i.cmp(j).then_with(|| a.cmp(b)),
            _ => self.rank().cmp(&other.rank()).then_with(|| self.key().cmp(&other.key())),
        }
    }
}

thread_local! {
    pub static ENV: RefCell<Rc<Env>> = RefCell::new(Rc::new(Vec::new()));
    static EXPECT: RefCell<Vec<(Vec<Rc<Ty>>, usize)>> = RefCell::new(Vec::new());
}

pub fn set_env(e: Env) {
    ENV.with(|c| *c.borrow_mut() = Rc::new(e));
}
pub fn env() -> Rc<Env> {
    ENV.with(|c| c.borrow().clone())
}
pub fn reset_expect() {
    EXPECT.with(|e| e.borrow_mut().clear());
}

fn num<T: std::str::FromStr>(s: &Sx, prefix: char) -> T
where
    T::Err: std::fmt::Debug,
{
    let a = s.atom();
    assert!(a.starts_with(prefix), "expected {prefix}-number, got {a}");
    a[1..].parse().unwrap()
}

fn items(s: &Sx) -> &[Sx] {
    // (TAG v...)
    &s.list()[1..]
}
fn tag(s: &Sx) -> usize {
    s.list()[0].atom().parse().unwrap()
}
fn bytes_of(s: &Sx) -> Vec<u8> {
    let a = s.atom();
    assert!(a.starts_with('b'));
    unhex(&a[1..])
}

fn weekday_of(n: u8) -> chrono::Weekday {
    use chrono::Weekday::*;
    [Mon, Tue, Wed, Thu, Fri, Sat, Sun][(n - 1) as usize]
}
fn ndate_of(s: &Sx) -> chrono::NaiveDate {
    let l = items(s);
    chrono::NaiveDate::from_ymd_opt(num(&l[0], 'z'), num(&l[1], 'n'), num(&l[2], 'n')).expect("date")
}
fn ntime_of(s: &Sx) -> chrono::NaiveTime {
    let l = items(s);
    chrono::NaiveTime::from_hms_nano_opt(num(&l[0], 'n'), num(&l[1], 'n'), num(&l[2], 'n'), num(&l[3], 'n')).expect("time")
}
fn ndt_of(s: &Sx) -> chrono::NaiveDateTime {
    let l = items(s);
    chrono::NaiveDateTime::new(ndate_of(&l[0]), ntime_of(&l[1]))
}
fn show_ndate(d: &chrono::NaiveDate) -> String {
    use chrono::Datelike;
    format!("(0 z{} n{} n{})", d.year(), d.month(), d.day())
}
fn show_ntime(t: &chrono::NaiveTime) -> String {
    use chrono::Timelike;
    format!("(0 n{} n{} n{} n{})", t.hour(), t.minute(), t.second(), t.nanosecond())
}
fn show_ndt(d: &chrono::NaiveDateTime) -> String {
    format!("(0 {} {})", show_ndate(&d.date()), show_ntime(&d.time()))
}

/// Build the typed value from the untyped tree of the case file.
pub fn build(ty: &Ty, s: &Sx) -> Dyn {
    match ty {
        Ty::Prim(p) => match p.as_str() {
            "u8" => Dyn::U8(num(s, 'n')),
            "i8" => Dyn::I8(num(s, 'z')),
            "u16" => Dyn::U16(num(s, 'n')),
            "i16" => Dyn::I16(num(s, 'z')),
            "u32" => Dyn::U32(num(s, 'n')),
            "varu32" => Dyn::VarU32(num(s, 'n')),
            "vari32" => Dyn::VarI32(num(s, 'z')),
            "i32" => Dyn::I32(num(s, 'z')),
            "u64" => Dyn::U64(num(s, 'n')),
            "i64" => Dyn::I64(num(s, 'z')),
            "u128" => Dyn::U128(num(s, 'n')),
            "i128" => Dyn::I128(num(s, 'z')),
            "f32" => Dyn::F32(num(s, 'n')),
            "f64" => Dyn::F64(num(s, 'n')),
            "bool" => Dyn::Bool(num::<u8>(s, 'n') != 0),
            "unit" => Dyn::Unit,
            "char" => Dyn::Char(char::from_u32(num(s, 'n')).expect("scalar value")),
            "str" => Dyn::Str(String::from_utf8(bytes_of(s)).expect("utf8")),
            "dstr" => Dyn::Dedup(String::from_utf8(bytes_of(s)).expect("utf8")),
            "dur" => {
                let l = items(s);
                Dyn::Dur(Duration::new(num(&l[0], 'n'), num(&l[1], 'n')))
            }
            "bytes" => Dyn::Bytes(bytes::Bytes::from(bytes_of(s))),
            "uuid" => Dyn::Uuid(uuid::Uuid::from_bytes(bytes_of(s).try_into().expect("16 bytes"))),
            "bigint" => Dyn::BigInt(s.atom()[1..].parse().unwrap()),
            // (0 z<unscaled> z<scale>): BigDecimal::new; the text form b<hex> (parsed by the crate) is kept for
            // the layout stream of C04
            "bigdec" => match s {
                Sx::Atom(_) => Dyn::BigDec(String::from_utf8(bytes_of(s)).unwrap().parse().expect("decimal")),
                Sx::List(_) => {
                    let l = items(s);
                    let unscaled: BigInt = l[0].atom()[1..].parse().unwrap();
                    Dyn::BigDec(bigdecimal::BigDecimal::new(unscaled, num(&l[1], 'z')))
                }
            },
            "weekday" => Dyn::Weekday(weekday_of(num(s, 'n'))),
            "month" => Dyn::Month(chrono::Month::try_from(num::<u8>(s, 'n')).expect("month")),
            "fixedoffset" => Dyn::FixedOffset(chrono::FixedOffset::east_opt(num(s, 'z')).expect("offset")),
            "tz" => Dyn::Tz(String::from_utf8(bytes_of(s)).unwrap().parse().expect("tz name")),
            "dt_utc" => {
                let l = items(s);
                Dyn::DtUtc(chrono::DateTime::<chrono::Utc>::from_timestamp(num(&l[0], 'z'), num(&l[1], 'n')).expect("timestamp"))
            }
            "ndate" => Dyn::NDate(ndate_of(s)),
            "ntime" => Dyn::NTime(ntime_of(s)),
            "ndt" => Dyn::NDt(ndt_of(s)),
            "dt_local" => {
                use chrono::TimeZone;
                Dyn::DtLocal(chrono::Local.from_local_datetime(&ndt_of(s)).single().expect("local time"))
            }
            "dt_fixed" => {
                use chrono::TimeZone;
                let l = items(s);
                let off = chrono::FixedOffset::east_opt(num(&l[1], 'z')).expect("offset");
                Dyn::DtFixed(off.from_local_datetime(&ndt_of(&l[0])).single().expect("fixed-offset time"))
            }
            "dt_tz" => {
                use chrono::TimeZone;
                let l = items(s);
                let tz: chrono_tz::Tz = String::from_utf8(bytes_of(&l[1])).unwrap().parse().expect("tz name");
                Dyn::DtTz(tz.from_utc_datetime(&ndt_of(&l[0])))
            }
            _ => panic!("unsupported prim {p}"),
        },
        Ty::Opt(t) => match tag(s) {
            0 => Dyn::Opt(None),
            _ => Dyn::Opt(Some(Box::new(build(t, &items(s)[0])))),
        },
        Ty::Res(r, e) => match tag(s) {
            0 => Dyn::Res(Err(Box::new(build(e, &items(s)[0])))),
            _ => Dyn::Res(Ok(Box::new(build(r, &items(s)[0])))),
        },
        Ty::Tup(ts) => Dyn::Tup(ts.iter().zip(items(s)).map(|(t, v)| build(t, v)).collect()),
        Ty::Seq(k, _, e) => {
            let is_u8 = **e == Ty::Prim("u8".into());
            if is_u8 && (k == "vec" || k == "slice" || k == "arr") {
                let b = bytes_of(s);
                return match k.as_str() {
                    "vec" => Dyn::ByteVec(b),
                    "slice" => Dyn::ByteSlice(b),
                    _ => Dyn::ByteArr(b),
                };
            }
            let it = items(s).iter().map(|v| build(e, v));
            match k.as_str() {
                "vec" => Dyn::Vec(it.collect()),
                "slice" => Dyn::Slice(it.collect()),
                "arr" => Dyn::Arr(it.collect()),
                "ll" => Dyn::LL(it.collect()),
                "hset" => Dyn::HSet(it.collect()),
                "bset" => Dyn::BSet(it.collect()),
                _ => unreachable!(),
            }
        }
        Ty::Map(k, kt, vt) => {
            let it = items(s).iter().map(|kv| {
                let l = items(kv);
                (build(kt, &l[0]), build(vt, &l[1]))
            });
            if k == "hmap" {
                Dyn::HMap(it.collect())
            } else {
                Dyn::BMap(it.collect())
            }
        }
        Ty::Wrap(w, t) => Dyn::Wrap(w.clone(), Box::new(build(t, s))),
        Ty::Phantom => Dyn::Phantom,
        Ty::Named(n) => {
            let env = env();
            match &env[*n] {
                Decl::Record(_, m) => {
                    Dyn::Rec(*n, m.fields.iter().zip(items(s)).map(|(f, v)| build(&f.ty, v)).collect())
                }
                Decl::Enum(_, _, vars, _) => {
                    let i = tag(s);
                    Dyn::Enum(
                        *n,
                        i,
                        vars[i].rec.fields.iter().zip(items(s)).map(|(f, v)| build(&f.ty, v)).collect(),
                    )
                }
            }
        }
    }
}

fn join(tagv: usize, parts: Vec<String>) -> String {
    if parts.is_empty() {
        format!("({tagv})")
    } else {
        format!("({tagv} {})", parts.join(" "))
    }
}

/// Print a value in case-file syntax.  `canonical` sorts the elements of sets and maps
/// (by their text), which is how decoded values are compared.
pub fn print_val(v: &Dyn, canonical: bool) -> String {
    let p = |x: &Dyn| print_val(x, canonical);
    let sorted = |mut xs: Vec<String>| {
        if canonical {
            xs.sort();
        }
        xs
    };
    match v {
        Dyn::U8(x) => format!("n{x}"),
        Dyn::I8(x) => format!("z{x}"),
        Dyn::U16(x) => format!("n{x}"),
        Dyn::I16(x) => format!("z{x}"),
        Dyn::U32(x) => format!("n{x}"),
        Dyn::VarU32(x) => format!("n{x}"),
        Dyn::VarI32(x) => format!("z{x}"),
        Dyn::I32(x) => format!("z{x}"),
        Dyn::U64(x) => format!("n{x}"),
        Dyn::I64(x) => format!("z{x}"),
        Dyn::U128(x) => format!("n{x}"),
        Dyn::I128(x) => format!("z{x}"),
        Dyn::F32(x) => format!("n{x}"),
        Dyn::F64(x) => format!("n{x}"),
        Dyn::Bool(x) => format!("n{}", *x as u8),
        Dyn::Unit | Dyn::Phantom => "(0)".into(),
        Dyn::Char(c) => format!("n{}", *c as u32),
        Dyn::Str(s) | Dyn::Dedup(s) => format!("b{}", hex(s.as_bytes())),
        Dyn::Dur(d) => format!("(0 n{} n{})", d.as_secs(), d.subsec_nanos()),
        Dyn::Bytes(b) => format!("b{}", hex(b)),
        Dyn::Uuid(u) => format!("b{}", hex(u.as_bytes())),
        Dyn::BigInt(b) => format!("z{b}"),
        // decoded values (canonical = true) are observed through the representative the decimal text determines
        // (BigDec.bd_norm: Rust's equality on BigDecimal is numeric; integers with up to 15 padded zeros are printed in
        // full); the echo of an input value prints the pair as given
        Dyn::BigDec(b) => {
            let (i, sc) = b.as_bigint_and_exponent();
            if canonical && (-15..0).contains(&sc) {
                format!("(0 z{} z0)", i * BigInt::from(10u8).pow((-sc) as u32))
            } else {
                format!("(0 z{i} z{sc})")
            }
        }
        Dyn::Weekday(w) => format!("n{}", w.number_from_monday()),
        Dyn::Month(m) => format!("n{}", m.number_from_month()),
        Dyn::FixedOffset(o) => format!("z{}", o.local_minus_utc()),
        Dyn::Tz(t) => format!("b{}", hex(t.name().as_bytes())),
        Dyn::DtUtc(d) => format!("(0 z{} n{})", d.timestamp(), d.timestamp_subsec_nanos()),
        Dyn::NDate(d) => show_ndate(d),
        Dyn::NTime(t) => show_ntime(t),
        Dyn::NDt(d) => show_ndt(d),
        Dyn::DtLocal(d) => show_ndt(&d.naive_local()),
        Dyn::DtFixed(d) => format!("(0 {} z{})", show_ndt(&d.naive_local()), d.offset().local_minus_utc()),
        Dyn::DtTz(d) => format!("(0 {} b{})", show_ndt(&d.naive_utc()), hex(d.timezone().name().as_bytes())),
        Dyn::Opt(None) => "(0)".into(),
        Dyn::Opt(Some(x)) => format!("(1 {})", p(x)),
        Dyn::Res(Err(x)) => format!("(0 {})", p(x)),
        Dyn::Res(Ok(x)) => format!("(1 {})", p(x)),
        Dyn::Tup(xs) | Dyn::Vec(xs) | Dyn::Slice(xs) | Dyn::Arr(xs) => join(0, xs.iter().map(p).collect()),
        Dyn::LL(xs) => join(0, xs.iter().map(p).collect()),
        Dyn::HSet(xs) => join(0, sorted(xs.iter().map(p).collect())),
        Dyn::BSet(xs) => join(0, sorted(xs.iter().map(p).collect())),
        Dyn::ByteVec(b) | Dyn::ByteSlice(b) | Dyn::ByteArr(b) => format!("b{}", hex(b)),
        Dyn::HMap(m) => join(0, sorted(m.iter().map(|(k, v)| format!("(0 {} {})", p(k), p(v))).collect())),
        Dyn::BMap(m) => join(0, sorted(m.iter().map(|(k, v)| format!("(0 {} {})", p(k), p(v))).collect())),
        Dyn::Wrap(_, x) => p(x),
        Dyn::Rec(_, xs) => join(0, xs.iter().map(p).collect()),
        Dyn::Enum(_, i, xs) => join(*i, xs.iter().map(p).collect()),
    }
}

// ------------------------------------------------------------------------------------
// serialization: dispatch to the library's impls

fn ser_tuple<O: BinaryOutput>(xs: &[Dyn], c: &mut SerializationContext<O>) -> Result<()> {
    match xs {
        [a] => (a,).serialize(c),
        [a, b] => (a, b).serialize(c),
        [a, b, d] => (a, b, d).serialize(c),
        [a, b, d, e] => (a, b, d, e).serialize(c),
        [a, b, d, e, f] => (a, b, d, e, f).serialize(c),
        [a, b, d, e, f, g] => (a, b, d, e, f, g).serialize(c),
        [a, b, d, e, f, g, h] => (a, b, d, e, f, g, h).serialize(c),
        [a, b, d, e, f, g, h, i] => (a, b, d, e, f, g, h, i).serialize(c),
        _ => panic!("tuple arity {}", xs.len()),
    }
}

macro_rules! with_array_len {
    ($n:expr, $m:ident, $($args:tt)*) => {
        match $n {
            0 => $m!(0, $($args)*), 1 => $m!(1, $($args)*), 2 => $m!(2, $($args)*), 3 => $m!(3, $($args)*),
            4 => $m!(4, $($args)*), 5 => $m!(5, $($args)*), 7 => $m!(7, $($args)*), 8 => $m!(8, $($args)*),
            16 => $m!(16, $($args)*), 17 => $m!(17, $($args)*), 32 => $m!(32, $($args)*),
            33 => $m!(33, $($args)*), 64 => $m!(64, $($args)*), 65 => $m!(65, $($args)*),
            n => panic!("array length {n} not compiled into the harness"),
        }
    };
}
pub const ARRAY_LENS: [usize; 14] = [0, 1, 2, 3, 4, 5, 7, 8, 16, 17, 32, 33, 64, 65];

macro_rules! ser_arr {
    ($n:literal, $xs:expr, $c:expr) => {{
        let a: [&Dyn; $n] = std::array::from_fn(|i| &$xs[i]);
        a.serialize($c)
    }};
}
macro_rules! ser_byte_arr {
    ($n:literal, $xs:expr, $c:expr) => {{
        let a: [u8; $n] = std::array::from_fn(|i| $xs[i]);
        a.serialize($c)
    }};
}

fn ser_record<O: BinaryOutput>(m: &RMeta, vals: &[Dyn], c: &mut SerializationContext<O>) -> Result<()> {
    // what #[derive(BinaryCodec)] generates for a struct / a variant
    let mut ser = if m.steps.is_empty() {
        AdtSerializer::new_v0(m.meta, c)
    } else {
        AdtSerializer::new(m.meta, c)
    };
    for (f, v) in m.fields.iter().zip(vals) {
        if f.transient.is_none() {
            ser.write_field(&f.name, v)?;
        }
    }
    ser.finish()
}

impl BinarySerializer for Dyn {
    fn serialize<O: BinaryOutput>(&self, c: &mut SerializationContext<O>) -> Result<()> {
        match self {
            Dyn::U8(x) => x.serialize(c),
            Dyn::I8(x) => x.serialize(c),
            Dyn::U16(x) => x.serialize(c),
            Dyn::I16(x) => x.serialize(c),
            Dyn::U32(x) => x.serialize(c),
            Dyn::VarU32(x) => {
                c.write_var_u32(*x);
                Ok(())
            }
            Dyn::VarI32(x) => {
                c.write_var_i32(*x);
                Ok(())
            }
            Dyn::I32(x) => x.serialize(c),
            Dyn::U64(x) => x.serialize(c),
            Dyn::I64(x) => x.serialize(c),
            Dyn::U128(x) => x.serialize(c),
            Dyn::I128(x) => x.serialize(c),
            Dyn::F32(x) => f32::from_bits(*x).serialize(c),
            Dyn::F64(x) => f64::from_bits(*x).serialize(c),
            Dyn::Bool(x) => x.serialize(c),
            Dyn::Unit => ().serialize(c),
            Dyn::Char(x) => x.serialize(c),
            Dyn::Str(x) => x.serialize(c),
            Dyn::Dedup(x) => DeduplicatedString(x.clone()).serialize(c),
            Dyn::Dur(x) => x.serialize(c),
            Dyn::Bytes(x) => x.serialize(c),
            Dyn::Uuid(x) => x.serialize(c),
            Dyn::BigInt(x) => x.serialize(c),
            Dyn::BigDec(x) => x.serialize(c),
            Dyn::Weekday(x) => x.serialize(c),
            Dyn::Month(x) => x.serialize(c),
            Dyn::FixedOffset(x) => x.serialize(c),
            Dyn::Tz(x) => x.serialize(c),
            Dyn::DtUtc(x) => x.serialize(c),
            Dyn::NDate(x) => x.serialize(c),
            Dyn::NTime(x) => x.serialize(c),
            Dyn::NDt(x) => x.serialize(c),
            Dyn::DtLocal(x) => x.serialize(c),
            Dyn::DtFixed(x) => x.serialize(c),
            Dyn::DtTz(x) => x.serialize(c),
            Dyn::Opt(x) => x.serialize(c),
            Dyn::Res(x) => x.serialize(c),
            Dyn::Tup(xs) => ser_tuple(xs, c),
            Dyn::Vec(xs) => xs.serialize(c),
            Dyn::Slice(xs) => xs[..].serialize(c),
            Dyn::Arr(xs) => with_array_len!(xs.len(), ser_arr, xs, c),
            Dyn::LL(xs) => xs.serialize(c),
            Dyn::HSet(xs) => xs.serialize(c),
            Dyn::BSet(xs) => xs.serialize(c),
            Dyn::ByteVec(b) => b.serialize(c),
            Dyn::ByteSlice(b) => b[..].serialize(c),
            Dyn::ByteArr(b) => with_array_len!(b.len(), ser_byte_arr, b, c),
            Dyn::HMap(m) => m.serialize(c),
            Dyn::BMap(m) => m.serialize(c),
            Dyn::Wrap(w, x) => match w.as_str() {
                "box" => x.serialize(c),
                "rc" => Rc::new((**x).clone()).serialize(c),
                "arc" => Arc::new((**x).clone()).serialize(c),
                _ => (&**x).serialize(c),
            },
            Dyn::Phantom => PhantomData::<u8>.serialize(c),
            Dyn::Rec(n, vals) => {
                let env = env();
                match &env[*n] {
                    Decl::Record(_, m) => ser_record(m, vals, c),
                    _ => panic!("not a record"),
                }
            }
            Dyn::Enum(n, i, vals) => {
                let env = env();
                match &env[*n] {
                    Decl::Enum(tyname, sorted, vars, emeta) => {
                        let order = case_order(vars, *sorted);
                        let case_idx = order.iter().position(|d| d == i).unwrap();
                        let var = &vars[*i];
                        let mut ser = AdtSerializer::new_v0(emeta, c);
                        if var.transient {
                            return Err(Error::SerializingTransientConstructor {
                                type_name: tyname.clone(),
                                constructor_name: var.name.clone(),
                            });
                        }
                        ser.write_constructor(case_idx as u32, |ctx| ser_record(&var.rec, vals, ctx))?;
                        ser.finish()
                    }
                    _ => panic!("not an enum"),
                }
            }
        }
    }
}

/// declaration indices in case_idx order (macro: stable sort by identifier when sorted)
pub fn case_order(vars: &[Variant], sorted: bool) -> Vec<usize> {
    let mut idx: Vec<usize> = (0..vars.len()).collect();
    if sorted {
        idx.sort_by_key(|i| vars[*i].name.clone());
    }
    idx
}

// ------------------------------------------------------------------------------------
// deserialization

fn with_expect<R>(tys: Vec<Rc<Ty>>, f: impl FnOnce() -> R) -> R {
    EXPECT.with(|e| e.borrow_mut().push((tys, 0)));
    let r = f();
    EXPECT.with(|e| e.borrow_mut().pop());
    r
}

impl BinaryDeserializer for Dyn {
    fn deserialize(c: &mut DeserializationContext<'_>) -> Result<Self> {
        let ty = EXPECT.with(|e| {
            let mut e = e.borrow_mut();
            let top = e.last_mut().expect("Dyn::deserialize without an expected type");
            let t = top.0[top.1 % top.0.len()].clone();
            top.1 += 1;
            t
        });
        decode(&ty, c)
    }
}

macro_rules! de_arr {
    ($n:literal, $c:expr) => {
        <[Dyn; $n]>::deserialize($c).map(|a| Dyn::Arr(a.into_iter().collect()))
    };
}
macro_rules! de_byte_arr {
    ($n:literal, $c:expr) => {
        <[u8; $n]>::deserialize($c).map(|a| Dyn::ByteArr(a.to_vec()))
    };
}

fn de_record(m: &RMeta, c: &mut DeserializationContext<'_>) -> Result<Vec<Dyn>> {
    // what #[derive(BinaryCodec)] generates for a struct / a variant
    let stored_version = c.read_u8()?;
    let mut de = if stored_version == 0 {
        AdtDeserializer::new_v0(m.meta, c)?
    } else {
        AdtDeserializer::new(m.meta, c, stored_version)?
    };
    let mut out = Vec::with_capacity(m.fields.len());
    for f in &m.fields {
        if let Some(d) = &f.transient {
            out.push(build(&f.ty, d));
            continue;
        }
        // the macro's field_defaults: the last FieldAdded entry with this name
        let dflt = m.steps.iter().rev().find_map(|s| match s {
            Step::Added(n, d) if *n == f.name => Some(d.clone()),
            _ => None,
        });
        if f.opt {
            let inner = match &*f.ty {
                Ty::Opt(t) => t.clone(),
                _ => panic!("opt-spelled field whose type is not Option"),
            };
            let dflt: Option<Option<Dyn>> = dflt.map(|d| match build(&f.ty, &d) {
                Dyn::Opt(o) => o.map(|b| *b),
                _ => unreachable!(),
            });
            let v = with_expect(vec![inner], || de.read_optional_field::<Dyn>(&f.name, dflt))?;
            out.push(Dyn::Opt(v.map(Box::new)));
        } else {
            let dflt = dflt.map(|d| build(&f.ty, &d));
            let v = with_expect(vec![f.ty.clone()], || de.read_field::<Dyn>(&f.name, dflt))?;
            out.push(v);
        }
    }
    Ok(out)
}

pub fn decode(ty: &Ty, c: &mut DeserializationContext<'_>) -> Result<Dyn> {
    match ty {
        Ty::Prim(p) => Ok(match p.as_str() {
            "u8" => Dyn::U8(u8::deserialize(c)?),
            "i8" => Dyn::I8(i8::deserialize(c)?),
            "u16" => Dyn::U16(u16::deserialize(c)?),
            "i16" => Dyn::I16(i16::deserialize(c)?),
            "u32" => Dyn::U32(u32::deserialize(c)?),
            "varu32" => Dyn::VarU32(c.read_var_u32()?),
            "vari32" => Dyn::VarI32(c.read_var_i32()?),
            "i32" => Dyn::I32(i32::deserialize(c)?),
            "u64" => Dyn::U64(u64::deserialize(c)?),
            "i64" => Dyn::I64(i64::deserialize(c)?),
            "u128" => Dyn::U128(u128::deserialize(c)?),
            "i128" => Dyn::I128(i128::deserialize(c)?),
            "f32" => Dyn::F32(f32::deserialize(c)?.to_bits()),
            "f64" => Dyn::F64(f64::deserialize(c)?.to_bits()),
            "bool" => Dyn::Bool(bool::deserialize(c)?),
            "unit" => {
                <()>::deserialize(c)?;
                Dyn::Unit
            }
            "char" => Dyn::Char(char::deserialize(c)?),
            "str" => Dyn::Str(String::deserialize(c)?),
            "dstr" => Dyn::Dedup(DeduplicatedString::deserialize(c)?.0),
            "dur" => Dyn::Dur(Duration::deserialize(c)?),
            "bytes" => Dyn::Bytes(bytes::Bytes::deserialize(c)?),
            "uuid" => Dyn::Uuid(uuid::Uuid::deserialize(c)?),
            "bigint" => Dyn::BigInt(BigInt::deserialize(c)?),
            "bigdec" => Dyn::BigDec(bigdecimal::BigDecimal::deserialize(c)?),
            "weekday" => Dyn::Weekday(chrono::Weekday::deserialize(c)?),
            "month" => Dyn::Month(chrono::Month::deserialize(c)?),
            "fixedoffset" => Dyn::FixedOffset(chrono::FixedOffset::deserialize(c)?),
            "tz" => Dyn::Tz(chrono_tz::Tz::deserialize(c)?),
            "dt_utc" => Dyn::DtUtc(chrono::DateTime::<chrono::Utc>::deserialize(c)?),
            "ndate" => Dyn::NDate(chrono::NaiveDate::deserialize(c)?),
            "ntime" => Dyn::NTime(chrono::NaiveTime::deserialize(c)?),
            "ndt" => Dyn::NDt(chrono::NaiveDateTime::deserialize(c)?),
            "dt_local" => Dyn::DtLocal(chrono::DateTime::<chrono::Local>::deserialize(c)?),
            "dt_fixed" => Dyn::DtFixed(chrono::DateTime::<chrono::FixedOffset>::deserialize(c)?),
            "dt_tz" => Dyn::DtTz(chrono::DateTime::<chrono_tz::Tz>::deserialize(c)?),
            _ => panic!("unsupported prim {p}"),
        }),
        Ty::Opt(t) => {
            let v = with_expect(vec![t.clone()], || Option::<Dyn>::deserialize(c))?;
            Ok(Dyn::Opt(v.map(Box::new)))
        }
        Ty::Res(r, e) => {
            // Result<R, E> reads E for tag 0 and R for tag 1: give each its own type
            let v = std::result::Result::<DynAs<0>, DynAs<1>>::deserialize_with(c, r, e)?;
            Ok(Dyn::Res(v))
        }
        Ty::Tup(ts) => {
            let v = with_expect(ts.clone(), || -> Result<Vec<Dyn>> {
                Ok(match ts.len() {
                    1 => {
                        let (a,) = <(Dyn,)>::deserialize(c)?;
                        vec![a]
                    }
                    2 => {
                        let (a, b) = <(Dyn, Dyn)>::deserialize(c)?;
                        vec![a, b]
                    }
                    3 => {
                        let (a, b, d) = <(Dyn, Dyn, Dyn)>::deserialize(c)?;
                        vec![a, b, d]
                    }
                    4 => {
                        let (a, b, d, e) = <(Dyn, Dyn, Dyn, Dyn)>::deserialize(c)?;
                        vec![a, b, d, e]
                    }
                    5 => {
                        let (a, b, d, e, f) = <(Dyn, Dyn, Dyn, Dyn, Dyn)>::deserialize(c)?;
                        vec![a, b, d, e, f]
                    }
                    6 => {
                        let (a, b, d, e, f, g) = <(Dyn, Dyn, Dyn, Dyn, Dyn, Dyn)>::deserialize(c)?;
                        vec![a, b, d, e, f, g]
                    }
                    7 => {
                        let (a, b, d, e, f, g, h) = <(Dyn, Dyn, Dyn, Dyn, Dyn, Dyn, Dyn)>::deserialize(c)?;
                        vec![a, b, d, e, f, g, h]
                    }
                    8 => {
                        let (a, b, d, e, f, g, h, i) =
                            <(Dyn, Dyn, Dyn, Dyn, Dyn, Dyn, Dyn, Dyn)>::deserialize(c)?;
                        vec![a, b, d, e, f, g, h, i]
                    }
                    n => panic!("tuple arity {n}"),
                })
            })?;
            Ok(Dyn::Tup(v))
        }
        Ty::Seq(k, n, e) => {
            let is_u8 = **e == Ty::Prim("u8".into());
            if is_u8 && (k == "vec" || k == "slice") {
                return Ok(Dyn::ByteVec(Vec::<u8>::deserialize(c)?));
            }
            if is_u8 && k == "arr" {
                return with_array_len!(*n, de_byte_arr, c);
            }
            with_expect(vec![e.clone()], || match k.as_str() {
                "vec" | "slice" => Ok(Dyn::Vec(Vec::<Dyn>::deserialize(c)?)),
                "ll" => Ok(Dyn::LL(LinkedList::<Dyn>::deserialize(c)?)),
                "hset" => Ok(Dyn::HSet(HashSet::<Dyn>::deserialize(c)?)),
                "bset" => Ok(Dyn::BSet(BTreeSet::<Dyn>::deserialize(c)?)),
                "arr" => with_array_len!(*n, de_arr, c),
                _ => unreachable!(),
            })
        }
        Ty::Map(k, kt, vt) => with_expect(vec![kt.clone(), vt.clone()], || {
            if k == "hmap" {
                Ok(Dyn::HMap(HashMap::<Dyn, Dyn>::deserialize(c)?))
            } else {
                Ok(Dyn::BMap(BTreeMap::<Dyn, Dyn>::deserialize(c)?))
            }
        }),
        Ty::Wrap(w, t) => with_expect(vec![t.clone()], || {
            Ok(Dyn::Wrap(
                w.clone(),
                match w.as_str() {
                    "box" => Box::<Dyn>::deserialize(c)?,
                    "rc" => Box::new((*Rc::<Dyn>::deserialize(c)?).clone()),
                    "arc" => Box::new((*Arc::<Dyn>::deserialize(c)?).clone()),
                    _ => Box::new(Dyn::deserialize(c)?),
                },
            ))
        }),
        Ty::Phantom => {
            PhantomData::<u8>::deserialize(c)?;
            Ok(Dyn::Phantom)
        }
        Ty::Named(n) => {
            let env = env();
            match &env[*n] {
                Decl::Record(_, m) => Ok(Dyn::Rec(*n, de_record(m, c)?)),
                Decl::Enum(tyname, sorted, vars, emeta) => {
                    // what the macro generates for an enum
                    let stored_version = c.read_u8()?;
                    let mut de = if stored_version == 0 {
                        AdtDeserializer::new_v0(emeta, c)?
                    } else {
                        AdtDeserializer::new(emeta, c, stored_version)?
                    };
                    for (case_idx, decl_idx) in case_order(vars, *sorted).into_iter().enumerate() {
                        let var = &vars[decl_idx];
                        if var.transient {
                            let _: Option<Dyn> = de.read_constructor(case_idx as u32, |_| {
                                Err(Error::DeserializingTransientConstructor {
                                    type_name: tyname.clone(),
                                    constructor_name: var.name.clone(),
                                })
                            })?;
                        } else if let Some(r) = de.read_constructor(case_idx as u32, |ctx| {
                            Ok(Dyn::Enum(*n, decl_idx, de_record(&var.rec, ctx)?))
                        })? {
                            return Ok(r);
                        }
                    }
                    enum_fallthrough(&mut de, tyname)
                }
            }
        }
    }
}

/// The last statement of the macro's enum decoder.
fn enum_fallthrough(de: &mut AdtDeserializer<'_, '_, '_>, tyname: &str) -> Result<Dyn> {
    de.unknown_constructor(tyname)
}

/// `Result<R, E>` decodes R or E depending on the tag, so the two positions need different
/// expected types: a marker type per position that looks its type up by index.
pub struct DynAs<const I: usize>(pub Dyn);

thread_local! {
    static RES_TYS: RefCell<Vec<(Rc<Ty>, Rc<Ty>)>> = RefCell::new(Vec::new());
}

impl<const I: usize> BinaryDeserializer for DynAs<I> {
    fn deserialize(c: &mut DeserializationContext<'_>) -> Result<Self> {
        let (r, e) = RES_TYS.with(|t| t.borrow().last().cloned().expect("result types"));
        let ty = if I == 0 { r } else { e };
        Ok(DynAs(decode(&ty, c)?))
    }
}

trait DeserializeWith: Sized {
    fn deserialize_with(
        c: &mut DeserializationContext<'_>,
        r: &Rc<Ty>,
        e: &Rc<Ty>,
    ) -> Result<std::result::Result<Box<Dyn>, Box<Dyn>>>;
}
impl DeserializeWith for std::result::Result<DynAs<0>, DynAs<1>> {
    fn deserialize_with(
        c: &mut DeserializationContext<'_>,
        r: &Rc<Ty>,
        e: &Rc<Ty>,
    ) -> Result<std::result::Result<Box<Dyn>, Box<Dyn>>> {
        RES_TYS.with(|t| t.borrow_mut().push((r.clone(), e.clone())));
        let v = <std::result::Result<DynAs<0>, DynAs<1>>>::deserialize(c);
        RES_TYS.with(|t| t.borrow_mut().pop());
        Ok(match v? {
            Ok(x) => Ok(Box::new(x.0)),
            Err(x) => Err(Box::new(x.0)),
        })
    }
}

pub fn reset_all() {
    reset_expect();
    RES_TYS.with(|t| t.borrow_mut().clear());
}

/// The error classes the properties name, with their payloads; everything else by variant.
pub fn err_class(e: &Error) -> String {
    let h = |s: &str| hex(s.as_bytes());
    match e {
        Error::UnsupportedCharacter(_) => "UnsupportedCharacter".into(),
        Error::FailedToDecodeCharacter(_) => "FailedToDecodeCharacter".into(),
        Error::LengthTooLarge => "LengthTooLarge".into(),
        Error::InvalidTimeZone(_) => "InvalidTimeZone".into(),
        Error::InputEndedUnexpectedly => "InputEnded".into(),
        Error::CompressionFailure(_) => "CompressionFailure".into(),
        Error::DecompressionFailure(_) => "DecompressionFailure".into(),
        Error::FailedToDecodeString(_) => "FailedToDecodeString".into(),
        Error::InvalidStringId(id) => format!("InvalidStringId({})", id.0),
        Error::DeserializationFailure(_) => "DeserializationFailure".into(),
        Error::UnknownFieldReferenceInEvolutionStep(n) => format!("UnknownFieldRef({})", h(n)),
        Error::InvalidConstructorName { .. } => "InvalidConstructorName".into(),
        Error::DeserializingNonExistingChunk(_) => "NonExistingChunk".into(),
        Error::FieldRemovedInSerializedVersion(n) => format!("FieldRemoved({})", h(n)),
        Error::FieldWithoutDefaultValueIsMissing(n) => format!("FieldMissing({})", h(n)),
        Error::NonOptionalFieldSerializedAsNone(n) => format!("NonOptionalNone({})", h(n)),
        Error::InvalidRefId(id) => format!("InvalidRefId({})", id.0),
        Error::InvalidConstructorId { constructor_id, type_name } => {
            format!("InvalidConstructorId({},{})", constructor_id, h(type_name))
        }
        Error::DeserializingTransientConstructor { constructor_name, type_name } => {
            format!("DeTransientCtor({},{})", h(constructor_name), h(type_name))
        }
        Error::SerializingTransientConstructor { constructor_name, type_name } => {
            format!("SerTransientCtor({},{})", h(constructor_name), h(type_name))
        }
    }
}
