//! C11: var-ints through every sink and every source.
use crate::util::*;
use bytes::BytesMut;
use desert::{
    BinaryInput, BinaryOutput, DeserializationContext, OwnedInput, SerializationContext, SizeCalculator, SliceInput,
};
use std::io::{BufRead, Write};

fn one_u32(v: u32, extra: &[u8]) -> String {
    let mut vec: Vec<u8> = Vec::new();
    vec.write_var_u32(v);
    let mut bm = BytesMut::new();
    bm.write_var_u32(v);
    let mut sc = SizeCalculator::new();
    sc.write_var_u32(v);
    let mut cx = SerializationContext::new(Vec::<u8>::new());
    cx.push_buffer(Vec::new());
    cx.write_var_u32(v);
    let buffered = cx.pop_buffer();
    cx.write_var_u32(v);
    let direct = cx.into_output();
    if buffered != vec || direct != vec {
        return format!("CONTEXT-SINK-DIFFERS vec={} buffered={} direct={}", hex(&vec), hex(&buffered), hex(&direct));
    }
    let mut data = vec.clone();
    data.extend_from_slice(extra);
    let mut si = SliceInput::new(&data);
    let r1 = si.read_var_u32().ok();
    let rest1 = si.data.len() - si.pos;
    let mut oi = OwnedInput::new(data.clone());
    let r2 = oi.read_var_u32().ok();
    let mut n2 = 0usize;
    while oi.read_u8().is_ok() {
        n2 += 1;
    }
    let mut ctx = DeserializationContext::new(&data);
    let r3 = ctx.read_var_u32().ok();
    let mut n3 = 0usize;
    while ctx.read_u8().is_ok() {
        n3 += 1;
    }
    format!(
        "{} {} {} {:?} {} {:?} {} {:?} {}",
        hex(&vec),
        hex(&bm),
        sc.size(),
        r1,
        rest1,
        r2,
        n2,
        r3,
        n3
    )
}

fn one_i32(v: i32, extra: &[u8]) -> String {
    let mut vec: Vec<u8> = Vec::new();
    vec.write_var_i32(v);
    let mut bm = BytesMut::new();
    bm.write_var_i32(v);
    let mut sc = SizeCalculator::new();
    sc.write_var_i32(v);
    let mut cx = SerializationContext::new(Vec::<u8>::new());
    cx.push_buffer(Vec::new());
    cx.write_var_i32(v);
    let buffered = cx.pop_buffer();
    cx.write_var_i32(v);
    let direct = cx.into_output();
    if buffered != vec || direct != vec {
        return format!("CONTEXT-SINK-DIFFERS vec={} buffered={} direct={}", hex(&vec), hex(&buffered), hex(&direct));
    }
    let mut data = vec.clone();
    data.extend_from_slice(extra);
    let mut si = SliceInput::new(&data);
    let r1 = si.read_var_i32().ok();
    let rest1 = si.data.len() - si.pos;
    let mut oi = OwnedInput::new(data.clone());
    let r2 = oi.read_var_i32().ok();
    let mut n2 = 0usize;
    while oi.read_u8().is_ok() {
        n2 += 1;
    }
    let mut ctx = DeserializationContext::new(&data);
    let r3 = ctx.read_var_i32().ok();
    let mut n3 = 0usize;
    while ctx.read_u8().is_ok() {
        n3 += 1;
    }
    format!(
        "{} {} {} {:?} {} {:?} {} {:?} {}",
        hex(&vec),
        hex(&bm),
        sc.size(),
        r1,
        rest1,
        r2,
        n2,
        r3,
        n3
    )
}

/// Case file lines: `u <u32> <hex suffix>` | `i <i32> <hex suffix>` | `r <hex bytes>` (read-only: decode
/// arbitrary bytes as var_u32 and var_i32 from the three sources).
pub fn cases(args: &[String]) {
    quiet_panics();
    let f = std::fs::File::open(&args[0]).expect("case file");
    let out = std::io::stdout();
    let mut out = std::io::BufWriter::new(out.lock());
    for line in std::io::BufReader::new(f).lines() {
        let line = line.unwrap();
        let t: Vec<&str> = line.split_whitespace().collect();
        if t.is_empty() {
            continue;
        }
        let res = match t[0] {
            "u" => {
                let v: u32 = t[1].parse().unwrap();
                let extra = unhex(t[2]);
                guarded(move || one_u32(v, &extra))
            }
            "i" => {
                let v: i32 = t[1].parse().unwrap();
                let extra = unhex(t[2]);
                guarded(move || one_i32(v, &extra))
            }
            "r" => {
                let data = unhex(t[1]);
                guarded(move || {
                    let mut s = String::new();
                    for signed in [false, true] {
                        let mut si = SliceInput::new(&data);
                        let mut oi = OwnedInput::new(data.clone());
                        let mut ctx = DeserializationContext::new(&data);
                        let (a, b, c) = if signed {
                            (
                                si.read_var_i32().ok().map(|x| x as i64),
                                oi.read_var_i32().ok().map(|x| x as i64),
                                ctx.read_var_i32().ok().map(|x| x as i64),
                            )
                        } else {
                            (
                                si.read_var_u32().ok().map(|x| x as i64),
                                oi.read_var_u32().ok().map(|x| x as i64),
                                ctx.read_var_u32().ok().map(|x| x as i64),
                            )
                        };
                        let rest1 = si.data.len() - si.pos;
                        let mut n2 = 0usize;
                        while oi.read_u8().is_ok() {
                            n2 += 1;
                        }
                        let mut n3 = 0usize;
                        while ctx.read_u8().is_ok() {
                            n3 += 1;
                        }
                        let x = |o: &Option<i64>, n: usize| if o.is_some() { n.to_string() } else { "x".to_string() };
                        s.push_str(&format!("{:?} {} {:?} {} {:?} {} ", a, x(&a, rest1), b, x(&b, n2), c, x(&c, n3)));
                    }
                    s.trim_end().to_string()
                })
            }
            _ => panic!("bad case line {line}"),
        };
        match res {
            Ok(s) => writeln!(out, "{s}").unwrap(),
            Err(p) => writeln!(out, "PANIC {}", p.replace('\n', " ")).unwrap(),
        }
    }
}

/// LEB128 as in the model (`leb128_u32`), transcribed: the reference for the exhaustive sweep.
fn leb128(mut v: u32, out: &mut [u8; 5]) -> usize {
    let mut n = 0;
    for _ in 0..4 {
        if v < 128 {
            break;
        }
        out[n] = (v % 128 + 128) as u8;
        n += 1;
        v /= 128;
    }
    out[n] = v as u8;
    n + 1
}

fn zigzag_ref(z: i32) -> u32 {
    let z = z as i64;
    (if z >= 0 { 2 * z } else { -2 * z - 1 }) as u32
}

/// Exhaustive: all 2^32 u32 and all 2^32 i32 values, three sinks and three sources each, against the
/// transcribed reference.  args: <threads> [<stride>]  (stride 1 = exhaustive)
fn sweep_range(lo: u64, hi: u64, stride: u64) -> (u64, Option<String>) {
    let mut n = 0u64;
    let mut buf = [0u8; 5];
    let mut vec: Vec<u8> = Vec::with_capacity(8);
    let mut bm = BytesMut::with_capacity(8);
    // the fourth sink: a SerializationContext, writing into a pushed chunk buffer (every value) and straight
    // through to its output (every 64th value: the output cannot be emptied)
    let mut cx = SerializationContext::new(Vec::<u8>::new());
    let mut scratch: Vec<u8> = Vec::with_capacity(16);
    let mut x = lo;
    while x < hi {
        let v = x as u32;
        // unsigned
        let len = leb128(v, &mut buf);
        scratch.clear();
        cx.push_buffer(std::mem::take(&mut scratch));
        cx.write_var_u32(v);
        scratch = cx.pop_buffer();
        if scratch[..] != buf[..len] {
            return (n, Some(format!("u {v} written into a chunk buffer of a SerializationContext: {} ref {}", hex(&scratch), hex(&buf[..len]))));
        }
        let zlen = leb128(zigzag_ref(v as i32), &mut buf);
        scratch.clear();
        cx.push_buffer(std::mem::take(&mut scratch));
        cx.write_var_i32(v as i32);
        scratch = cx.pop_buffer();
        if scratch[..] != buf[..zlen] {
            return (n, Some(format!("i {} written into a chunk buffer of a SerializationContext: {} ref {}", v as i32, hex(&scratch), hex(&buf[..zlen]))));
        }
        if (x / stride) % 64 == 0 {
            let mut direct = SerializationContext::new(Vec::<u8>::with_capacity(16));
            direct.write_var_i32(v as i32);
            direct.write_var_u32(v);
            let out = direct.into_output();
            let len = leb128(v, &mut buf);
            if out[..zlen] != {
                let mut b2 = [0u8; 5];
                let l2 = leb128(zigzag_ref(v as i32), &mut b2);
                b2[..l2].to_vec()
            }[..]
                || out[zlen..] != buf[..len]
            {
                return (n, Some(format!("{v} written through a SerializationContext: {}", hex(&out))));
            }
        }
        let len = leb128(v, &mut buf);
        vec.clear();
        vec.write_var_u32(v);
        bm.clear();
        bm.write_var_u32(v);
        let mut sc = SizeCalculator::new();
        sc.write_var_u32(v);
        if vec[..] != buf[..len] || bm[..] != buf[..len] || sc.size() != len {
            return (n, Some(format!("u {v} write {} ref {}", hex(&vec), hex(&buf[..len]))));
        }
        let mut si = SliceInput::new(&vec);
        let a = si.read_var_u32().ok();
        let mut ctx = DeserializationContext::new(&vec);
        let c = ctx.read_var_u32().ok();
        let mut oi = OwnedInput::new(vec.clone());
        let b = oi.read_var_u32().ok();
        if a != Some(v) || b != Some(v) || c != Some(v) || si.pos != len || ctx.read_u8().is_ok() || oi.read_u8().is_ok() {
            return (n, Some(format!("u {v} read {:?} {:?} {:?}", a, b, c)));
        }

        // signed
        let z = v as i32;
        let len = leb128(zigzag_ref(z), &mut buf);
        vec.clear();
        vec.write_var_i32(z);
        bm.clear();
        bm.write_var_i32(z);
        let mut sc = SizeCalculator::new();
        sc.write_var_i32(z);
        if vec[..] != buf[..len] || bm[..] != buf[..len] || sc.size() != len {
            return (n, Some(format!("i {z} write {} ref {}", hex(&vec), hex(&buf[..len]))));
        }
        let mut si = SliceInput::new(&vec);
        let a = si.read_var_i32().ok();
        let mut ctx = DeserializationContext::new(&vec);
        let c = ctx.read_var_i32().ok();
        let mut oi = OwnedInput::new(vec.clone());
        let b = oi.read_var_i32().ok();
        if a != Some(z) || b != Some(z) || c != Some(z) || si.pos != len || ctx.read_u8().is_ok() || oi.read_u8().is_ok() {
            return (n, Some(format!("i {z} read {:?} {:?} {:?}", a, b, c)));
        }

        n += 2;
        x += stride;
    }
    (n, None)
}

pub fn sweep(args: &[String]) {
    let threads: u64 = args.get(0).map(|s| s.parse().unwrap()).unwrap_or(16);
    let stride: u64 = args.get(1).map(|s| s.parse().unwrap()).unwrap_or(1);
    let total: u64 = 1u64 << 32;
    let chunk = total / threads;
    let mut handles = Vec::new();
    for t in 0..threads {
        let lo = t * chunk;
        let hi = if t == threads - 1 { total } else { lo + chunk };
        handles.push(std::thread::spawn(move || sweep_range(lo, hi, stride)));
    }
    if stride > 1 {
        // a strided sweep is completed by exhaustive windows of +-65536 around every place where the encoding
        // changes shape: 0, the 7-bit group boundaries (and their zig-zag pre-images 2^6, 2^13, ...), 2^31, 2^32
        let w: u64 = 65536;
        for p in [0u64, 1 << 6, 1 << 7, 1 << 13, 1 << 14, 1 << 20, 1 << 21, 1 << 27, 1 << 28, 1 << 31, 1 << 32] {
            for c in [p, total - p] {
                let lo = c.saturating_sub(w);
                let hi = (c + w).min(total);
                if lo < hi {
                    handles.push(std::thread::spawn(move || sweep_range(lo, hi, 1)));
                }
            }
        }
    }
    let mut n = 0;
    let mut bad = None;
    for h in handles {
        let (k, b) = h.join().unwrap();
        n += k;
        if bad.is_none() {
            bad = b;
        }
    }
    match bad {
        None => println!("SWEEP ok {n}"),
        Some(b) => println!("SWEEP fail {n} {b}"),
    }
}
