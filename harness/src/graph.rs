//! C10: a canonical codec over Rc<Node> built on store_ref_or_object / try_read_ref / store_ref,
//! identity = address. The same codec is modelled in coq/Graph.v.
use crate::util::*;
use desert::{BinaryInput, BinaryOutput, DeserializationContext, Result, SerializationContext};
use std::cell::{Cell, RefCell};
use std::io::{BufRead, Write};
use std::rc::Rc;

pub struct Node {
    label: Cell<u32>,
    edges: RefCell<Vec<Rc<Node>>>,
}

fn enc_edge<O: BinaryOutput>(ctx: &mut SerializationContext<O>, n: &Rc<Node>) -> Result<()> {
    let node: &Node = n;
    if ctx.store_ref_or_object(node)? {
        ctx.write_var_u32(n.label.get());
        let edges = n.edges.borrow();
        ctx.write_var_u32(edges.len() as u32);
        for e in edges.iter() {
            enc_edge(ctx, e)?;
        }
    }
    Ok(())
}

fn dec_edge(ctx: &mut DeserializationContext<'_>, created: &mut Vec<Rc<Node>>) -> Result<Rc<Node>> {
    let known: Option<*const Node> = ctx
        .try_read_ref()?
        .map(|any| any.downcast_ref::<Node>().expect("a Node was registered") as *const Node);
    match known {
        Some(p) => Ok(created.iter().find(|r| Rc::as_ptr(r) == p).expect("registered node is alive").clone()),
        None => {
            let n = Rc::new(Node { label: Cell::new(0), edges: RefCell::new(Vec::new()) });
            let node: &Node = &n;
            ctx.state_mut().store_ref(node);
            created.push(n.clone());
            n.label.set(ctx.read_var_u32()?);
            let count = ctx.read_var_u32()?;
            for _ in 0..count {
                let e = dec_edge(ctx, created)?;
                n.edges.borrow_mut().push(e);
            }
            Ok(n)
        }
    }
}

// ---- the same graph inside an evolved derived record: the reference markers travel through the serializer's
// chunk buffers (the record writer buffers every chunk and emits them after the header) ----
thread_local! {
    static CREATED: RefCell<Vec<Rc<Node>>> = RefCell::new(Vec::new());
}

pub struct Edge(pub Rc<Node>);

impl desert::BinarySerializer for Edge {
    fn serialize<O: BinaryOutput>(&self, ctx: &mut SerializationContext<O>) -> Result<()> {
        enc_edge(ctx, &self.0)
    }
}
impl desert::BinaryDeserializer for Edge {
    fn deserialize(ctx: &mut DeserializationContext<'_>) -> Result<Self> {
        let mut created = CREATED.with(|c| std::mem::take(&mut *c.borrow_mut()));
        let r = dec_edge(ctx, &mut created);
        CREATED.with(|c| *c.borrow_mut() = created);
        r.map(Edge)
    }
}

fn leaf() -> Edge {
    Edge(Rc::new(Node { label: Cell::new(0), edges: RefCell::new(Vec::new()) }))
}

/// version 1: `second` lives in its own chunk, so a back-reference is written into a different buffer than the
/// object it refers to
#[derive(desert::BinaryCodec)]
#[evolution(FieldAdded("second", leaf()))]
pub struct Doc {
    pub title: String,
    pub first: Edge,
    pub second: Edge,
}

/// the same with de-duplicated strings around the graph and a name-carrying header entry: string ids and object
/// numbers are two separate numberings of the same stream
#[derive(desert::BinaryCodec)]
#[evolution(FieldAdded("second", leaf()), FieldRemoved("gone"))]
pub struct DocS {
    pub title: desert::DeduplicatedString,
    pub first: Edge,
    pub again: desert::DeduplicatedString,
    pub second: Edge,
}

struct DocSRest(DocS, usize);
impl desert::BinaryDeserializer for DocSRest {
    fn deserialize(ctx: &mut DeserializationContext<'_>) -> Result<Self> {
        let d = <DocS as desert::BinaryDeserializer>::deserialize(ctx)?;
        let mut rest = 0usize;
        while ctx.read_u8().is_ok() {
            rest += 1;
        }
        Ok(DocSRest(d, rest))
    }
}

fn show(created: &[Rc<Node>]) -> String {
    let idx = |r: &Rc<Node>| created.iter().position(|c| Rc::ptr_eq(c, r)).expect("edge target was created");
    let parts: Vec<String> = created
        .iter()
        .map(|n| {
            let es: Vec<String> = n.edges.borrow().iter().map(|e| idx(e).to_string()).collect();
            format!("{}:{}", n.label.get(), es.join(","))
        })
        .collect();
    if parts.is_empty() {
        "-".into()
    } else {
        parts.join(" ")
    }
}

/// Doc followed by a count of the bytes left in the context
struct DocRest(Doc, usize);
impl desert::BinaryDeserializer for DocRest {
    fn deserialize(ctx: &mut DeserializationContext<'_>) -> Result<Self> {
        let d = <Doc as desert::BinaryDeserializer>::deserialize(ctx)?;
        let mut rest = 0usize;
        while ctx.read_u8().is_ok() {
            rest += 1;
        }
        Ok(DocRest(d, rest))
    }
}

fn break_cycles(nodes: &[Rc<Node>]) {
    for n in nodes {
        n.edges.borrow_mut().clear();
    }
}

fn decode(bytes: &[u8]) -> String {
    let mut ctx = DeserializationContext::new(bytes);
    let mut created = Vec::new();
    let r = dec_edge(&mut ctx, &mut created);
    let out = match r {
        Ok(root) => {
            let mut rest = 0usize;
            while ctx.read_u8().is_ok() {
                rest += 1;
            }
            let ri = created.iter().position(|c| Rc::ptr_eq(c, &root)).unwrap();
            format!("ok {ri} | {} | {rest}", show(&created))
        }
        Err(e) => format!("err {}", crate::dynval::err_class(&e)),
    };
    break_cycles(&created);
    out
}

/// Lines: `g ROOT LABEL:E,E ... SUFFIX` (node i = i-th item) | `gdec HEX`
pub fn cases(args: &[String]) {
    quiet_panics();
    let f = std::fs::File::open(&args[0]).expect("case file");
    start_watchdog(10_000);
    let out = std::io::stdout();
    let mut out = std::io::LineWriter::new(out.lock());
    let mut index = 0u64;
    for line in std::io::BufReader::new(f).lines() {
        let line = line.unwrap();
        let t: Vec<String> = line.split_whitespace().map(|s| s.to_string()).collect();
        if t.is_empty() {
            continue;
        }
        case_begin(index);
        index += 1;
        let r = guarded(std::panic::AssertUnwindSafe(move || match t[0].as_str() {
            "g" => {
                let root: usize = t[1].parse().unwrap();
                let specs = &t[2..t.len() - 1];
                let suffix = unhex(&t[t.len() - 1]);
                let nodes: Vec<Rc<Node>> = specs
                    .iter()
                    .map(|s| {
                        let (l, _) = s.split_once(':').unwrap();
                        Rc::new(Node { label: Cell::new(l.parse().unwrap()), edges: RefCell::new(Vec::new()) })
                    })
                    .collect();
                for (n, s) in nodes.iter().zip(specs) {
                    let (_, es) = s.split_once(':').unwrap();
                    for e in es.split(',').filter(|x| !x.is_empty()) {
                        n.edges.borrow_mut().push(nodes[e.parse::<usize>().unwrap()].clone());
                    }
                }
                let mut ctx = SerializationContext::new(Vec::<u8>::new());
                let res = enc_edge(&mut ctx, &nodes[root]);
                let line = match res {
                    Ok(()) => {
                        let mut bytes = ctx.into_output();
                        let enc = hex(&bytes);
                        bytes.extend_from_slice(&suffix);
                        format!("ok {enc} ; {}", decode(&bytes))
                    }
                    Err(e) => format!("err {} ; -", crate::dynval::err_class(&e)),
                };
                break_cycles(&nodes);
                line
            }
            "ge" => {
                // `ge ROOT NODES.. SUFFIX`: Doc { title: "t", first: root, second: root }
                let root: usize = t[1].parse().unwrap();
                let specs = &t[2..t.len() - 1];
                let suffix = unhex(&t[t.len() - 1]);
                let nodes: Vec<Rc<Node>> = specs
                    .iter()
                    .map(|s| {
                        let (l, _) = s.split_once(':').unwrap();
                        Rc::new(Node { label: Cell::new(l.parse().unwrap()), edges: RefCell::new(Vec::new()) })
                    })
                    .collect();
                for (n, s) in nodes.iter().zip(specs) {
                    let (_, es) = s.split_once(':').unwrap();
                    for e in es.split(',').filter(|x| !x.is_empty()) {
                        n.edges.borrow_mut().push(nodes[e.parse::<usize>().unwrap()].clone());
                    }
                }
                // the parts, written at top level with the same primitives: the graph, then the root again
                let mut ca = SerializationContext::new(Vec::<u8>::new());
                let mut cb = SerializationContext::new(Vec::<u8>::new());
                let parts = enc_edge(&mut ca, &nodes[root])
                    .and_then(|_| enc_edge(&mut cb, &nodes[root]))
                    .and_then(|_| enc_edge(&mut cb, &nodes[root]));
                let doc = Doc { title: "t".to_string(), first: Edge(nodes[root].clone()), second: Edge(nodes[root].clone()) };
                let res = desert::serialize_to_byte_vec(&doc);
                let line = match (res, parts) {
                    (Ok(mut bytes), Ok(())) => {
                        let g_len = ca.into_output().len();
                        let all = cb.into_output();
                        let enc = hex(&bytes);
                        bytes.extend_from_slice(&suffix);
                        CREATED.with(|c| c.borrow_mut().clear());
                        let d = desert::deserialize::<DocRest>(&bytes);
                        let created = CREATED.with(|c| std::mem::take(&mut *c.borrow_mut()));
                        let dl = match d {
                            Ok(DocRest(doc, rest)) => {
                                let i1 = created.iter().position(|c| Rc::ptr_eq(c, &doc.first.0)).unwrap();
                                let i2 = created.iter().position(|c| Rc::ptr_eq(c, &doc.second.0)).unwrap();
                                format!("ok {} {i1} {i2} | {} | {rest}", hex(doc.title.as_bytes()), show(&created))
                            }
                            Err(e) => format!("err {}", crate::dynval::err_class(&e)),
                        };
                        break_cycles(&created);
                        format!("ok {enc} ; {} {} ; {dl}", hex(&all[..g_len]), hex(&all[g_len..]))
                    }
                    (Err(e), _) | (_, Err(e)) => format!("err {} ; - ; -", crate::dynval::err_class(&e)),
                };
                break_cycles(&nodes);
                line
            }
            "gs" => {
                // `gs ROOT NODES.. SUFFIX`: DocS { title: "t", first: root, again: "t", second: root }
                let root: usize = t[1].parse().unwrap();
                let specs = &t[2..t.len() - 1];
                let suffix = unhex(&t[t.len() - 1]);
                let nodes: Vec<Rc<Node>> = specs
                    .iter()
                    .map(|s| {
                        let (l, _) = s.split_once(':').unwrap();
                        Rc::new(Node { label: Cell::new(l.parse().unwrap()), edges: RefCell::new(Vec::new()) })
                    })
                    .collect();
                for (n, s) in nodes.iter().zip(specs) {
                    let (_, es) = s.split_once(':').unwrap();
                    for e in es.split(',').filter(|x| !x.is_empty()) {
                        n.edges.borrow_mut().push(nodes[e.parse::<usize>().unwrap()].clone());
                    }
                }
                let mut ca = SerializationContext::new(Vec::<u8>::new());
                let mut cb = SerializationContext::new(Vec::<u8>::new());
                let parts = enc_edge(&mut ca, &nodes[root])
                    .and_then(|_| enc_edge(&mut cb, &nodes[root]))
                    .and_then(|_| enc_edge(&mut cb, &nodes[root]));
                let doc = DocS {
                    title: desert::DeduplicatedString("t".to_string()),
                    first: Edge(nodes[root].clone()),
                    again: desert::DeduplicatedString("t".to_string()),
                    second: Edge(nodes[root].clone()),
                };
                let res = desert::serialize_to_byte_vec(&doc);
                let line = match (res, parts) {
                    (Ok(mut bytes), Ok(())) => {
                        let g_len = ca.into_output().len();
                        let all = cb.into_output();
                        let enc = hex(&bytes);
                        bytes.extend_from_slice(&suffix);
                        CREATED.with(|c| c.borrow_mut().clear());
                        let d = desert::deserialize::<DocSRest>(&bytes);
                        let created = CREATED.with(|c| std::mem::take(&mut *c.borrow_mut()));
                        let dl = match d {
                            Ok(DocSRest(doc, rest)) => {
                                let i1 = created.iter().position(|c| Rc::ptr_eq(c, &doc.first.0)).unwrap();
                                let i2 = created.iter().position(|c| Rc::ptr_eq(c, &doc.second.0)).unwrap();
                                format!("ok {} {} {i1} {i2} | {} | {rest}", hex(doc.title.0.as_bytes()), hex(doc.again.0.as_bytes()), show(&created))
                            }
                            Err(e) => format!("err {}", crate::dynval::err_class(&e)),
                        };
                        break_cycles(&created);
                        format!("ok {enc} ; {} {} ; {dl}", hex(&all[..g_len]), hex(&all[g_len..]))
                    }
                    (Err(e), _) | (_, Err(e)) => format!("err {} ; - ; -", crate::dynval::err_class(&e)),
                };
                break_cycles(&nodes);
                line
            }
            "alias" => {
                // two DIFFERENT objects that start at the same address (a struct and its first field): identity is
                // the object, not the address; each is new once and then referenced by its own id
                #[repr(C)]
                struct Header {
                    tag: u32,
                }
                #[repr(C)]
                struct Frame {
                    header: Header,
                    body: u32,
                }
                let frame = Frame { header: Header { tag: 77 }, body: 5 };
                let _ = (frame.header.tag, frame.body);
                let mut ctx = SerializationContext::new(Vec::<u8>::new());
                let mut news = Vec::new();
                news.push(ctx.store_ref_or_object(&frame).map_err(|e| format!("{e}")));
                news.push(ctx.store_ref_or_object(&frame.header).map_err(|e| format!("{e}")));
                news.push(ctx.store_ref_or_object(&frame).map_err(|e| format!("{e}")));
                news.push(ctx.store_ref_or_object(&frame.header).map_err(|e| format!("{e}")));
                let flags: Vec<String> = news.iter().map(|r| match r { Ok(true) => "new".into(), Ok(false) => "ref".into(), Err(e) => e.clone() }).collect();
                format!("ok {} {}", hex(&ctx.into_output()), flags.join(","))
            }
            "gdec" => decode(&unhex(&t[1])),
            _ => panic!("bad graph line"),
        }));
        match r {
            Ok(s) => writeln!(out, "{s}").unwrap(),
            Err(p) => writeln!(out, "panic {}", p.replace('\n', " ")).unwrap(),
        }
    }
}
