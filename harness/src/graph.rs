//! C10: a canonical codec over Rc<Node> built on store_ref_or_object / try_read_ref / store_ref,
//! identity = address. The same codec is modelled in coq/Graph.v.
use crate::util::*;
use desert::{BinaryInput, BinaryOutput, DeserializationContext, Result, SerializationContext};
use std::cell::{Cell, RefCell};
use std::io::{BufRead, Write};
use std::rc::Rc;

pub struct Node {
    label: Cell<u32>,
    edges: RefCell<Vec<Rc<Node>>>,
}

fn enc_edge<O: BinaryOutput>(ctx: &mut SerializationContext<O>, n: &Rc<Node>) -> Result<()> {
    let node: &Node = n;
    if ctx.store_ref_or_object(node)? {
        ctx.write_var_u32(n.label.get());
        let edges = n.edges.borrow();
        ctx.write_var_u32(edges.len() as u32);
        for e in edges.iter() {
            enc_edge(ctx, e)?;
        }
    }
    Ok(())
}

fn dec_edge(ctx: &mut DeserializationContext<'_>, created: &mut Vec<Rc<Node>>) -> Result<Rc<Node>> {
    let known: Option<*const Node> = ctx
        .try_read_ref()?
        .map(|any| any.downcast_ref::<Node>().expect("a Node was registered") as *const Node);
    match known {
        Some(p) => Ok(created.iter().find(|r| Rc::as_ptr(r) == p).expect("registered node is alive").clone()),
        None => {
            let n = Rc::new(Node { label: Cell::new(0), edges: RefCell::new(Vec::new()) });
            let node: &Node = &n;
            ctx.state_mut().store_ref(node);
            created.push(n.clone());
            n.label.set(ctx.read_var_u32()?);
            let count = ctx.read_var_u32()?;
            for _ in 0..count {
                let e = dec_edge(ctx, created)?;
                n.edges.borrow_mut().push(e);
            }
            Ok(n)
        }
    }
}

fn show(created: &[Rc<Node>]) -> String {
    let idx = |r: &Rc<Node>| created.iter().position(|c| Rc::ptr_eq(c, r)).expect("edge target was created");
    let parts: Vec<String> = created
        .iter()
        .map(|n| {
            let es: Vec<String> = n.edges.borrow().iter().map(|e| idx(e).to_string()).collect();
            format!("{}:{}", n.label.get(), es.join(","))
        })
        .collect();
    if parts.is_empty() {
        "-".into()
    } else {
        parts.join(" ")
    }
}

fn break_cycles(nodes: &[Rc<Node>]) {
    for n in nodes {
        n.edges.borrow_mut().clear();
    }
}

fn decode(bytes: &[u8]) -> String {
    let mut ctx = DeserializationContext::new(bytes);
    let mut created = Vec::new();
    let r = dec_edge(&mut ctx, &mut created);
    let out = match r {
        Ok(root) => {
            let mut rest = 0usize;
            while ctx.read_u8().is_ok() {
                rest += 1;
            }
            let ri = created.iter().position(|c| Rc::ptr_eq(c, &root)).unwrap();
            format!("ok {ri} | {} | {rest}", show(&created))
        }
        Err(e) => format!("err {}", crate::dynval::err_class(&e)),
    };
    break_cycles(&created);
    out
}

/// Lines: `g ROOT LABEL:E,E ... SUFFIX` (node i = i-th item) | `gdec HEX`
pub fn cases(args: &[String]) {
    quiet_panics();
    let f = std::fs::File::open(&args[0]).expect("case file");
    start_watchdog(10_000);
    let out = std::io::stdout();
    let mut out = std::io::LineWriter::new(out.lock());
    let mut index = 0u64;
    for line in std::io::BufReader::new(f).lines() {
        let line = line.unwrap();
        let t: Vec<String> = line.split_whitespace().map(|s| s.to_string()).collect();
        if t.is_empty() {
            continue;
        }
        case_begin(index);
        index += 1;
        let r = guarded(std::panic::AssertUnwindSafe(move || match t[0].as_str() {
            "g" => {
                let root: usize = t[1].parse().unwrap();
                let specs = &t[2..t.len() - 1];
                let suffix = unhex(&t[t.len() - 1]);
                let nodes: Vec<Rc<Node>> = specs
                    .iter()
                    .map(|s| {
                        let (l, _) = s.split_once(':').unwrap();
                        Rc::new(Node { label: Cell::new(l.parse().unwrap()), edges: RefCell::new(Vec::new()) })
                    })
                    .collect();
                for (n, s) in nodes.iter().zip(specs) {
                    let (_, es) = s.split_once(':').unwrap();
                    for e in es.split(',').filter(|x| !x.is_empty()) {
                        n.edges.borrow_mut().push(nodes[e.parse::<usize>().unwrap()].clone());
                    }
                }
                let mut ctx = SerializationContext::new(Vec::<u8>::new());
                let res = enc_edge(&mut ctx, &nodes[root]);
                let line = match res {
                    Ok(()) => {
                        let mut bytes = ctx.into_output();
                        let enc = hex(&bytes);
                        bytes.extend_from_slice(&suffix);
                        format!("ok {enc} ; {}", decode(&bytes))
                    }
                    Err(e) => format!("err {} ; -", crate::dynval::err_class(&e)),
                };
                break_cycles(&nodes);
                line
            }
            "gdec" => decode(&unhex(&t[1])),
            _ => panic!("bad graph line"),
        }));
        match r {
            Ok(s) => writeln!(out, "{s}").unwrap(),
            Err(p) => writeln!(out, "panic {}", p.replace('\n', " ")).unwrap(),
        }
    }
}
