//! C15 / C05: arbitrary sequences of primitive operations on every sink and every source,
//! including the region machine of DeserializationContext (through the desert_verif hook).
use crate::util::*;
use bytes::BytesMut;
use desert::{
    BinaryInput, BinaryOutput, DeserializationContext, OwnedInput, SerializationContext,
    SizeCalculator, SliceInput,
};
use std::io::{BufRead, Write};

/// A user-defined output implementing only the two required methods.
#[derive(Default)]
struct Recording {
    bytes: Vec<u8>,
}
impl BinaryOutput for Recording {
    fn write_u8(&mut self, value: u8) {
        self.bytes.push(value);
    }
    fn write_bytes(&mut self, bytes: &[u8]) {
        for b in bytes {
            self.write_u8(*b);
        }
    }
}

fn apply_w<O: BinaryOutput>(o: &mut O, ops: &[&str]) {
    for op in ops {
        let (k, a) = op.split_once(':').unwrap();
        match k {
            "u8" => o.write_u8(a.parse().unwrap()),
            "i8" => o.write_i8(a.parse().unwrap()),
            "u16" => o.write_u16(a.parse().unwrap()),
            "i16" => o.write_i16(a.parse().unwrap()),
            "u32" => o.write_u32(a.parse().unwrap()),
            "i32" => o.write_i32(a.parse().unwrap()),
            "u64" => o.write_u64(a.parse().unwrap()),
            "i64" => o.write_i64(a.parse().unwrap()),
            "u128" => o.write_u128(a.parse().unwrap()),
            "i128" => o.write_i128(a.parse().unwrap()),
            "f32" => o.write_f32(f32::from_bits(a.parse().unwrap())),
            "f64" => o.write_f64(f64::from_bits(a.parse().unwrap())),
            "varu" => o.write_var_u32(a.parse().unwrap()),
            "vari" => o.write_var_i32(a.parse().unwrap()),
            "bytes" => o.write_bytes(&unhex(a)),
            _ => panic!("bad write op {op}"),
        }
    }
}

fn read_op<I: BinaryInput>(i: &mut I, k: &str, a: &str) -> String {
    fn show<T: std::fmt::Display>(r: desert::Result<T>) -> String {
        match r {
            Ok(v) => format!("{v}"),
            Err(_) => "E".to_string(),
        }
    }
    match k {
        "u8" => show(i.read_u8()),
        "i8" => show(i.read_i8()),
        "u16" => show(i.read_u16()),
        "i16" => show(i.read_i16()),
        "u32" => show(i.read_u32()),
        "i32" => show(i.read_i32()),
        "u64" => show(i.read_u64()),
        "i64" => show(i.read_i64()),
        "u128" => show(i.read_u128()),
        "i128" => show(i.read_i128()),
        "f32" => show(i.read_f32().map(|x| x.to_bits())),
        "f64" => show(i.read_f64().map(|x| x.to_bits())),
        "varu" => show(i.read_var_u32()),
        "vari" => show(i.read_var_i32()),
        "bytes" => show(i.read_bytes(a.parse().unwrap()).map(hex)),
        "skip" => show(i.skip(a.parse().unwrap()).map(|_| "S")),
        _ => panic!("bad read op {k}"),
    }
}

fn run_reads<I: BinaryInput>(i: &mut I, ops: &[&str]) -> String {
    let mut out = Vec::new();
    for op in ops {
        let (k, a) = op.split_once(':').unwrap_or((op, ""));
        if k == "push" || k == "pop" {
            continue; // region operations exist on the context only
        }
        out.push(read_op(i, k, a));
    }
    out.join(",")
}

fn run_ctx(data: &[u8], ops: &[&str]) -> String {
    let mut ctx = DeserializationContext::new(data);
    let mut out = Vec::new();
    for op in ops {
        let (k, a) = op.split_once(':').unwrap_or((op, ""));
        match k {
            "push" => {
                let (s, l) = a.split_once(':').unwrap();
                desert::verif_hooks::push_region(&mut ctx, s.parse().unwrap(), l.parse().unwrap());
                out.push("P".to_string());
            }
            "pop" => {
                let (s, p, e) = desert::verif_hooks::pop_region(&mut ctx);
                out.push(format!("R{s}/{p}/{e}"));
            }
            _ => out.push(read_op(&mut ctx, k, a)),
        }
    }
    out.join(",")
}

/// Lines: `w OP...` (sinks) | `r HEX OP...` (sources; with push/pop only the context runs).
pub fn cases(args: &[String]) {
    quiet_panics();
    let f = std::fs::File::open(&args[0]).expect("case file");
    let out = std::io::stdout();
    let mut out = std::io::BufWriter::new(out.lock());
    for line in std::io::BufReader::new(f).lines() {
        let line = line.unwrap();
        let t: Vec<&str> = line.split_whitespace().collect();
        if t.is_empty() {
            continue;
        }
        let res = match t[0] {
            "w" => {
                let ops = t[1..].to_vec();
                guarded(std::panic::AssertUnwindSafe(move || {
                    let mut v: Vec<u8> = Vec::new();
                    apply_w(&mut v, &ops);
                    let mut bm = BytesMut::new();
                    apply_w(&mut bm, &ops);
                    let mut sc = SizeCalculator::new();
                    apply_w(&mut sc, &ops);
                    let mut rec = Recording::default();
                    apply_w(&mut rec, &ops);
                    let mut ctx = SerializationContext::new(Vec::<u8>::new());
                    apply_w(&mut ctx, &ops);
                    // with a buffer pushed, writes must land in the buffer and not in the output
                    let mut ctx2 = SerializationContext::new(Vec::<u8>::new());
                    ctx2.push_buffer(vec![0xAA]);
                    apply_w(&mut ctx2, &ops);
                    let buf = ctx2.pop_buffer();
                    let out2 = ctx2.into_output();
                    format!(
                        "{} {} {} {} {} {} {}",
                        hex(&v),
                        hex(&bm),
                        sc.size(),
                        hex(&rec.bytes),
                        hex(&ctx.into_output()),
                        hex(&buf),
                        hex(&out2)
                    )
                }))
            }
            "r" => {
                let data = unhex(t[1]);
                let ops = t[2..].to_vec();
                let regions = ops.iter().any(|o| o.starts_with("push") || *o == "pop");
                guarded(std::panic::AssertUnwindSafe(move || {
                    if regions {
                        format!("- - {}", run_ctx(&data, &ops))
                    } else {
                        let mut si = SliceInput::new(&data);
                        let mut a = run_reads(&mut si, &ops);
                        if data.is_empty() {
                            // the public constant SliceInput::EMPTY is the slice source over no bytes
                            let mut e = SliceInput::EMPTY;
                            let ae = run_reads(&mut e, &ops);
                            if ae != a {
                                a = format!("EMPTY-CONSTANT-DIFFERS:{ae}");
                            }
                        }
                        let mut oi = OwnedInput::new(data.clone());
                        let b = run_reads(&mut oi, &ops);
                        format!("{a} {b} {}", run_ctx(&data, &ops))
                    }
                }))
            }
            _ => panic!("bad ioops line {line}"),
        };
        match res {
            Ok(s) => writeln!(out, "{s}").unwrap(),
            Err(_) => writeln!(out, "PANIC").unwrap(),
        }
    }
}


/// C15 / C11: sources over MORE than 4 GiB (zeroed pages, only the first and last few are touched): the three
/// sources must decode the same primitives at the start, in the middle and at the very end.
pub fn huge(_args: &[String]) {
    let n: usize = (1usize << 32) + 2;
    let mut data = vec![0u8; n];
    data[0] = 0x80;
    data[1] = 0x80;
    data[2] = 0x01; // var_u32 16384
    data[n - 3] = 0xff;
    data[n - 2] = 0xff;
    data[n - 1] = 0x03; // var_u32 65535 ending exactly at the end
    fn probe<I: BinaryInput>(mut i: I, n: usize) -> String {
        let a = i.read_var_u32().map_err(|e| crate::dynval::err_class(&e));
        let b = i.read_u16().map_err(|e| crate::dynval::err_class(&e));
        let s = i.skip(n - 3 - 3 - 2).map_err(|e| crate::dynval::err_class(&e));
        let c = i.read_var_u32().map_err(|e| crate::dynval::err_class(&e));
        let d = i.read_u8().map_err(|e| crate::dynval::err_class(&e));
        format!("{a:?} {b:?} {s:?} {c:?} {d:?}")
    }
    println!("HUGE slice {}", probe(SliceInput::new(&data), n));
    println!("HUGE context {}", probe(DeserializationContext::new(&data), n));
    println!("HUGE owned {}", probe(OwnedInput::new(data), n));
}
