//! Conversions between case-file values and the typed values of the static catalogue.
use crate::sx::Sx;
use crate::util::{hex, unhex};
use desert::{
    BinaryDeserializer, BinaryInput, BinaryOutput, BinarySerializer, DeduplicatedString,
    DeserializationContext, Result, SerializationContext,
};

pub trait Sxv: Sized {
    fn from_sx(s: &Sx) -> Self;
    fn to_sx(&self) -> String;
    /// Vec<u8> is written `b<hex>` in case files (the byte layout)
    fn vec_from_bytes(_: &[u8]) -> Option<Vec<Self>> {
        None
    }
    fn vec_to_bytes(_: &[Self]) -> Option<Vec<u8>> {
        None
    }
}

pub fn node(tag: usize, parts: Vec<String>) -> String {
    if parts.is_empty() {
        format!("({tag})")
    } else {
        format!("({tag} {})", parts.join(" "))
    }
}

fn num<T: std::str::FromStr>(s: &Sx) -> T
where
    T::Err: std::fmt::Debug,
{
    s.atom()[1..].parse().unwrap()
}

macro_rules! sxv_int {
    ($t:ty, $p:literal) => {
        impl Sxv for $t {
            fn from_sx(s: &Sx) -> Self {
                num(s)
            }
            fn to_sx(&self) -> String {
                format!("{}{}", $p, self)
            }
        }
    };
}
impl Sxv for u8 {
    fn from_sx(s: &Sx) -> Self {
        num(s)
    }
    fn to_sx(&self) -> String {
        format!("n{}", self)
    }
    fn vec_from_bytes(b: &[u8]) -> Option<Vec<u8>> {
        Some(b.to_vec())
    }
    fn vec_to_bytes(v: &[u8]) -> Option<Vec<u8>> {
        Some(v.to_vec())
    }
}
sxv_int!(u16, "n");
sxv_int!(u32, "n");
sxv_int!(u64, "n");
sxv_int!(i8, "z");
sxv_int!(i32, "z");
sxv_int!(i64, "z");
sxv_int!(i128, "z");

impl Sxv for bool {
    fn from_sx(s: &Sx) -> Self {
        num::<u8>(s) != 0
    }
    fn to_sx(&self) -> String {
        format!("n{}", *self as u8)
    }
}
impl Sxv for char {
    fn from_sx(s: &Sx) -> Self {
        char::from_u32(num(s)).unwrap()
    }
    fn to_sx(&self) -> String {
        format!("n{}", *self as u32)
    }
}
impl Sxv for () {
    fn from_sx(_: &Sx) -> Self {}
    fn to_sx(&self) -> String {
        "(0)".into()
    }
}
impl Sxv for String {
    fn from_sx(s: &Sx) -> Self {
        String::from_utf8(unhex(&s.atom()[1..])).unwrap()
    }
    fn to_sx(&self) -> String {
        format!("b{}", hex(self.as_bytes()))
    }
}

/// DeduplicatedString has no Debug/Clone/PartialEq; a transparent wrapper for the catalogue.
pub struct DStr(pub String);
impl BinarySerializer for DStr {
    fn serialize<O: BinaryOutput>(&self, c: &mut SerializationContext<O>) -> Result<()> {
        DeduplicatedString(self.0.clone()).serialize(c)
    }
}
impl BinaryDeserializer for DStr {
    fn deserialize(c: &mut DeserializationContext<'_>) -> Result<Self> {
        Ok(DStr(DeduplicatedString::deserialize(c)?.0))
    }
}
impl Sxv for DStr {
    fn from_sx(s: &Sx) -> Self {
        DStr(String::from_sx(s))
    }
    fn to_sx(&self) -> String {
        self.0.to_sx()
    }
}

/// f64 compared by bits.
pub struct F64(pub f64);
impl BinarySerializer for F64 {
    fn serialize<O: BinaryOutput>(&self, c: &mut SerializationContext<O>) -> Result<()> {
        self.0.serialize(c)
    }
}
impl BinaryDeserializer for F64 {
    fn deserialize(c: &mut DeserializationContext<'_>) -> Result<Self> {
        Ok(F64(f64::deserialize(c)?))
    }
}
impl Sxv for F64 {
    fn from_sx(s: &Sx) -> Self {
        F64(f64::from_bits(num(s)))
    }
    fn to_sx(&self) -> String {
        format!("n{}", self.0.to_bits())
    }
}

impl<T: Sxv> Sxv for Option<T> {
    fn from_sx(s: &Sx) -> Self {
        let l = s.list();
        if l[0].atom() == "0" {
            None
        } else {
            Some(T::from_sx(&l[1]))
        }
    }
    fn to_sx(&self) -> String {
        match self {
            None => "(0)".into(),
            Some(x) => format!("(1 {})", x.to_sx()),
        }
    }
}
impl<T: Sxv> Sxv for Vec<T> {
    fn from_sx(s: &Sx) -> Self {
        match s {
            Sx::Atom(a) => T::vec_from_bytes(&unhex(&a[1..])).expect("byte string for a non-u8 vector"),
            Sx::List(l) => l[1..].iter().map(T::from_sx).collect(),
        }
    }
    fn to_sx(&self) -> String {
        match T::vec_to_bytes(self) {
            Some(b) => format!("b{}", hex(&b)),
            None => node(0, self.iter().map(|x| x.to_sx()).collect()),
        }
    }
}
impl<T: Sxv> Sxv for Box<T> {
    fn from_sx(s: &Sx) -> Self {
        Box::new(T::from_sx(s))
    }
    fn to_sx(&self) -> String {
        (**self).to_sx()
    }
}
impl<A: Sxv> Sxv for (A,) {
    fn from_sx(s: &Sx) -> Self {
        (A::from_sx(&s.list()[1]),)
    }
    fn to_sx(&self) -> String {
        node(0, vec![self.0.to_sx()])
    }
}
impl<A: Sxv, B: Sxv> Sxv for (A, B) {
    fn from_sx(s: &Sx) -> Self {
        let l = s.list();
        (A::from_sx(&l[1]), B::from_sx(&l[2]))
    }
    fn to_sx(&self) -> String {
        node(0, vec![self.0.to_sx(), self.1.to_sx()])
    }
}

pub fn dec_with_rest<T: BinaryDeserializer + Sxv>(bytes: &[u8]) -> Result<(String, usize)> {
    let mut ctx = DeserializationContext::new(bytes);
    let v = T::deserialize(&mut ctx)?;
    let mut rest = 0usize;
    while ctx.read_u8().is_ok() {
        rest += 1;
    }
    Ok((v.to_sx(), rest))
}

impl<T: Sxv, const N: usize> Sxv for [T; N] {
    fn from_sx(s: &Sx) -> Self {
        let v: Vec<T> = Vec::<T>::from_sx(s);
        match v.try_into() {
            Ok(a) => a,
            Err(_) => panic!("array value of the wrong length"),
        }
    }
    fn to_sx(&self) -> String {
        match T::vec_to_bytes(self) {
            Some(b) => format!("b{}", hex(&b)),
            None => node(0, self.iter().map(|x| x.to_sx()).collect()),
        }
    }
}
impl<T: Sxv> Sxv for std::collections::LinkedList<T> {
    fn from_sx(s: &Sx) -> Self {
        s.list()[1..].iter().map(T::from_sx).collect()
    }
    fn to_sx(&self) -> String {
        node(0, self.iter().map(|x| x.to_sx()).collect())
    }
}
impl<T: Sxv> Sxv for std::rc::Rc<T> {
    fn from_sx(s: &Sx) -> Self {
        std::rc::Rc::new(T::from_sx(s))
    }
    fn to_sx(&self) -> String {
        (**self).to_sx()
    }
}
impl<T: Sxv> Sxv for std::sync::Arc<T> {
    fn from_sx(s: &Sx) -> Self {
        std::sync::Arc::new(T::from_sx(s))
    }
    fn to_sx(&self) -> String {
        (**self).to_sx()
    }
}
impl<A: Sxv, B: Sxv> Sxv for std::result::Result<A, B> {
    // (1 ok) / (0 err), as the model's TResult
    fn from_sx(s: &Sx) -> Self {
        let l = s.list();
        if l[0].atom() == "1" {
            Ok(A::from_sx(&l[1]))
        } else {
            Err(B::from_sx(&l[1]))
        }
    }
    fn to_sx(&self) -> String {
        match self {
            Ok(x) => format!("(1 {})", x.to_sx()),
            Err(x) => format!("(0 {})", x.to_sx()),
        }
    }
}
